"""C11 -- geometric operations are rigid motions with the documented effect.

Theorems (coq/Props/C11.v, over R) are about the Fops-parametric model coq/Model/Rot.v.
Tie H: exact rational inputs are driven through the REAL implementation (molli.math.rotation,
CartesianGeometry / Substructure / Structure.rotate_dihedral, ConformerEnsemble, align_to_ref_coords);
what it returns is passed as exact rationals (float.as_integer_ratio) and compared INSIDE Coq with the
same model instantiated over Q (function `check` of Model/Rot.v, tolerance stated there), by vm_compute.
Oracle: the property judged on the implementation alone (proper rotation, maps v1 to v2, distances and
handedness kept, only the selected atoms move, dihedral reaches its target, reported RMSD is the RMSD left).
Ensemble operations are additionally run on ensembles of every array shape -- n_conformers == n_atoms, == 3, == 1,
n_atoms == 3, == 1 (synthetic chains; the bundled ensemble cut down / extended to 1, 3 and 17 conformers) -- with
per-conformer stacks, core sizes and mapping counts that coincide with those numbers; every operation is judged
conformer by conformer, and compared inside Coq with Model/RotEns.v (`echeck`).
Sessions: SEQUENCES of operations on ONE live object (Molecule, a Conformer kept alive, a Conformer fetched anew per step) --
the same dihedral driven from both ends, several dihedrals in a row, whole-body / substructure moves between dihedral calls,
connect / del_bond / add_atom / del_atom (and re-wiring) between two calls on the same bond; atoms designated by position or
by Atom object.  Every step is judged against the state the previous step left (target reached, exactly the atoms behind the
bond in the graph AS IT IS NOW moved, rigidly) and compared inside Coq with Model/RotSeq.v (`scheck`: the model step, with the
far side recomputed from the model's own graph, applied to the observed previous state).
"""
import math, os, json, itertools
from fractions import Fraction as Fr
import vlib
from vlib import cq_list, cq_Q, cq_nat, cq_opt

HEADER = "From Coq Require Import List ZArith QArith.\nImport ListNotations.\nFrom Molli Require Import Common.Field3 Model.Rot.\n"
HEADER_E = HEADER.replace("Model.Rot.", "Model.Rot Model.RotEns.")
TOL_DEFAULT = 1.0e-8          # default `tol` of rotation_matrix_from_vectors
ORACLE_EPS = 1e-6             # oracle tolerance on matrices / coordinates / angles (floats; the model shards use 1e-9)
MOLS = ["box_backbone_mol2", "cinchonidine_query", "dendrobine_mol2", "dmf_mol2", "fxyl_mol2",
        "hadd_test_mol2", "isornitrate_mol2", "pentane_confs_mol2", "benzene_mol2", "bpa_backbone_mol2"]


# ------------------------------------------------------------------ exact arithmetic helpers
def fr(x):
    return Fr(x)          # exact for floats and ints


def qsqrt(q: Fr, bits=66) -> Fr:
    """Rational n = 2^k / m > 0 with |n^2 - q| <= q * 2^-60: witness for an (in general irrational) square
    root.  The power-of-two NUMERATOR keeps v / n dyadic for dyadic v, which keeps the numbers that Coq has
    to reduce small (the model divides by norms far more often than it multiplies by them)."""
    q = Fr(q)
    assert q > 0
    rn, rd = math.isqrt(q.numerator), math.isqrt(q.denominator)
    if rn * rn == q.numerator and rd * rd == q.denominator:
        return Fr(rn, rd)                       # exact (vectors with rational norm)
    k = bits + max(0, (q.numerator.bit_length() - q.denominator.bit_length()) // 2 + 2)
    m = math.isqrt(((1 << (2 * k)) * q.denominator) // q.numerator)
    r = Fr(1 << k, m)
    assert abs(r * r - q) <= q / (1 << 60), (q, r)
    return r


def vq(v):
    return "(" + ", ".join(cq_Q(fr(x)) for x in v) + ")"


def mq(M):
    return "(" + ", ".join(vq(r) for r in M) + ")"


def rowsq(X):
    return cq_list(vq(r) for r in X)


def ensq(E):
    return cq_list(rowsq(X) for X in E)


def natl(l):
    return cq_list(cq_nat(int(i)) for i in l)


def fdot(a, b):
    return sum(fr(x) * fr(y) for x, y in zip(a, b))


def rat_sincos(p, q):
    """(sin, cos) = (2pq, q^2 - p^2)/(p^2 + q^2): exact rational point on the circle (tan(t/2) = p/q)."""
    d = p * p + q * q
    return Fr(2 * p * q, d), Fr(q * q - p * p, d)


def pyth_vec(rng, m=6):
    """Integer vector with integer norm (stereographic parametrisation of a rational unit vector)."""
    while True:
        p, r, q = rng.randint(-m, m), rng.randint(-m, m), rng.randint(1, m)
        v = (2 * p * q, 2 * r * q, p * p + r * r - q * q)
        if any(v):
            perm = rng.sample(range(3), 3)
            sg = [rng.choice((-1, 1)) for _ in range(3)]
            return tuple(sg[i] * v[perm[i]] for i in range(3))


def quat_matrix(rng, m=4):
    """Rational proper rotation from an integer quaternion."""
    while True:
        w, x, y, z = (rng.randint(-m, m) for _ in range(4))
        n = w * w + x * x + y * y + z * z
        if n:
            break
    M = [[w * w + x * x - y * y - z * z, 2 * (x * y - w * z), 2 * (x * z + w * y)],
         [2 * (x * y + w * z), w * w - x * x + y * y - z * z, 2 * (y * z - w * x)],
         [2 * (x * z - w * y), 2 * (y * z + w * x), w * w - x * x - y * y + z * z]]
    return [[Fr(e, n) for e in r] for r in M]


# ------------------------------------------------------------------ python-side judgments (oracle)
def np_():
    import numpy as np
    return np


def dist_matrix(X):
    np = np_()
    X = np.asarray(X, dtype=float)
    return np.sqrt(((X[:, None, :] - X[None, :, :]) ** 2).sum(-1))


def signed_volumes(X, quads):
    np = np_()
    X = np.asarray(X, dtype=float)
    return np.array([np.dot(X[j] - X[i], np.cross(X[k] - X[i], X[l] - X[i])) for i, j, k, l in quads])


def quads_of(rng_seed, idx, n=12):
    import random
    r = random.Random(rng_seed)
    idx = list(idx)
    if len(idx) < 4:
        return []
    return [tuple(r.sample(idx, 4)) for _ in range(n)]


def shape_violation(X0, X1, idx, seed):
    """None when rows idx of X1 are a rigid, handedness-preserving image of rows idx of X0."""
    np = np_()
    idx = list(idx)
    if len(idx) < 2:
        return None
    scale = 1.0 + float(np.abs(np.asarray(X0)).max())
    d0, d1 = dist_matrix(np.asarray(X0)[idx]), dist_matrix(np.asarray(X1)[idx])
    if np.abs(d0 - d1).max() > ORACLE_EPS * scale:
        i, j = np.unravel_index(np.abs(d0 - d1).argmax(), d0.shape)
        return "distance", f"distance between atoms {idx[i]} and {idx[j]} changed from {d0[i, j]:.9f} to {d1[i, j]:.9f}"
    q = quads_of(seed, idx)
    if q:
        s0, s1 = signed_volumes(X0, q), signed_volumes(X1, q)
        if np.abs(s0 - s1).max() > ORACLE_EPS * scale ** 3:
            k = int(np.abs(s0 - s1).argmax())
            return "handedness", f"signed volume of atoms {q[k]} changed from {s0[k]:.9f} to {s1[k]:.9f}"
    return None


def rotation_violation(M, eps=ORACLE_EPS):
    np = np_()
    M = np.asarray(M, dtype=float)
    if M.shape != (3, 3) or not np.isfinite(M).all():
        return "not-finite", f"result is not a finite 3x3 matrix: {M!r}"
    if np.abs(M @ M.T - np.eye(3)).max() > eps:
        return "not-orthogonal", f"R R^T differs from I by {np.abs(M @ M.T - np.eye(3)).max():.3e}"
    if abs(np.linalg.det(M) - 1.0) > eps:
        return "det-not-1", f"det R = {np.linalg.det(M):.9f}"
    return None


# ------------------------------------------------------------------ rotation_matrix_from_vectors
class RandTap:
    """Records (does not alter) the np.random.rand draws made during a call."""

    def __enter__(self):
        np = np_()
        self.np, self.orig, self.draws = np, np.random.rand, []

        def rand(*a):
            r = self.orig(*a)
            self.draws.append(np.array(r, dtype=float).copy())
            return r
        np.random.rand = rand
        return self

    def __exit__(self, *a):
        self.np.random.rand = self.orig


def vec_inputs(ctx):
    """(tag, v1, v2, tol or None) with integer / dyadic components (exact in binary64)."""
    rng = ctx.rng
    out = []
    E = [(1, 0, 0), (0, 1, 0), (0, 0, 1)]
    axes = E + [tuple(-x for x in e) for e in E]
    for a in axes:                                    # axis-aligned: every ordered pair incl. equal and opposite
        for b in axes:
            out.append(("axis-aligned", a, b, None))
    n = 120 if not ctx.thorough else 1500
    for _ in range(n):                                # generic rational directions, arbitrary lengths
        a, b = pyth_vec(rng), pyth_vec(rng)
        ka, kb = Fr(rng.randint(1, 40), 2 ** rng.randint(0, 6)), Fr(rng.randint(1, 40), 2 ** rng.randint(0, 6))
        out.append(("generic", tuple(float(ka * x) for x in a), tuple(float(kb * x) for x in b), None))
    for _ in range(10 if not ctx.thorough else 60):   # same direction (angle 0) and exactly opposite (angle pi)
        a = pyth_vec(rng)
        out.append(("parallel", a, tuple(3 * x for x in a), None))
        out.append(("opposite", a, tuple(-2 * x for x in a), None))
    # b = -a + eps: 1 + cos on both sides of the tolerance threshold and far inside / outside it
    taus = [1e-4, 1e-5, 1e-6, 3e-7, 1e-7, 3e-8, 2e-8, 1.5e-8, 1.1e-8, 1.01e-8, 1.001e-8, 1.00001e-8,
            0.99999e-8, 0.999e-8, 0.99e-8, 0.9e-8, 0.5e-8, 1e-9, 1e-10, 1e-12, 1e-14, 1e-16, 1e-20, 1e-24]
    reps = 3 if not ctx.thorough else 20
    for tau in taus:
        for _ in range(reps):
            a = pyth_vec(rng)
            N2 = sum(x * x for x in a)
            while True:
                w = tuple(rng.randint(-5, 5) for _ in range(3))
                e = (a[1] * w[2] - a[2] * w[1], a[2] * w[0] - a[0] * w[2], a[0] * w[1] - a[1] * w[0])
                if any(e):
                    break
            k = 36
            e2 = sum(x * x for x in e)
            m = round((2 ** k) * math.sqrt(N2) * math.sqrt(2 * tau) / math.sqrt(e2))
            v2 = tuple(-(2 ** k) * a[i] + m * e[i] for i in range(3))
            if max(abs(x) for x in v2) >= 2 ** 53:
                continue
            if rng.random() < 0.5:
                out.append(("near-opposite", a, v2, None))
            else:
                out.append(("near-opposite", v2, a, None))
    # explicit tolerances: wide (2^-6), zero, and exact threshold neighbourhoods are covered above
    for _ in range(20 if not ctx.thorough else 200):
        a, b = pyth_vec(rng), pyth_vec(rng)
        out.append(("explicit-tol", a, b, rng.choice([0.0, 2.0 ** -6, 2.0 ** -2, 0.5, 2.0 ** -30])))
    return out


def run_vec(ml, tag, v1, v2, tol):
    """Drive the implementation; return (case term or None, oracle violation or None, info)."""
    np = np_()
    from molli.math import rotation_matrix_from_vectors
    f1, f2 = [float(x) for x in v1], [float(x) for x in v2]
    q1, q2 = [fr(x) for x in f1], [fr(x) for x in f2]
    n1, n2 = qsqrt(fdot(q1, q1)), qsqrt(fdot(q2, q2))
    if tol is None:
        # the model must use the default the code declares (changing it is not a property violation)
        import inspect
        d = inspect.signature(rotation_matrix_from_vectors).parameters.get("tol")
        tol_used = float(d.default) if d is not None and isinstance(d.default, (int, float)) else TOL_DEFAULT
    else:
        tol_used = tol
    tolq = fr(tol_used)
    c = fdot(q1, q2) / (n1 * n2)
    margin = abs(c - (tolq - 1))
    with RandTap() as tap:
        try:
            M = rotation_matrix_from_vectors(f1, f2) if tol is None else rotation_matrix_from_vectors(f1, f2, tol=tol)
        except Exception as e:   # noqa
            return None, ("raises-" + type(e).__name__, f"rotation_matrix_from_vectors({f1}, {f2}) raised {e!r}"), {"branch": "error"}
    M = np.asarray(M, dtype=float)
    anti = c <= tolq - 1
    info = {"branch": "antiparallel" if anti else "general", "margin": float(margin), "one_plus_c": float(1 + c),
            "o_observed": bool(tap.draws)}
    # oracle, with the tolerance the model comparison uses: 1e-9, plus the 1/(1+c) amplification of rounding in
    # the general branch (see eps_amp in Model/Rot.v)
    eps = 1e-9 if anti else 1e-9 + 1e-14 / float(1 + c)
    viol = rotation_violation(M, eps)
    if viol is None:
        a = np.array(f1) / np.linalg.norm(f1)
        b = np.array(f2) / np.linalg.norm(f2)
        if np.abs(a @ M - b).max() > eps:
            viol = ("does-not-map", f"v1/|v1| @ R differs from v2/|v2| by {np.abs(a @ M - b).max():.3e} (v1={f1}, v2={f2})")
    if margin < Fr(1, 10 ** 14):
        return None, viol, dict(info, skipped="branch decision within float rounding of the threshold")
    if not np.isfinite(M).all():
        return None, viol, info
    ov = "None"
    if anti and tap.draws:
        RV = [fr(x) for x in tap.draws[-1]]
        b = [x / n2 for x in q2]
        k = fdot(RV, b)
        w = [RV[i] - b[i] * k for i in range(3)]
        if any(w):
            ov = f"(Some ({vq(w)}, {cq_Q(qsqrt(fdot(w, w)))}))"
    term = f"(CVec {cq_Q(tolq)} {vq(q1)} {cq_Q(n1)} {vq(q2)} {cq_Q(n2)} {ov} {mq(M.tolist())})"
    return term, viol, info


# ------------------------------------------------------------------ rotation_matrix_from_axis
def axis_inputs(ctx):
    rng = ctx.rng
    angles = [(0, 1), (1, 0), (1, 1), (-1, 1), (1, 2), (3, 1), (-2, 5), (1, 1000), (1000, 1), (-1000, 1), (1, -1000)]
    out = []
    E = [(1, 0, 0), (0, 1, 0), (0, 0, 1), (-1, 0, 0), (0, -1, 0), (0, 0, -1)]
    for ax in E:
        for p, q in angles:
            out.append(("axis-aligned", ax, p, q))
    for _ in range(60 if not ctx.thorough else 800):
        ax = tuple(rng.randint(-9, 9) for _ in range(3))
        if not any(ax):
            continue
        k = Fr(rng.randint(1, 30), 2 ** rng.randint(0, 5))
        p, q = rng.choice(angles) if rng.random() < 0.3 else (rng.randint(-12, 12), rng.randint(1, 12))
        out.append(("generic", tuple(float(k * x) for x in ax), p, q))
    return out


def run_axis(ml, tag, ax, p, q):
    np = np_()
    from molli.math import rotation_matrix_from_axis
    s, c = (Fr(0), Fr(-1)) if q == 0 else rat_sincos(p, q)
    if (p, q) == (1, 0):
        s, c = Fr(0), Fr(-1)          # angle pi
    angle = math.atan2(float(s), float(c))
    fax = [float(x) for x in ax]
    try:
        M = np.asarray(rotation_matrix_from_axis(fax, angle), dtype=float)
    except Exception as e:  # noqa
        return None, ("raises-" + type(e).__name__, f"rotation_matrix_from_axis({fax}, {angle}) raised {e!r}"), {}
    qa = [fr(x) for x in fax]
    n = qsqrt(fdot(qa, qa))
    viol = rotation_violation(M)
    if viol is None:
        u = np.array(fax) / np.linalg.norm(fax)
        if np.abs(u @ M - u).max() > ORACLE_EPS:
            viol = ("axis-not-fixed", f"axis @ R differs from axis by {np.abs(u @ M - u).max():.3e}")
        elif abs(np.trace(M) - (1 + 2 * math.cos(angle))) > ORACLE_EPS:
            viol = ("wrong-angle", f"trace R = {np.trace(M):.9f}, 1 + 2 cos(angle) = {1 + 2 * math.cos(angle):.9f}")
        else:
            # sense: for x perpendicular to the axis, u . (x  x  R x) = sin(angle) |x|^2 (right-handed, column action)
            x = np.cross(u, [1.0, 0, 0] if abs(u[0]) < 0.9 else [0, 1.0, 0])
            sn = float(np.dot(u, np.cross(x, M @ x)) / np.dot(x, x))
            if abs(sn - math.sin(angle)) > ORACLE_EPS:
                viol = ("wrong-sense", f"the rotation about {fax} by {angle:.6f} turns by sine {sn:.9f} instead of {math.sin(angle):.9f}")
    info = {"angle": angle}
    if not np.isfinite(M).all():
        return None, viol, info
    return f"(CAxis {vq(qa)} {cq_Q(n)} {cq_Q(s)} {cq_Q(c)} {mq(M.tolist())})", viol, info


# ------------------------------------------------------------------ molecules
_MOLCACHE = {}


def load_mols(ml):
    """Bundled molecules with coordinates snapped to the 2^-12 grid (exact dyadic rationals)."""
    np = np_()
    if "mols" in _MOLCACHE:
        return _MOLCACHE["mols"]
    out = []
    for nm in MOLS:
        p = getattr(ml.files, nm, None)
        if p is None:
            continue
        try:
            if nm == "pentane_confs_mol2":
                ens = ml.ConformerEnsemble.load_mol2(str(p))
                mols = [ml.Molecule(ens[i]) for i in range(ens.n_conformers)]
            else:
                mols = [ml.Molecule.load_mol2(str(p))]
        except Exception:   # noqa  (readers are C07/C10's business)
            continue
        for k, m in enumerate(mols):
            m.coords = np.round(np.asarray(m.coords, dtype=float) * 4096.0) / 4096.0
            out.append((f"{nm}#{k}", m))
    _MOLCACHE["mols"] = out
    return out


def adjacency(m):
    adj = {i: set() for i in range(m.n_atoms)}
    for b in m.bonds:
        i, j = m.get_atom_index(b.a1), m.get_atom_index(b.a2)
        adj[i].add(j)
        adj[j].add(i)
    return adj


def far_side(adj, i2, i3):
    """Atoms reachable from i3 without using the bond i2-i3 (independent of molli's own search)."""
    seen, stack = {i3}, [i3]
    while stack:
        x = stack.pop()
        for y in adj[x]:
            if (x, y) == (i3, i2) or y in seen:
                continue
            seen.add(y)
            stack.append(y)
    return seen


def dihedral_quads(ctx, m, adj):
    """(i1,i2,i3,i4) over every rotatable acyclic bond, both directions."""
    out = []
    for i2 in range(m.n_atoms):
        for i3 in sorted(adj[i2]):
            side = far_side(adj, i2, i3)
            if i2 in side:
                continue                      # ring bond
            n1 = sorted(adj[i2] - {i3})
            n4 = sorted(adj[i3] - {i2})
            if not n1 or not n4:
                continue
            combos = list(itertools.product(n1, n4))
            if not ctx.thorough:
                combos = [combos[0], combos[-1]] if len(combos) > 1 else combos
            for i1, i4 in combos:
                out.append((i1, i2, i3, i4))
    return out


def ang_diff(a, b):
    return abs(math.atan2(math.sin(a - b), math.cos(a - b)))


def run_dihedral(ml, name, m, quad):
    np = np_()
    i1, i2, i3, i4 = quad
    X = np.asarray(m.coords, dtype=float)
    d = float(m.dihedral(i1, i2, i3, i4))
    P = [[fr(x) for x in X[i]] for i in quad]
    u2 = [P[2][k] - P[1][k] for k in range(3)]
    n2 = qsqrt(fdot(u2, u2))
    return f"(CDih {vq(P[0])} {vq(P[1])} {vq(P[2])} {vq(P[3])} {cq_Q(n2)} {cq_Q(fr(math.sin(d)))} {cq_Q(fr(math.cos(d)))})", d


def exact_dihedral_args(X, quad, n2):
    P = [[fr(x) for x in X[i]] for i in quad]
    u1 = [P[1][k] - P[0][k] for k in range(3)]
    u2 = [P[2][k] - P[1][k] for k in range(3)]
    u3 = [P[3][k] - P[2][k] for k in range(3)]

    def cross(a, b):
        return [a[1] * b[2] - a[2] * b[1], a[2] * b[0] - a[0] * b[2], a[0] * b[1] - a[1] * b[0]]
    return n2 * fdot(u1, cross(u2, u3)), fdot(cross(u1, u2), cross(u2, u3))


def run_rotdih(ml, name, m0, quad, p, q):
    """rotate_dihedral on a copy; returns (term or None, violation or None, info)."""
    np = np_()
    i1, i2, i3, i4 = quad
    st, ct = (Fr(0), Fr(-1)) if q == 0 else rat_sincos(p, q)
    target = math.atan2(float(st), float(ct))
    m = ml.Molecule(m0)
    X0 = np.asarray(m.coords, dtype=float).copy()
    adj = adjacency(m)
    side = far_side(adj, i2, i3)
    try:
        bfs = [m.get_atom_index(a) for a in m.yield_bfs(i2, i3)]
        m.rotate_dihedral((i1, i2, i3, i4), target)
    except Exception as e:  # noqa
        return None, ("rotate_dihedral:raises-" + type(e).__name__, f"{name}: rotate_dihedral({quad}, {target}) raised {e!r}"), {}
    X1 = np.asarray(m.coords, dtype=float).copy()
    d1 = float(m.dihedral(i1, i2, i3, i4))
    viol = None
    others = [i for i in range(m.n_atoms) if i not in side]
    moved_outside = [i for i in others if np.abs(X1[i] - X0[i]).max() > ORACLE_EPS]
    if moved_outside:
        viol = ("rotate_dihedral:other-atoms-moved", f"{name}: rotate_dihedral({quad}) moved atoms {moved_outside[:6]} on the near side of the bond")
    elif ang_diff(d1, target) > ORACLE_EPS:
        viol = ("rotate_dihedral:target-missed", f"{name}: rotate_dihedral({quad}, {target:.6f}) leaves the dihedral at {d1:.6f}")
    else:
        sv = shape_violation(X0, X1, sorted(side), 11) or shape_violation(X0, X1, others, 12)
        if sv:
            viol = ("rotate_dihedral:" + sv[0], f"{name}: rotate_dihedral({quad}): {sv[1]}")
    u2 = [fr(X0[i3][k]) - fr(X0[i2][k]) for k in range(3)]
    n2 = qsqrt(fdot(u2, u2))
    g1, g2 = exact_dihedral_args(X0, quad, n2)
    if g1 * g1 + g2 * g2 < Fr(1, 10 ** 6):
        return None, viol, {"degenerate": True}
    rho = qsqrt(g1 * g1 + g2 * g2)
    term = (f"(CRotDih {rowsq(X0.tolist())} {cq_nat(i1)} {cq_nat(i2)} {cq_nat(i3)} {cq_nat(i4)} {natl(bfs)} "
            f"{cq_Q(st)} {cq_Q(ct)} {cq_Q(n2)} {cq_Q(rho)} {rowsq(X1.tolist())})")
    return term, viol, {"n_moved": len(side), "target": target}


# ------------------------------------------------------------------ translate / transform on structures and substructures
def gen_gops(ctx, k):
    rng = ctx.rng
    ops = []
    for _ in range(k):
        if rng.random() < 0.5:
            ops.append(("t", [float(Fr(rng.randint(-4096, 4096), 256)) for _ in range(3)]))
        else:
            ops.append(("r", [[float(e) for e in r] for r in quat_matrix(rng)]))
    return ops


def run_geom(ml, name, m0, idx, ops, outer=None):
    """outer: the substructure is taken from a LARGER substructure (a view of a view): the same atoms are selected"""
    np = np_()
    m = ml.Molecule(m0)
    X0 = np.asarray(m.coords, dtype=float).copy()
    if idx is None:
        tgt = m
    elif outer is None:
        tgt = m.substructure(idx)
    else:
        tgt = m.substructure(list(outer)).substructure([list(outer).index(i) for i in idx])
    try:
        for kind, arg in ops:
            if kind == "t":
                tgt.translate(arg)
            else:
                tgt.transform(np.array(arg))
    except Exception as e:  # noqa
        return None, ("geometry:raises-" + type(e).__name__, f"{name}: {kind} on {'structure' if idx is None else 'substructure'} raised {e!r}"), {}
    X1 = np.asarray(m.coords, dtype=float).copy()
    sel = list(range(m.n_atoms)) if idx is None else sorted(set(idx))
    rest = [i for i in range(m.n_atoms) if i not in set(sel)]
    viol = None
    if rest and np.abs(X1[rest] - X0[rest]).max() > 0:
        bad = [i for i in rest if np.abs(X1[i] - X0[i]).max() > 0]
        viol = ("substructure:other-atoms-moved", f"{name}: editing substructure {sel[:8]}... changed the coordinates of atoms {bad[:6]}")
    else:
        sv = shape_violation(X0, X1, sel, 21)
        if sv:
            viol = ("geometry:" + sv[0], f"{name}: translate/transform with proper rotations: {sv[1]}")
        elif idx is not None and any(k == "t" and any(a) for k, a in ops) and len(ops) == 1 and np.abs(X1[sel] - X0[sel]).max() == 0:
            viol = ("substructure:selected-not-moved", f"{name}: substructure translate left the selected atoms in place")
        elif idx is not None and np.abs(X1[sel] - X0[sel]).max() == 0:
            Xe = X0[list(idx)].copy()
            for k, a in ops:
                Xe = Xe + np.array(a) if k == "t" else Xe @ np.array(a)
            if np.abs(Xe - X0[list(idx)]).max() > 1e-6:
                viol = ("substructure:selected-not-moved", f"{name}: {[k for k, _ in ops]} through "
                        f"{'a substructure of a substructure' if outer is not None else 'a substructure'} left the selected atoms {sel[:8]} in place")
    opsq = cq_list((f"(GTranslate {vq(a)})" if k == "t" else f"(GTransform {mq(a)})") for k, a in ops)
    idxq = "None" if idx is None else f"(Some {natl(idx)})"
    return f"(CGeom {rowsq(X0.tolist())} {idxq} {opsq} {rowsq(X1.tolist())})", viol, {}


# ------------------------------------------------------------------ view -> edit the parent -> move through the (now old) view
def gen_stale(ctx, m0, randomise):
    """Plan: optional pre-deletions + random coordinates, a view, 1-3 edits of the PARENT that do not delete view atoms
    (del_atom before / after the view atoms, add_atom, remove_substituent), then moves through the view."""
    rng = ctx.rng
    n = m0.n_atoms
    plan = {"coords": None, "predel": []}
    alive = list(range(n))
    if randomise:
        plan["coords"] = [[float(Fr(rng.randint(-20480, 20480), 4096)) for _ in range(3)] for _ in range(n)]
        plan["predel"] = sorted(rng.sample(range(n), rng.randint(0, max(0, min(4, n - 4)))), reverse=True)
        alive = [i for i in alive if i not in plan["predel"]]
    k = rng.randint(1, max(1, len(alive) // 2))
    view = rng.sample(alive, k)
    rest = [i for i in alive if i not in view]
    edits = []
    mode = rng.choice(["before", "after", "mixed", "mixed"])
    for _ in range(rng.randint(1, 3)):
        r = rng.random()
        cand = [i for i in rest if (mode != "before" or i < max(view)) and (mode != "after" or i > min(view))] or rest
        if r < 0.6 and cand:
            i = rng.choice(cand)
            rest.remove(i)
            edits.append(["del", i])
        elif r < 0.8:
            edits.append(["add", [float(Fr(rng.randint(-4096, 4096), 256)) for _ in range(3)]])
        elif rest:
            edits.append(["rs", rng.choice(rest)])       # remove_substituent towards this atom, if that spares the view
    if not any(e[0] == "del" for e in edits) and rest:
        i = min(rest) if mode != "after" else max(rest)
        edits.insert(0, ["del", i])
    plan.update(view=view, edits=edits, ops=gen_gops(ctx, rng.randint(1, 2)))
    return plan


def run_stale(ml, name, m0, plan):
    np = np_()
    m = ml.Molecule(m0)
    if plan["coords"] is not None:
        m.coords = np.array(plan["coords"], dtype=float)
    orig = list(m.atoms)                       # atoms are identified by OBJECT from here on
    for i in plan["predel"]:
        m.del_atom(orig[i])
    view_atoms = [orig[i] for i in plan["view"]]
    try:
        sub = m.substructure(view_atoms)
        applied = []
        for e in plan["edits"]:
            if e[0] == "del":
                if orig[e[1]] in m.atoms:
                    m.del_atom(orig[e[1]])
                    applied.append("del")
            elif e[0] == "add":
                m.add_atom(ml.Atom("H"), e[1])
                applied.append("add")
            else:
                a2 = orig[e[1]]
                if a2 not in m.atoms:
                    continue
                nb = [a for a in m.connected_atoms(a2) if a not in view_atoms]
                if not nb:
                    continue
                a1 = nb[0]
                side = list(m.yield_bfs(a1, a2))
                if any(a in view_atoms for a in side) or a1 in side:
                    continue
                m.remove_substituent(a1, a2)
                applied.append("rs")
        atoms_now = list(m.atoms)
        post = [next(k for k, a in enumerate(atoms_now) if a is va) for va in view_atoms]
        X0 = np.asarray(m.coords, dtype=float).copy()
        if X0.shape[0] != len(atoms_now):
            return None, None, {"skipped": "parent edit left atoms and coordinates misaligned (C05)"}
        for kind, arg in plan["ops"]:
            if kind == "t":
                sub.translate(arg)
            else:
                sub.transform(np.array(arg))
    except Exception as e:  # noqa
        return None, ("substructure:raises-" + type(e).__name__, f"{name}: moving through a view after editing the parent raised {e!r} (plan {json.dumps(plan)[:300]})"), {}
    X1 = np.asarray(m.coords, dtype=float).copy()
    want = X0.copy()
    for kind, arg in plan["ops"]:
        if kind == "t":
            want[post] = want[post] + np.array(arg)
        else:
            want[post] = want[post] @ np.array(arg)
    others = [k for k in range(len(atoms_now)) if k not in set(post)]
    viol = None
    moved_others = [k for k in others if np.abs(X1[k] - X0[k]).max() > 0]
    wrong_sel = [k for k in post if np.abs(X1[k] - want[k]).max() > 1e-9]
    if X1.shape != X0.shape:
        viol = ("substructure:stale-view-shape", f"{name}: coordinate array changed shape {X0.shape} -> {X1.shape}")
    elif moved_others or wrong_sel:
        viol = ("substructure:stale-view-wrong-atoms-moved",
                f"{name}: view on atoms {plan['view']} (rows {post} after parent edits {applied}), then {[k for k, _ in plan['ops']]} through the view: "
                f"rows {moved_others[:6]} of other atoms changed, selected rows {wrong_sel[:6]} are not where the rigid motion puts them")
    else:
        sv = shape_violation(X0, X1, post, 61)
        if sv:
            viol = ("substructure:stale-view-" + sv[0], f"{name}: {sv[1]}")
    opsq = cq_list((f"(GTranslate {vq(a)})" if k == "t" else f"(GTransform {mq(a)})") for k, a in plan["ops"])
    term = f"(CGeom {rowsq(X0.tolist())} (Some {natl(post)}) {opsq} {rowsq(X1.tolist())})"
    return term, viol, {"edits": applied}


def run_conf_view(ml, ens0, ci, idx, ops):
    """substructure of a Conformer (a live view into the ensemble): only that conformer's selected rows move."""
    np = np_()
    ens = ml.ConformerEnsemble(ens0)
    ens.coords = np.asarray(ens0.coords, dtype=float).copy()
    E0 = np.asarray(ens.coords, dtype=float).copy()
    try:
        sub = ens[ci].substructure(idx)
        for kind, arg in ops:
            if kind == "t":
                sub.translate(arg)
            else:
                sub.transform(np.array(arg))
    except Exception as e:  # noqa
        return None, ("substructure:conformer-raises-" + type(e).__name__, f"conformer {ci} substructure {idx}: {e!r}"), {}
    E1 = np.asarray(ens.coords, dtype=float).copy()
    viol = None
    mask = np.ones(E0.shape[:2], dtype=bool)
    mask[ci, sorted(set(idx))] = False
    if np.abs(E1 - E0).max(axis=2)[mask].max() > 0:
        bad = np.argwhere((np.abs(E1 - E0).max(axis=2) > 0) & mask).tolist()
        viol = ("substructure:conformer-other-atoms-moved", f"moving substructure {idx} of conformer {ci} changed (conformer, atom) rows {bad[:6]}")
    else:
        sv = shape_violation(E0[ci], E1[ci], sorted(set(idx)), 71)
        if sv:
            viol = ("substructure:conformer-" + sv[0], f"conformer {ci}: {sv[1]}")
    opsq = cq_list((f"(GTranslate {vq(a)})" if k == "t" else f"(GTransform {mq(a)})") for k, a in ops)
    return f"(CGeom {rowsq(E0[ci].tolist())} (Some {natl(idx)}) {opsq} {rowsq(E1[ci].tolist())})", viol, {}


def run_centroid(ml, name, m0):
    np = np_()
    X0 = np.asarray(m0.coords, dtype=float)
    c = np.asarray(m0.centroid(), dtype=float)
    viol = None
    if np.abs(c - X0.mean(axis=0)).max() > ORACLE_EPS:
        viol = ("centroid:wrong", f"{name}: centroid() = {c.tolist()} but the mean position is {X0.mean(axis=0).tolist()}")
    return f"(CCentroid {rowsq(X0.tolist())} {vq(c.tolist())})", viol, {}


# ------------------------------------------------------------------ ensembles
def load_ens(ml):
    np = np_()
    ens = ml.ConformerEnsemble.load_mol2(str(ml.files.pentane_confs_mol2))
    ens.coords = np.round(np.asarray(ens.coords, dtype=float) * 4096.0) / 4096.0
    return ens


def gen_eops(ctx, ens, k):
    rng = ctx.rng
    nc, na = ens.n_conformers, ens.n_atoms
    ops = []
    for _ in range(k):
        r = rng.random()
        if r < 0.2:
            ops.append(("t1", [float(Fr(rng.randint(-2048, 2048), 128)) for _ in range(3)]))
        elif r < 0.4:
            ops.append(("t2", [[float(Fr(rng.randint(-2048, 2048), 128)) for _ in range(3)] for _ in range(nc)]))
        elif r < 0.6:
            ops.append(("rot", [[float(e) for e in row] for row in quat_matrix(rng)]))
        elif r < 0.8:
            ops.append(("cat", rng.randrange(na)))
        else:
            ops.append(("core", rng.sample(range(na), rng.randint(1, 6))))
    return ops


def run_ens(ml, ens0, ops):
    np = np_()
    ens = ml.ConformerEnsemble(ens0)
    ens.coords = np.asarray(ens0.coords, dtype=float).copy()
    E0 = np.asarray(ens.coords, dtype=float).copy()
    viol = None
    try:
        for kind, arg in ops:
            if kind == "t1":
                ens.translate(arg)
            elif kind == "t2":
                ens.translate(np.array(arg))
            elif kind == "rot":
                ens.rotate(np.array(arg))
            elif kind == "cat":
                ens.center_at_atom(ens.atoms[arg])
                if np.abs(np.asarray(ens.coords)[:, arg]).max() > ORACLE_EPS:
                    viol = ("ensemble:center_at_atom-not-at-origin", f"center_at_atom({arg}) leaves that atom at {np.asarray(ens.coords)[:, arg].tolist()[:2]}")
            else:
                ens.center_at_core(arg)
                cen = np.asarray(ens.coords)[:, arg].mean(axis=1)
                if np.abs(cen).max() > ORACLE_EPS:
                    viol = ("ensemble:center_at_core-not-at-origin", f"center_at_core({arg}) leaves the core centroid at {cen.tolist()[:2]}")
    except Exception as e:  # noqa
        return None, ("ensemble:raises-" + type(e).__name__, f"ensemble op {kind} raised {e!r}"), {}
    E1 = np.asarray(ens.coords, dtype=float).copy()
    if viol is None:
        for ci in range(E0.shape[0]):
            sv = shape_violation(E0[ci], E1[ci], range(E0.shape[1]), 31 + ci)
            if sv:
                viol = ("ensemble:" + sv[0], f"conformer {ci} after {[k for k, _ in ops]}: {sv[1]}")
                break
    def opq(kind, arg):
        if kind == "t1":
            return f"(ETranslate1 {vq(arg)})"
        if kind == "t2":
            return f"(ETranslate2 {rowsq(arg)})"
        if kind == "rot":
            return f"(ERotate {mq(arg)})"
        if kind == "cat":
            return f"(ECenterAtom {cq_nat(arg)})"
        return f"(ECenterCore {natl(arg)})"
    term = f"(CEns {ensq(E0.tolist())} {cq_list(opq(k, a) for k, a in ops)} {ensq(E1.tolist())})"
    return term, viol, {}


# ------------------------------------------------------------------ alignment
def kabsch(P, Q):
    """Reference callback: proper rotation M minimising |P M - Q| and the RMSD it achieves (numpy SVD)."""
    np = np_()
    P, Q = np.asarray(P, dtype=float), np.asarray(Q, dtype=float)
    H = P.T @ Q
    U, S, Vt = np.linalg.svd(H)
    d = np.sign(np.linalg.det(U @ Vt))
    M = U @ np.diag([1.0, 1.0, d]) @ Vt
    return M, float(np.sqrt(((P @ M - Q) ** 2).sum() / len(P)))


class Recorder:
    def __init__(self):
        self.inputs, self.results = [], []

    def __call__(self, P, Q):
        np = np_()
        self.inputs.append(np.asarray(P, dtype=float).copy())
        M, r = kabsch(P, Q)
        self.results.append((M.copy(), r))
        return M, r


def align_setup(ctx, m0):
    """core index mappings (one atom set permuted, or several atom sets: disjoint / overlapping / mixed), reference = re-posed,
    slightly distorted copy of the atoms of one of the mappings (first / middle / last), centred."""
    np = np_()
    rng = ctx.rng
    na = m0.n_atoms
    idxs, _ = site_mappings(rng, na, min(na, rng.randint(3, 6)), rng.randint(1, 3), rng.choice(MAP_MODES))
    R = np.array([[float(e) for e in r] for r in quat_matrix(rng)])
    ref, _ = site_reference(rng, np.asarray(m0.coords, dtype=float), idxs, R)
    vec = None if rng.random() < 0.5 else [float(Fr(rng.randint(-512, 512), 64)) for _ in range(3)]
    return idxs, ref, vec


def mapping_counts(idxs, results, pre="align"):
    """input distribution of an alignment case: how the mappings relate, and where the best-fitting one stands"""
    sets = [frozenset(ix) for ix in idxs]
    if len(idxs) == 1:
        rel = "single"
    elif all(x == sets[0] for x in sets):
        rel = "one-atom-set-permuted"
    elif all(not (sets[i] & sets[j]) for i in range(len(sets)) for j in range(i)):
        rel = "disjoint-atom-sets"
    else:
        rel = "overlapping-atom-sets"
    out = [f"{pre}:mappings:{rel}"]
    if len(idxs) > 1 and len(results) >= len(idxs):
        rr = [r for _, r in results[:len(idxs)]]
        b = min(range(len(rr)), key=lambda i: rr[i])
        out.append(f"{pre}:best-mapping:" + ("first" if b == 0 else "last" if b == len(rr) - 1 else "middle")
                   + ("" if rel in ("single", "one-atom-set-permuted") else ":other-atom-set" if sets[b] != sets[-1] else ":same-set-as-last"))
    return out


class RefGeom:
    def __init__(self, coords):
        self.coords = coords


def run_align(ml, name, m0, idxs, ref, vec, repose=None):
    np = np_()
    m = ml.Molecule(m0)
    if repose is not None:
        Rp, tp = repose
        m.coords = np.asarray(m.coords, dtype=float) @ Rp + tp
    X0 = np.asarray(m.coords, dtype=float).copy()
    rec = Recorder()
    try:
        # the callee works on its own copies of the arguments; the judgment below uses the values the caller passed
        r = m.align_to_ref_coords(rec, [list(ix) for ix in idxs], RefGeom(np.array(ref, dtype=float)), None if vec is None else list(vec))
    except Exception as e:  # noqa
        return None, ("align:raises-" + type(e).__name__, f"{name}: align_to_ref_coords raised {e!r}"), {}, None
    X1 = np.asarray(m.coords, dtype=float).copy()
    viol = None
    sv = shape_violation(X0, X1, range(m.n_atoms), 41)
    if sv:
        viol = ("align:" + sv[0], f"{name}: align_to_ref_coords: {sv[1]}")
    else:
        pose = X1 - (np.array(vec) if vec is not None else 0.0)
        achieved = min(float(np.sqrt(((pose[ix] - ref) ** 2).sum() / len(ix))) for ix in idxs)
        if abs(achieved - float(r)) > ORACLE_EPS:
            viol = ("align:reported-rmsd-not-achieved", f"{name}: align_to_ref_coords(mappings {idxs}) returned {float(r):.9f} but the pose it leaves has RMSD {achieved:.9f} "
                    f"(least over the mappings{', after taking vec off' if vec is not None else ''})")
    resq = cq_list(f"({mq(M.tolist())}, {cq_Q(fr(rr))})" for M, rr in rec.results)
    term = (f"(CAlign {rowsq(X0.tolist())} {cq_list(natl(ix) for ix in idxs)} {cq_list(rowsq(P.tolist()) for P in rec.inputs)} "
            f"{resq} {cq_opt(vec, vq)} {rowsq(X1.tolist())} {cq_Q(fr(float(r)))})")
    return term, viol, ({"counts": mapping_counts(idxs, rec.results)} if repose is None else {}), float(r)


def run_ens_align(ml, ens0, idxs, ref, vec, repose=None):
    np = np_()
    ens = ml.ConformerEnsemble(ens0)
    ens.coords = np.asarray(ens0.coords, dtype=float).copy()
    if repose is not None:
        ens.coords = np.asarray(ens.coords, dtype=float) @ repose[0] + repose[1]
    E0 = np.asarray(ens.coords, dtype=float).copy()
    rec = Recorder()
    try:
        rs = ens.align_to_ref_coords(rec, [list(ix) for ix in idxs], RefGeom(np.array(ref, dtype=float)), None if vec is None else list(vec))
    except Exception as e:  # noqa
        return None, ("align:ensemble-raises-" + type(e).__name__, f"ConformerEnsemble.align_to_ref_coords raised {e!r}"), {}
    E1 = np.asarray(ens.coords, dtype=float).copy()
    viol = None
    for ci in range(E0.shape[0]):
        sv = shape_violation(E0[ci], E1[ci], range(E0.shape[1]), 51 + ci)
        if sv:
            viol = ("align:ensemble-" + sv[0], f"conformer {ci}: {sv[1]}")
            break
        pose = E1[ci] - (np.array(vec) if vec is not None else 0.0)
        achieved = min(float(np.sqrt(((pose[ix] - ref) ** 2).sum() / len(ix))) for ix in idxs)
        if abs(achieved - float(rs[ci])) > ORACLE_EPS:
            viol = ("align:ensemble-reported-rmsd-not-achieved", f"conformer {ci}: returned {float(rs[ci]):.9f}, pose left has RMSD {achieved:.9f}")
            break
    k = len(idxs)
    per_conf = [rec.results[i * k:(i + 1) * k] for i in range(E0.shape[0])]
    resq = cq_list(cq_list(f"({mq(M.tolist())}, {cq_Q(fr(rr))})" for M, rr in res) for res in per_conf)
    term = (f"(CEnsAlign {ensq(E0.tolist())} {natl(idxs[0])} {resq} {cq_opt(vec, vq)} {ensq(E1.tolist())} "
            f"{cq_list(cq_Q(fr(float(x))) for x in rs)})")
    if viol is None and repose is None:
        import random
        rr = random.Random(len(term))
        Rp = np.array([[float(e) for e in row] for row in quat_matrix(rr)])
        tp = np.array([rr.uniform(-5, 5) for _ in range(3)])
        ens2 = ml.ConformerEnsemble(ens0)
        ens2.coords = np.asarray(ens0.coords, dtype=float) @ Rp + tp
        try:
            rs2 = ens2.align_to_ref_coords(Recorder(), [list(ix) for ix in idxs], RefGeom(np.array(ref, dtype=float)), None if vec is None else list(vec))
            dev = max(abs(float(x) - float(y)) for x, y in zip(rs, rs2))
            if dev > ORACLE_EPS:
                viol = ("align:ensemble-pose-dependent", f"ConformerEnsemble.align_to_ref_coords(core {idxs[0]}) returned {[round(float(x), 6) for x in rs][:3]}..., "
                        f"but {[round(float(x), 6) for x in rs2][:3]}... after re-posing the same ensemble")
        except Exception as e:  # noqa
            viol = ("align:ensemble-raises-" + type(e).__name__, f"ConformerEnsemble.align_to_ref_coords raised {e!r} on a re-posed ensemble")
    return term, viol, {"counts": mapping_counts(idxs, rec.results, "ens-align")}


# ------------------------------------------------------------------ ensembles of every shape (array-shape coincidences)
# The ensemble array is (n_conformers, n_atoms, 3); per-conformer stacks are (n_conformers, 3) / (n_conformers, 3, 3).
# Whenever n_conformers equals n_atoms (or 3, or 1) or n_atoms equals 3 (or 1), axes can be confused without any
# shape error.  The bundled ensemble (7 x 17) never is in that region, so ensembles are synthesised for a grid of
# shapes and the bundled one is cut down / extended to 1, 3 and 17 conformers.
ENS_GRID_QUICK = [(1, 1), (1, 3), (1, 4), (2, 2), (2, 3), (2, 5), (3, 1), (3, 3), (3, 4), (3, 6), (4, 1), (4, 4),
                  (4, 6), (5, 3), (5, 5), (6, 4), (6, 6), (7, 7)]
ENS_PENTANE_QUICK = [1, 3, 17]
XKINDS = ["t1", "t2", "rot", "roteach", "cat", "core", "scale"]
XOPNAME = {"t1": "translate-global", "t2": "translate-per-conformer", "rot": "rotate", "roteach": "rotate-per-conformer",
           "cat": "center_at_atom", "core": "center_at_core", "scale": "scale"}
ELTS = ["C", "N", "O", "C", "F", "C", "S", "C"]
_ENSCACHE = {}


def shape_classes(nc, na):
    out = []
    if nc == na:
        out.append("nc==na")
    if nc == 3:
        out.append("nc==3")
    if na == 3:
        out.append("na==3")
    if nc == 1:
        out.append("nc==1")
    if na == 1:
        out.append("na==1")
    return out or ["generic"]


def ens_specs(ctx):
    specs = []
    grid = list(ENS_GRID_QUICK)
    pent = list(ENS_PENTANE_QUICK)
    if ctx.thorough:
        grid = sorted(set(grid) | {(a, b) for a in range(1, 9) for b in range(1, 9)} | {(10, 10), (12, 12), (13, 5), (5, 13)})
        pent = [1, 2, 3, 5, 7, 12, 17, 20]
    for nc, na in grid:
        specs.append({"src": "synth", "nc": nc, "na": na, "seed": ctx.rng.randrange(10 ** 6)})
    for k in pent:
        specs.append({"src": "pentane", "nc": k, "na": 17, "seed": ctx.rng.randrange(10 ** 6)})
    return specs


def fmat(M):
    return [[float(e) for e in row] for row in M]


def nontrivial_rot(rng):
    while True:
        M = fmat(quat_matrix(rng))
        if max(abs(M[i][j]) for i in range(3) for j in range(3) if i != j) > 0.05:
            return M


def synth_coords(nc, na, seed):
    """nc perturbed, re-posed copies of a zig-zag chain of na atoms, on the 2^-12 grid (exact dyadic rationals)."""
    import random
    np = np_()
    r = random.Random(f"c11-ens/{nc}/{na}/{seed}")
    base = np.array([[1.25 * i + r.uniform(-.3, .3), (0.7 if i % 2 else -0.7) + r.uniform(-.3, .3), r.uniform(-.8, .8)]
                     for i in range(na)])
    E = []
    for _ in range(nc):
        R = np.array(nontrivial_rot(r))
        X = (base + np.array([[r.uniform(-.12, .12) for _ in range(3)] for _ in range(na)])) @ R
        X = X + np.array([r.uniform(-4, 4) for _ in range(3)])
        E.append(np.round(X * 4096.0) / 4096.0)
    return np.array(E).reshape(nc, na, 3)


def synth_mol(ml, X, name):
    np = np_()
    na = len(X)
    xyz = f"{na}\n{name}\n" + "".join(f"{ELTS[i % len(ELTS)]} {float(x)!r} {float(y)!r} {float(z)!r}\n" for i, (x, y, z) in enumerate(X))
    m = ml.Molecule.loads_xyz(xyz)
    for i in range(na - 1):
        m.connect(i, i + 1)
    m.coords = np.asarray(X, dtype=float)
    return m


def build_ens(ml, spec):
    """The ensemble a spec stands for (cached; callers work on fresh copies)."""
    import random
    np = np_()
    key = json.dumps(spec, sort_keys=True)
    if key in _ENSCACHE:
        return _ENSCACHE[key]
    if spec["src"] == "synth":
        E = synth_coords(spec["nc"], spec["na"], spec["seed"])
        mols = [synth_mol(ml, E[c], f"chain{spec['na']}") for c in range(spec["nc"])]
    else:
        base = load_ens(ml)
        B = np.asarray(base.coords, dtype=float)
        r = random.Random(f"c11-pentane/{spec['nc']}/{spec['seed']}")
        mols = []
        for c in range(spec["nc"]):
            m = ml.Molecule(base[c % base.n_conformers])
            X = B[c % base.n_conformers]
            if c >= base.n_conformers:      # further conformers: re-posed copies of the bundled ones
                X = X @ np.array(nontrivial_rot(r)) + np.array([r.uniform(-3, 3) for _ in range(3)])
            m.coords = np.round(X * 4096.0) / 4096.0
            mols.append(m)
    ens = ml.ConformerEnsemble(mols)
    _ENSCACHE[key] = ens
    return ens


def spec_tag(spec, ens):
    return f"{spec['src']} ensemble, n_conformers={ens.n_conformers}, n_atoms={ens.n_atoms} [{','.join(shape_classes(ens.n_conformers, ens.n_atoms))}]"


def fresh_ens(ml, ens0):
    np = np_()
    ens = ml.ConformerEnsemble(ens0)
    ens.coords = np.asarray(ens0.coords, dtype=float).copy()
    return ens


def pick_core(rng, nc, na, lo=1):
    """Core indices; sizes that coincide with n_conformers, 3 or n_atoms are preferred."""
    top = min(na, 6)
    lo = min(lo, top)
    cand = sorted({s for s in (nc, 3, na, 1) if lo <= s <= top})
    s = rng.choice(cand) if cand and rng.random() < 0.6 else rng.randint(lo, top)
    return rng.sample(range(na), s)


def gen_xop(rng, kind, nc, na):
    def q():
        return float(Fr(rng.randint(-2048, 2048), 128))
    if kind == "t1":
        return ["t1", [q(), q(), q()]]
    if kind == "t2":
        return ["t2", [[q(), q(), q()] for _ in range(nc)]]
    if kind == "rot":
        return ["rot", nontrivial_rot(rng)]
    if kind == "roteach":
        return ["roteach", [nontrivial_rot(rng) for _ in range(nc)]]
    if kind == "cat":
        return ["cat", rng.randrange(na)]
    if kind == "core":
        return ["core", pick_core(rng, nc, na)]
    return ["scale", rng.choice([0.5, 2.0, 1.5, 0.75, 1.25])]


def judge_xop(kind, arg, A, B, tag):
    """One ensemble operation took coordinates A to B: None, or (signature, text).  Every conformer is judged on its
    own (distances, handedness), then against the documented motion computed conformer by conformer."""
    np = np_()
    nc, na = A.shape[:2]
    name = XOPNAME[kind]
    scale = 1.0 + float(np.abs(A).max())
    if B.shape != A.shape:
        return f"ensemble:{name}:shape-changed", f"{tag}: {name} changed the coordinate array from {A.shape} to {B.shape}"
    if not np.isfinite(B).all():
        return f"ensemble:{name}:not-finite", f"{tag}: {name} left non-finite coordinates"
    want = np.empty_like(A)
    for c in range(nc):
        if kind == "t1":
            want[c] = A[c] + np.array(arg)
        elif kind == "t2":
            want[c] = A[c] + np.array(arg[c])
        elif kind == "rot":
            want[c] = A[c] @ np.array(arg)
        elif kind == "roteach":
            want[c] = A[c] @ np.array(arg[c])
        elif kind == "cat":
            want[c] = A[c] - A[c][arg]
        elif kind == "core":
            want[c] = A[c] - A[c][arg].mean(axis=0)
        else:
            want[c] = A[c] * float(arg)
    if kind == "scale":
        f = float(arg)
        for c in range(nc):
            d0, d1 = dist_matrix(A[c]), dist_matrix(B[c])
            if np.abs(d1 - abs(f) * d0).max() > ORACLE_EPS * scale * max(1.0, abs(f)):
                i, j = np.unravel_index(np.abs(d1 - abs(f) * d0).argmax(), d0.shape)
                return (f"ensemble:scale:not-uniform", f"{tag}: conformer {c} after scale({f}): distance between atoms {i} and {j} "
                        f"went from {d0[i, j]:.9f} to {d1[i, j]:.9f}")
    else:
        for c in range(nc):
            X0, X1 = A[c], B[c]
            if kind in ("rot", "roteach"):        # a rotation about the origin: the origin is one more point of the rigid body
                X0, X1 = np.vstack([X0, np.zeros((1, 3))]), np.vstack([X1, np.zeros((1, 3))])
            sv = shape_violation(X0, X1, range(len(X0)), 31 + c)
            if sv:
                return (f"ensemble:{name}:{sv[0]}", f"{tag}: conformer {c} after {name}"
                        f"{' (row ' + str(na) + ' = the origin)' if len(X0) > na else ''}: {sv[1]}")
    if kind == "cat" and np.abs(B[:, arg]).max() > ORACLE_EPS * scale:
        return "ensemble:center_at_atom-not-at-origin", f"{tag}: center_at_atom({arg}) leaves that atom at {B[:, arg].tolist()[:2]}"
    if kind == "core" and np.abs(B[:, arg].mean(axis=1)).max() > ORACLE_EPS * scale:
        return "ensemble:center_at_core-not-at-origin", f"{tag}: center_at_core({arg}) leaves the core centroid at {B[:, arg].mean(axis=1).tolist()[:2]}"
    dev = np.abs(B - want).max(axis=(1, 2))
    if dev.max() > ORACLE_EPS * scale * 4:
        c = int(dev.argmax())
        return (f"ensemble:{name}:wrong-result", f"{tag}: conformer {c} after {name} is {dev[c]:.6f} away from where that motion puts it "
                f"(every conformer kept its shape)")
    return None


def xopq(kind, arg):
    if kind == "t1":
        return f"(XT1 {vq(arg)})"
    if kind == "t2":
        return f"(XT2 {rowsq(arg)})"
    if kind == "rot":
        return f"(XRot {mq(arg)})"
    if kind == "roteach":
        return f"(XRotEach {cq_list(mq(M) for M in arg)})"
    if kind == "cat":
        return f"(XCat {cq_nat(arg)})"
    if kind == "core":
        return f"(XCore {natl(arg)})"
    return f"(XScale {cq_Q(fr(arg))})"


def shape_counts(ens, ops):
    return (["ens-shape:" + c for c in shape_classes(ens.n_conformers, ens.n_atoms)] + ["ens-op:" + XOPNAME[k] for k in ops if k in XOPNAME]
            + ["ens-op:" + k for k in ops if k not in XOPNAME])


def run_ensx(ml, spec, ops):
    """A sequence of ensemble operations on an ensemble of a given shape, judged after every operation."""
    np = np_()
    ens0 = build_ens(ml, spec)
    ens = fresh_ens(ml, ens0)
    tag = spec_tag(spec, ens)
    info = {"counts": shape_counts(ens, [k for k, _ in ops])}
    cur = np.asarray(ens.coords, dtype=float).copy()
    E0 = cur.copy()
    viol = None
    for kind, arg in ops:
        try:
            if kind == "t1":
                ens.translate(list(arg))
            elif kind == "t2":
                ens.translate(np.array(arg))
            elif kind in ("rot", "roteach"):
                ens.rotate(np.array(arg))
            elif kind == "cat":
                ens.center_at_atom(ens.atoms[arg])
            elif kind == "core":
                ens.center_at_core(list(arg))
            else:
                ens.scale(float(arg))
        except Exception as e:  # noqa
            if kind == "roteach" and viol is None:
                # rotate() with a stack is what align_to_ref_coords relies on today; a rotate() that rejects stacks is
                # judged through the alignment cases, not here
                return None, None, dict(info, counts=info["counts"] + ["ens-op:rotate-stack-rejected"])
            return None, viol or (f"ensemble:{XOPNAME[kind]}:raises-{type(e).__name__}", f"{tag}: {XOPNAME[kind]} raised {e!r}"), info
        new = np.asarray(ens.coords, dtype=float).copy()
        if viol is None:
            viol = judge_xop(kind, arg, cur, new, tag)
        if new.shape != cur.shape:
            return None, viol, info
        cur = new
    term = f"(XEns {ensq(E0.tolist())} {cq_list(xopq(k, a) for k, a in ops)} {ensq(cur.tolist())})"
    return term, viol, info


def ensx_align_setup(rng, E0, nmap):
    np = np_()
    nc, na = E0.shape[:2]
    core = pick_core(rng, nc, na)
    idxs, _ = site_mappings(rng, na, len(core), nmap, rng.choice(MAP_MODES))
    R = np.array(nontrivial_rot(rng))
    ref, _ = site_reference(rng, E0[0], idxs, R)
    vec = None if rng.random() < 0.5 else [float(Fr(rng.randint(-512, 512), 64)) for _ in range(3)]
    return idxs, ref, vec


def run_ensx_align(ml, spec, idxs, ref, vec):
    """ConformerEnsemble.align_to_ref_coords on an ensemble of a given shape: every conformer moved rigidly, the k-th
    value returned is the RMSD conformer k is left with, and re-posing the ensemble does not change the values."""
    np = np_()
    ens0 = build_ens(ml, spec)
    ens = fresh_ens(ml, ens0)
    tag = spec_tag(spec, ens)
    info = {"counts": shape_counts(ens, ["align"]) + [f"ens-align:mappings={len(idxs)}", "ens-align:vec=" + ("yes" if vec is not None else "no")]}
    E0 = np.asarray(ens.coords, dtype=float).copy()
    nc, na = E0.shape[:2]
    rec = Recorder()
    try:
        rs = ens.align_to_ref_coords(rec, [list(ix) for ix in idxs], RefGeom(np.array(ref, dtype=float)), None if vec is None else list(vec))
        rs = [float(x) for x in rs]
    except Exception as e:  # noqa
        return None, ("align:ensemble-raises-" + type(e).__name__, f"{tag}: ConformerEnsemble.align_to_ref_coords raised {e!r}"), info
    E1 = np.asarray(ens.coords, dtype=float).copy()
    viol = None
    if E1.shape != E0.shape or len(rs) != nc:
        return None, ("align:ensemble-shape-changed", f"{tag}: coordinates {E0.shape} -> {E1.shape}, {len(rs)} values returned"), info
    for ci in range(nc):
        sv = shape_violation(E0[ci], E1[ci], range(na), 51 + ci)
        if sv:
            viol = ("align:ensemble-" + sv[0], f"{tag}: conformer {ci}: {sv[1]}")
            break
        pose = E1[ci] - (np.array(vec) if vec is not None else 0.0)
        achieved = min(float(np.sqrt(((pose[ix] - ref) ** 2).sum() / len(ix))) for ix in idxs)
        if abs(achieved - rs[ci]) > ORACLE_EPS:
            viol = ("align:ensemble-reported-rmsd-not-achieved", f"{tag}: mappings {idxs}: conformer {ci}: returned {rs[ci]:.9f}, pose left has RMSD {achieved:.9f}")
            break
    k = len(idxs)
    info["counts"] += mapping_counts(idxs, rec.results, "ens-align")
    if len(rec.results) != nc * k:
        return None, viol, dict(info, skipped="callback not called once per conformer and mapping")
    inq = cq_list(cq_list(rowsq(P.tolist()) for P in rec.inputs[i * k:(i + 1) * k]) for i in range(nc))
    resq = cq_list(cq_list(f"({mq(M.tolist())}, {cq_Q(fr(rr))})" for M, rr in rec.results[i * k:(i + 1) * k]) for i in range(nc))
    term = (f"(XEnsAlign {ensq(E0.tolist())} {cq_list(natl(ix) for ix in idxs)} {inq} {resq} {cq_opt(vec, vq)} {ensq(E1.tolist())} "
            f"{cq_list(cq_Q(fr(x)) for x in rs)})")
    if viol is None:
        import random
        rr = random.Random(len(term))
        Rp = np.array(nontrivial_rot(rr))
        tp = np.array([rr.uniform(-5, 5) for _ in range(3)])
        ens2 = fresh_ens(ml, ens0)
        ens2.coords = np.asarray(ens0.coords, dtype=float) @ Rp + tp
        try:
            rs2 = [float(x) for x in ens2.align_to_ref_coords(Recorder(), [list(ix) for ix in idxs], RefGeom(np.array(ref, dtype=float)), None if vec is None else list(vec))]
            dev = max(abs(x - y) for x, y in zip(rs, rs2)) if len(rs2) == len(rs) else float("inf")
            if dev > ORACLE_EPS:
                viol = ("align:ensemble-pose-dependent", f"{tag}: align_to_ref_coords(core {idxs[0]}) returned {[round(x, 6) for x in rs][:3]}..., "
                        f"but {[round(x, 6) for x in rs2][:3]}... after re-posing the same ensemble")
        except Exception as e:  # noqa
            viol = ("align:ensemble-raises-" + type(e).__name__, f"{tag}: align_to_ref_coords raised {e!r} on a re-posed ensemble")
    return term, viol, info


def ensx_cases(ctx, specs=None, kinds=None, rng=None):
    """(kind, key, replay_dict, thunk) for the ensemble-shape family."""
    import molli as ml
    np = np_()
    rng = rng or ctx.rng
    for spec in (specs if specs is not None else ens_specs(ctx)):
        ens0 = build_ens(ml, spec)
        nc, na = ens0.n_conformers, ens0.n_atoms
        cls = shape_classes(nc, na)[0]
        plans = []
        for rep_ in range(1 if not ctx.thorough else 3):
            for kind in (kinds or XKINDS):
                if kind in XKINDS:
                    plans.append([gen_xop(rng, kind, nc, na)])
            if kinds is None:
                plans.append([gen_xop(rng, rng.choice(XKINDS), nc, na) for _ in range(rng.randint(3, 5))])
        for ops in plans:
            rd = {"kind": "ensx", "spec": spec, "ops": ops}
            yield "ensemble:" + cls, ("ensx", json.dumps(spec, sort_keys=True), json.dumps(ops)), rd, \
                (lambda spec=spec, ops=ops: run_ensx(ml, spec, [tuple(o) for o in ops]))
        if kinds is None or "align" in kinds:
            E0 = np.asarray(ens0.coords, dtype=float)
            for nmap in ((1, 3) if not ctx.thorough else (1, 2, 3, 1, 2, 3)):
                idxs, ref, vec = ensx_align_setup(rng, E0, nmap)
                rd = {"kind": "ensxalign", "spec": spec, "idxs": idxs, "ref": ref.tolist(), "vec": vec}
                yield "align:ensemble:" + cls, ("ensxalign", json.dumps(spec, sort_keys=True), json.dumps(idxs), json.dumps(ref.tolist())), rd, \
                    (lambda spec=spec, idxs=idxs, ref=ref, vec=vec: run_ensx_align(ml, spec, idxs, ref, vec))


def find_mol(ml, name):
    """Bundled molecule, conformer c of a synthetic ensemble ('synth:nc:na:seed#c'), or a random tree ('tree:n:seed')."""
    if name.startswith("synth:"):
        body, c = name[6:].split("#")
        nc, na, seed = (int(x) for x in body.split(":"))
        return ml.Molecule(build_ens(ml, {"src": "synth", "nc": nc, "na": na, "seed": seed})[int(c)])
    if name.startswith("tree:"):
        n, seed = (int(x) for x in name[5:].split(":"))
        if name not in _MOLCACHE:
            _MOLCACHE[name] = tree_mol(ml, n, seed)
        return _MOLCACHE[name]
    return dict(load_mols(ml)).get(name)


# ------------------------------------------------------------------ SEQUENCES of operations on ONE live object
# Every other family works on a fresh copy per call.  Here one object lives through a whole session: the same dihedral
# driven from both ends (a,b,c,d) / (d,c,b,a), several dihedrals in a row, whole-body and substructure moves between
# dihedral calls, and connectivity edits (connect, del_bond, add_atom, del_atom) between two calls on the same bond.
# Every step is judged on its own against the state the previous step left (target reached, exactly the far side of
# the bond AS THE GRAPH IS NOW moved, rigidly), and the Coq model (Model/RotSeq.v: `sstep`, far side recomputed from
# the model's own graph at every step) is applied to that same state and compared with what the step left.
SEQ_MOLS_QUICK = ["dmf_mol2#0", "pentane_confs_mol2#0", "hadd_test_mol2#0"]
SEQ_MOLS = SEQ_MOLS_QUICK + ["fxyl_mol2#0", "pentane_confs_mol2#3", "isornitrate_mol2#0", "box_backbone_mol2#0"]
SEQ_HOSTS = ["molecule", "molecule", "molecule", "molecule", "conformer-live", "conformer-fresh", "conformer-iterated"]
SEQ_TARGETS = [(0, 1), (1, 0), (1, 1), (-1, 2), (3, 2), (-5, 1), (2, 7), (-2, 3), (7, 3), (1, 5), (-4, 5)]
SEQ_HEADER = HEADER.replace("Model.Rot.", "Model.Rot Model.RotSeq.")


def tree_mol(ml, n, seed):
    """A random tree of n atoms (degree <= 4) with generic coordinates on the 2^-12 grid."""
    import random
    np = np_()
    r = random.Random(f"c11-tree/{n}/{seed}")
    X, par, deg = [np.zeros(3)], [None], [0]
    while len(X) < n:
        p = r.randrange(len(X))
        if deg[p] >= (3 if p else 4):
            continue
        for _ in range(200):
            v = np.array([r.gauss(0, 1) for _ in range(3)])
            x = np.round((X[p] + 1.5 * v / np.linalg.norm(v)) * 4096.0) / 4096.0
            if min(np.linalg.norm(x - y) for y in X) > 1.0:
                break
        else:
            continue
        X.append(x)
        par.append(p)
        deg[p] += 1
        deg.append(0)
    xyz = f"{n}\ntree{n}\n" + "".join(f"{ELTS[i % len(ELTS)]} {float(a)!r} {float(b)!r} {float(c)!r}\n" for i, (a, b, c) in enumerate(X))
    m = ml.Molecule.loads_xyz(xyz)
    for i in range(1, n):
        m.connect(par[i], i)
    m.coords = np.array(X, dtype=float)
    return m


class PlanGraph:
    """The planner's own bookkeeping of the connectivity during a session (positions shift on del_atom; `ids` keeps a
    persistent name per atom so that 'the same bond as before' survives renumbering)."""

    def __init__(self, n, edges):
        self.n = n
        self.E = {frozenset(e) for e in edges}
        self.ids = list(range(n))
        self.next_id = n

    def adj(self):
        a = {i: set() for i in range(self.n)}
        for e in self.E:
            i, j = tuple(e)
            a[i].add(j)
            a[j].add(i)
        return a

    def quads(self, rng):
        """one (i1,i2,i3,i4) per direction of every rotatable acyclic bond"""
        a = self.adj()
        out = []
        for i2 in range(self.n):
            for i3 in sorted(a[i2]):
                if i2 in far_side(a, i2, i3):
                    continue
                n1, n4 = sorted(a[i2] - {i3}), sorted(a[i3] - {i2})
                if n1 and n4:
                    out.append((rng.choice(n1), i2, i3, rng.choice(n4)))
        return out

    def connect(self, i, j):
        self.E.add(frozenset((i, j)))

    def del_bond(self, i, j):
        self.E.discard(frozenset((i, j)))

    def add_atom(self):
        self.n += 1
        self.ids.append(self.next_id)
        self.next_id += 1
        return self.n - 1

    def del_atom(self, i):
        ren = lambda k: k - 1 if k > i else k
        self.E = {frozenset(ren(k) for k in e) for e in self.E if i not in e}
        self.n -= 1
        del self.ids[i]


def gen_seq(rng, n, edges, host, theme, length):
    """A session plan: list of ops with POSITIONAL indices valid at the time of the step.
         ["rd", [i1,i2,i3,i4], p, q]         rotate_dihedral to the angle with tan(t/2) = p/q
         ["t", idx|None, v]  ["r", idx|None, M]   translate / transform, whole object or substructure(idx)
         ["connect", i, j]  ["delbond", i, j]  ["add", j, d]  (new atom at x_j + d)  ["del", i]"""
    g = PlanGraph(n, edges)
    edits_ok = host == "molecule"
    ops = []
    focus = None               # (id2, id3) of the bond last driven, by persistent ids
    n_rd = 0

    def pos(idv):
        return g.ids.index(idv) if idv in g.ids else None

    def q():
        return float(Fr(rng.randint(-1024, 1024), 256))

    def pick_rd():
        nonlocal focus, n_rd
        quads = g.quads(rng)
        if not quads:
            return False
        cand = None
        if focus is not None and rng.random() < (0.8 if theme in ("both-ends", "edits-between", "moves-between") else 0.45):
            p2, p3 = pos(focus[0]), pos(focus[1])
            same = [x for x in quads if (x[1], x[2]) == (p2, p3)]
            other = [x for x in quads if (x[1], x[2]) == (p3, p2)]
            pool = other if (other and rng.random() < (0.7 if theme == "both-ends" else 0.5)) else same
            if pool:
                cand = rng.choice(pool)
        if cand is None:
            cand = rng.choice(quads)
        focus = (g.ids[cand[1]], g.ids[cand[2]])
        p, qq = rng.choice(SEQ_TARGETS)
        ops.append(["rd", list(cand), p, qq])
        n_rd += 1
        return True

    def pick_move():
        whole = rng.random() < 0.5
        idx = None if whole else rng.sample(range(g.n), rng.randint(1, max(1, g.n - 1)))
        if rng.random() < 0.5:
            ops.append(["t", idx, [q(), q(), q()]])
        else:
            ops.append(["r", idx, nontrivial_rot(rng)])

    def pick_edit():
        a = g.adj()
        r = rng.random()
        side = None
        if focus is not None and pos(focus[0]) is not None and pos(focus[1]) is not None and frozenset((pos(focus[0]), pos(focus[1]))) in g.E:
            side = sorted(far_side(a, pos(focus[0]), pos(focus[1])))
        if r < 0.3:                                       # a new atom, bonded behind the bond in focus (either side) or left alone
            anchor = rng.choice(side) if side and rng.random() < 0.6 else rng.randrange(g.n)
            d = [float(Fr(rng.choice((-1, 1)) * rng.randint(200, 400), 256)) for _ in range(3)]
            ops.append(["add", anchor, d])
            k = g.add_atom()
            if rng.random() < 0.85:
                ops.append(["connect", k, anchor])
                g.connect(k, anchor)
        elif r < 0.5 and g.n > 5:                         # delete an atom: mostly leaves, mostly behind the bond in focus
            leaves = [i for i in range(g.n) if len(a[i]) <= 1]
            pool = [i for i in leaves if side and i in side and len(side) > 1] or leaves
            i = rng.choice(pool) if pool and rng.random() < 0.8 else rng.randrange(g.n)
            ops.append(["del", i])
            g.del_atom(i)
        elif r < 0.7 and g.E:                             # re-wire: cut a substituent off and bond it somewhere else
            fp = {pos(focus[0]), pos(focus[1])} if focus is not None else set()
            cand = []
            for e in sorted(tuple(sorted(e)) for e in g.E):
                for x, y in (e, e[::-1]):
                    frag = far_side(a, x, y)
                    if x not in frag and not (frag & fp) and len(frag) <= max(1, g.n // 3):
                        cand.append((x, y, frag))
            if not cand:
                return
            x, y, frag = rng.choice(cand)
            zs = [z for z in range(g.n) if z not in frag and z != x]
            if not zs:
                return
            z = rng.choice(zs)
            ops.append(["delbond", x, y])
            g.del_bond(x, y)
            ops.append(["connect", y, z])
            g.connect(y, z)
        elif r < 0.85 and g.E:                            # delete a bond: leaf bonds and ring closures preferred
            es = sorted(tuple(sorted(e)) for e in g.E)
            pref = [e for e in es if len(a[e[0]]) == 1 or len(a[e[1]]) == 1 or e[0] in far_side(a, e[0], e[1])]
            i, j = rng.choice(pref if pref and rng.random() < 0.8 else es)
            if rng.random() < 0.5:
                i, j = j, i
            ops.append(["delbond", i, j])
            g.del_bond(i, j)
        else:                                             # a new bond: re-attach a detached atom, or close a ring
            pairs = [(i, j) for i in range(g.n) for j in range(i + 1, g.n) if j not in a[i]]
            if not pairs:
                return
            detached = [(i, j) for i, j in pairs if not a[i] or not a[j]]
            i, j = rng.choice(detached if detached and rng.random() < 0.7 else pairs)
            if rng.random() < 0.5:
                i, j = j, i
            ops.append(["connect", i, j])
            g.connect(i, j)

    pick_rd()
    while len(ops) < length:
        r = rng.random()
        if theme == "several" or r < 0.25:
            pass
        elif theme == "moves-between" or (r < 0.55 and theme != "edits-between") or not edits_ok:
            pick_move()
        else:
            pick_edit()
        if not pick_rd():
            pick_move()
    return ops


def sweep_seq(rng, n, edges):
    """every rotatable acyclic bond of the molecule, driven from one end and then from the other, on one object"""
    g = PlanGraph(n, edges)
    ops = []
    quads = g.quads(rng)
    seen = set()
    for qd in quads:
        if (qd[2], qd[1]) in seen:
            continue
        seen.add((qd[1], qd[2]))
        back = next((x for x in quads if (x[1], x[2]) == (qd[2], qd[1])), None)
        ops.append(["rd", list(qd), *rng.choice(SEQ_TARGETS)])
        if back is not None:
            ops.append(["rd", list(back), *rng.choice(SEQ_TARGETS)])
    return ops


def seq_graph(m):
    return sorted(tuple(sorted((m.get_atom_index(b.a1), m.get_atom_index(b.a2)))) for b in m.bonds)


def graphq(edges):
    return cq_list(f"({cq_nat(i)}, {cq_nat(j)})" for i, j in edges)


def run_seq(ml, plan):
    """One session on one live object.  Returns (term|None, violation|None, info)."""
    np = np_()
    name, host, desig = plan["mol"], plan["host"], plan.get("desig", "index")
    m0 = find_mol(ml, name)
    if m0 is None:
        return None, None, {"skipped": "no such molecule"}
    ens = None
    if host == "molecule":
        obj = ml.Molecule(m0)
    else:
        import random
        r = random.Random("c11-seq-ens/" + name)
        mols = []
        for c in range(3):
            mc = ml.Molecule(m0)
            if c != 1:
                mc.coords = np.round((np.asarray(m0.coords, dtype=float) @ np.array(nontrivial_rot(r)) + np.array([r.uniform(-3, 3) for _ in range(3)])) * 4096.0) / 4096.0
            mols.append(mc)
        ens = ml.ConformerEnsemble(mols)
        obj = [cf for cf in ens][1] if host == "conformer-iterated" else ens[1]     # a handle kept from a finished loop
    counts = [f"seq-host:{host}", f"seq-designators:{desig}"]
    info = {"counts": counts}
    G0 = seq_graph(obj)
    X_start = np.asarray(obj.coords, dtype=float).copy()
    steps = []
    viol = None
    driven = {}                 # bond (by Atom objects, frozenset) -> set of directions (id(a2), id(a3)) driven so far
    edited_since = {}           # bond -> connectivity edited since it was last driven
    moved_since = {}
    executed = 0
    for k, op in enumerate(plan["ops"]):
        if host == "conformer-fresh":
            obj = ens[1]
        kind = op[0]
        use_atoms = desig == "atom" or (desig == "mixed" and k % 2 == 1)
        atoms_now = list(obj.atoms)
        des = (lambda i: atoms_now[i]) if use_atoms else (lambda i: int(i))
        X0 = np.asarray(obj.coords, dtype=float).copy()
        E_before = None if ens is None else np.asarray(ens.coords, dtype=float).copy()
        n = X0.shape[0]
        lbl = f"{name} [{host}], step {k} of the session ({kind})"
        scale = 1.0 + float(np.abs(X0).max())
        try:
            if kind == "rd":
                quad, p, qq = tuple(op[1]), op[2], op[3]
                if max(quad) >= n:
                    info["skipped_from"] = k
                    break
                i1, i2, i3, i4 = quad
                adj = adjacency(obj)
                if i3 not in adj[i2] or i1 not in adj[i2] or i4 not in adj[i3]:
                    counts.append("seq:graph-differs-from-plan")
                    break
                side = far_side(adj, i2, i3)
                if i2 in side or i1 in side:
                    counts.append("seq:graph-differs-from-plan")
                    break
                u2 = [fr(X0[i3][c]) - fr(X0[i2][c]) for c in range(3)]
                n2 = qsqrt(fdot(u2, u2))
                g1, g2 = exact_dihedral_args(X0, quad, n2)
                if g1 * g1 + g2 * g2 < Fr(1, 10 ** 6):
                    counts.append("seq:rd-degenerate-skipped")
                    continue
                rho = qsqrt(g1 * g1 + g2 * g2)
                st, ct = (Fr(0), Fr(-1)) if qq == 0 else rat_sincos(p, qq)
                target = math.atan2(float(st), float(ct))
                bkey = frozenset((id(atoms_now[i2]), id(atoms_now[i3])))
                dirn = (id(atoms_now[i2]), id(atoms_now[i3]))
                hist = driven.get(bkey)
                if hist is None:
                    counts.append("seq:rd:bond-first-time")
                else:
                    counts.append("seq:rd:same-bond-" + ("same-end" if dirn in hist else "other-end"))
                    if edited_since.get(bkey):
                        counts.append("seq:rd:same-bond-after-connectivity-edit")
                    if moved_since.get(bkey):
                        counts.append("seq:rd:same-bond-after-move")
                how = ("first call on this bond" if hist is None else
                       "bond driven before from " + ("the same end" if dirn in hist else "the OTHER end")
                       + (", connectivity edited since" if edited_since.get(bkey) else ""))
                obj.rotate_dihedral(tuple(des(i) for i in quad), target)
                X1 = np.asarray(obj.coords, dtype=float).copy()
                driven.setdefault(bkey, set()).add(dirn)
                edited_since[bkey] = False
                moved_since[bkey] = False
                for b in driven:
                    if b != bkey:
                        moved_since[b] = True
                term_op = (f"(SRotDih {cq_nat(i1)} {cq_nat(i2)} {cq_nat(i3)} {cq_nat(i4)} {cq_Q(st)} {cq_Q(ct)} {cq_Q(n2)} {cq_Q(rho)})")
                if X1.shape != X0.shape:
                    viol = ("sequence:rotate_dihedral:shape-changed", f"{lbl}: coordinates {X0.shape} -> {X1.shape}")
                else:
                    d1 = float(obj.dihedral(*quad))
                    others = [i for i in range(n) if i not in side]
                    moved_outside = [i for i in others if np.abs(X1[i] - X0[i]).max() > ORACLE_EPS]
                    if moved_outside:
                        viol = ("sequence:rotate_dihedral:other-atoms-moved",
                                f"{lbl}: rotate_dihedral({quad}) ({how}) moved atoms {moved_outside[:6]}, which are not behind the bond {i2}->{i3} in the molecule as it is now")
                    elif ang_diff(d1, target) > ORACLE_EPS:
                        viol = ("sequence:rotate_dihedral:target-missed",
                                f"{lbl}: rotate_dihedral({quad}, {target:.6f}) ({how}) leaves the dihedral at {d1:.6f}")
                    else:
                        sv = shape_violation(X0, X1, sorted(side), 81)
                        if sv:
                            viol = ("sequence:rotate_dihedral:" + sv[0], f"{lbl}: rotate_dihedral({quad}) ({how}), within the part behind the bond as it is now: {sv[1]}")
            elif kind in ("t", "r"):
                idx, arg = op[1], op[2]
                if idx is not None and max(idx) >= n:
                    break
                tgt = obj if idx is None else obj.substructure([des(i) for i in idx])
                if kind == "t":
                    tgt.translate(list(arg))
                else:
                    tgt.transform(np.array(arg))
                X1 = np.asarray(obj.coords, dtype=float).copy()
                for b in driven:
                    moved_since[b] = True
                counts.append("seq:move:" + ("whole" if idx is None else "substructure"))
                sel = list(range(n)) if idx is None else sorted(set(idx))
                rest = [i for i in range(n) if i not in set(sel)]
                idxq = "None" if idx is None else f"(Some {natl(idx)})"
                term_op = f"(STranslate {idxq} {vq(arg)})" if kind == "t" else f"(STransform {idxq} {mq(arg)})"
                opname = "translate" if kind == "t" else "transform"
                if X1.shape != X0.shape:
                    viol = (f"sequence:{opname}:shape-changed", f"{lbl}: coordinates {X0.shape} -> {X1.shape}")
                else:
                    want = X0.copy()
                    want[sel] = (X0[sel] + np.array(arg)) if kind == "t" else (X0[sel] @ np.array(arg))
                    if rest and np.abs(X1[rest] - X0[rest]).max() > 0:
                        bad = [i for i in rest if np.abs(X1[i] - X0[i]).max() > 0]
                        viol = (f"sequence:{opname}:other-atoms-moved", f"{lbl}: {opname} through substructure {sel[:8]} changed atoms {bad[:6]}")
                    else:
                        sv = shape_violation(X0, X1, sel, 82)
                        if sv:
                            viol = (f"sequence:{opname}:" + sv[0], f"{lbl}: {sv[1]}")
                        elif np.abs(X1 - want).max() > ORACLE_EPS * scale:
                            viol = (f"sequence:{opname}:wrong-result", f"{lbl}: the selected atoms kept their shape but are {np.abs(X1 - want).max():.6f} away from where that motion puts them")
            else:
                if host != "molecule":
                    continue
                if kind == "connect":
                    i, j = op[1], op[2]
                    if max(i, j) >= n:
                        break
                    obj.connect(des(i), des(j))
                    term_op = f"(SConnect {cq_nat(i)} {cq_nat(j)})"
                elif kind == "delbond":
                    i, j = op[1], op[2]
                    if max(i, j) >= n:
                        break
                    b = obj.lookup_bond(des(i), des(j))
                    if b is None:
                        counts.append("seq:graph-differs-from-plan")
                        break
                    obj.del_bond(b)
                    term_op = f"(SDelBond {cq_nat(i)} {cq_nat(j)})"
                elif kind == "add":
                    j, d = op[1], op[2]
                    if j >= n:
                        break
                    pnew = [float(X0[j][c] + d[c]) for c in range(3)]
                    obj.add_atom(ml.Atom("H"), pnew)
                    term_op = f"(SAddAtom {vq(pnew)})"
                else:
                    i = op[1]
                    if i >= n:
                        break
                    obj.del_atom(des(i))
                    term_op = f"(SDelAtom {cq_nat(i)})"
                counts.append("seq:edit:" + kind)
                for b in driven:
                    edited_since[b] = True
                X1 = np.asarray(obj.coords, dtype=float).copy()
                if X1.shape[0] != obj.n_atoms:
                    info["skipped"] = "connectivity edit left atoms and coordinates misaligned (C05)"
                    break
        except Exception as e:  # noqa
            opname = {"rd": "rotate_dihedral", "t": "translate", "r": "transform"}.get(kind, kind)
            viol = (f"sequence:{opname}:raises-{type(e).__name__}", f"{lbl}: {opname} raised {e!r} after {executed} earlier operations on this object")
            break
        if viol is None and ens is not None:
            E_after = np.asarray(ens.coords, dtype=float)
            oth = [c for c in range(E_after.shape[0]) if c != 1]
            if E_after.shape != E_before.shape or np.abs(E_after[oth] - E_before[oth]).max() > 0:
                viol = ("sequence:other-conformer-moved", f"{lbl}: an operation on conformer 1 changed another conformer of the ensemble")
        executed += 1
        steps.append(f"({term_op}, {rowsq(X1.tolist())})")
        if viol:
            break
    info["n_steps"] = executed
    if not steps:
        return None, viol, info
    term = f"(SCase {rowsq(X_start.tolist())} {graphq(G0)} {cq_list(steps)})"
    return term, viol, info


def seq_cases(ctx, rng=None):
    """(kind, key, replay_dict, thunk) of the session family."""
    import molli as ml
    rng = rng or ctx.rng
    themes = ["both-ends", "edits-between", "moves-between", "edits-between", "random", "several", "edits-between", "random"]
    names = (list(SEQ_MOLS if ctx.thorough else SEQ_MOLS_QUICK)
             + [f"tree:{n}:{rng.randrange(10 ** 6)}" for n in ((6, 8, 9, 11, 12) if not ctx.thorough else (6, 7, 8, 9, 10, 11, 12, 13, 14, 16, 18, 20))])
    plans = []
    for name in names[:2] if not ctx.thorough else names:
        m = find_mol(ml, name)
        if m is not None:
            plans.append({"kind": "seq", "mol": name, "host": "molecule", "desig": "index", "theme": "sweep", "ops": sweep_seq(rng, m.n_atoms, seq_graph(m))})
    nses = 24 if not ctx.thorough else 240
    for s in range(nses):
        name = names[s % len(names)]
        m = find_mol(ml, name)
        if m is None:
            continue
        host = SEQ_HOSTS[(s // len(names) + s) % len(SEQ_HOSTS)]
        theme = themes[s % len(themes)]
        if host != "molecule" and theme == "edits-between":
            theme = "both-ends"
        ops = gen_seq(rng, m.n_atoms, seq_graph(m), host, theme, (rng.randint(4, 7) + (2 if theme == "edits-between" else 0)) if not ctx.thorough else rng.randint(5, 11))
        plans.append({"kind": "seq", "mol": name, "host": host, "desig": rng.choice(["index", "atom", "mixed"]), "theme": theme, "ops": ops})
    for plan in plans:
        yield "sequence:" + plan["theme"], ("seq", plan["mol"], plan["host"], plan["desig"], json.dumps(plan["ops"])), plan, \
            (lambda plan=plan: run_seq(ml, plan))


# ------------------------------------------------------------------ arguments that are LIVE ROWS of the coordinate table
# get_atom_coord(k) / coords[k] return a view of row k.  The usual idioms hand such a view straight to a callee:
#   R = rotation_matrix_from_vectors(m.coords[k], w); m.transform(R)        put atom k along w   (also as v2, also both)
#   R = rotation_matrix_from_axis(m.coords[k], t);    m.transform(R)        turn about atom k
#   m.translate(m.coords[k]);  m.substructure(idx).translate(m.coords[k])
# The callee gets the VALUE of the row: the table is the same after the matrix was computed, and the motion carried out
# afterwards keeps every distance / handedness and has the documented effect (Model/RotViews.v: orient_row,
# turn_about_row, shift_by_row).  Every other family passes lists / fresh arrays, where a callee writing into its
# argument cannot be seen.
HEADER_V = HEADER.replace("Model.Rot.", "Model.Rot Model.RotEns Model.RotViews.")
LIVE_ACCESS = ["get_atom_coord", "coords[k]", "coords[k,:]", "get_atom_coord(atom)"]
LIVE_FNS = ["vectors", "vectors-as-target", "vectors-both", "axis", "translate", "sub-translate"]
LIVE_HOSTS = ["molecule", "molecule", "conformer", "ensemble"]


def live_row(obj, k, access):
    if access == "get_atom_coord":
        return obj.get_atom_coord(k)
    if access == "get_atom_coord(atom)":
        return obj.get_atom_coord(obj.atoms[k])
    if access == "coords[k]":
        return obj.coords[k]
    return obj.coords[k, :]


def gen_liverow(rng, name, na, fn, host, access):
    """plan for one workflow; indices are positions in the molecule `name`"""
    j = rng.randrange(na)
    k = rng.choice([i for i in range(na) if i != j])
    plan = {"kind": "liverow", "mol": name, "host": host, "access": access, "fn": fn, "center": j, "k": k}
    if fn in ("vectors", "vectors-as-target"):
        r = rng.random()
        if r < 0.35:
            w = [0.0, 0.0, 0.0]
            w[rng.randrange(3)] = float(rng.choice((1, -1, 2)))
        elif r < 0.7:
            w = [float(x) for x in pyth_vec(rng)]
        else:
            w = [float(Fr(rng.randint(-2048, 2048), 128)) for _ in range(3)]
            if not any(w):
                w = [0.0, 0.0, 1.0]
        plan["w"] = w
    elif fn == "vectors-both":
        others = [i for i in range(na) if i not in (j, k)]
        plan["l"] = rng.choice(others) if others else None
        if plan["l"] is None:
            plan["fn"], plan["w"] = "vectors", [0.0, 0.0, 1.0]
    elif fn == "axis":
        plan["p"], plan["q"] = rng.choice([(1, 1), (-1, 2), (3, 2), (1, 0), (2, 7), (-5, 1), (1, 3)])
    elif fn == "sub-translate":
        plan["idx"] = rng.sample(range(na), rng.randint(1, max(1, na - 1)))
    return plan


def run_liverow(ml, plan):
    np = np_()
    from molli.math import rotation_matrix_from_vectors, rotation_matrix_from_axis
    name, host, fn, k = plan["mol"], plan["host"], plan["fn"], plan["k"]
    m0 = find_mol(ml, name)
    if m0 is None:
        return None, None, {"skipped": "no such molecule"}
    counts = [f"liverow:fn={fn}", f"liverow:host={host}", f"liverow:access={plan['access']}"]
    info = {"counts": counts}
    ens, ci = None, 0
    if host == "molecule":
        obj = ml.Molecule(m0)
    else:
        import random
        r = random.Random("c11-liverow-ens/" + name)
        mols = []
        for c in range(3):
            mc = ml.Molecule(m0)
            if c != 1:
                mc.coords = np.round((np.asarray(m0.coords, dtype=float) @ np.array(nontrivial_rot(r)) + np.array([r.uniform(-3, 3) for _ in range(3)])) * 4096.0) / 4096.0
            mols.append(mc)
        ens = ml.ConformerEnsemble(mols)
        ci = 1
        obj = ens[ci]
    lbl = f"{name} [{host}], atom {k} through {plan['access']}"
    try:
        obj.translate(-np.array(obj.get_atom_coord(plan["center"]), dtype=float))      # a fresh array: exact on the 2^-12 grid
        X0 = np.asarray(obj.coords, dtype=float).copy()
        E0 = None if ens is None else np.asarray(ens.coords, dtype=float).copy()
        if not np.any(X0[k]) or (plan.get("l") is not None and not np.any(X0[plan["l"]])):
            return None, None, dict(info, skipped="zero position vector")
        a = live_row(obj, k, plan["access"])
        if not (isinstance(a, np.ndarray) and np.shares_memory(a, obj.coords)):
            counts.append("liverow:accessor-returns-a-copy")
        M = None
        tap = None
        if fn.startswith("vectors"):
            w = live_row(obj, plan["l"], plan["access"]) if fn == "vectors-both" else list(plan["w"])
            wval = [float(x) for x in (X0[plan["l"]] if fn == "vectors-both" else plan["w"])]
            with RandTap() as tap:
                M = rotation_matrix_from_vectors(w, a) if fn == "vectors-as-target" else rotation_matrix_from_vectors(a, w)
            call = (f"rotation_matrix_from_vectors({wval}, <row {k}>)" if fn == "vectors-as-target" else
                    f"rotation_matrix_from_vectors(<row {k}>, " + (f"<row {plan['l']}>)" if fn == "vectors-both" else f"{wval})"))
        elif fn == "axis":
            st, ct = (Fr(0), Fr(-1)) if plan["q"] == 0 else rat_sincos(plan["p"], plan["q"])
            angle = math.atan2(float(st), float(ct))
            M = rotation_matrix_from_axis(a, angle)
            call = f"rotation_matrix_from_axis(<row {k}>, {angle:.6f})"
        Xm = np.asarray(obj.coords, dtype=float).copy()
        if M is not None:
            M = np.asarray(M, dtype=float)
            if host == "ensemble":
                ens.rotate(M)
            else:
                obj.transform(M)
        elif fn == "translate":
            obj.translate(a)
            call = f"translate(<row {k}>)"
        else:
            obj.substructure(list(plan["idx"])).translate(a)
            call = f"substructure({plan['idx'][:8]}).translate(<row {k}>)"
        X1 = np.asarray(obj.coords, dtype=float).copy()
        E1 = None if ens is None else np.asarray(ens.coords, dtype=float).copy()
    except Exception as e:  # noqa
        return None, (f"liverow:{fn}:raises-{type(e).__name__}", f"{lbl}: {fn} with a live coordinate row raised {e!r}"), info
    scale = 1.0 + float(np.abs(X0).max())
    viol = None
    n = X0.shape[0]
    if X1.shape != X0.shape or not np.isfinite(X1).all():
        return None, (f"liverow:{fn}:bad-coordinates", f"{lbl}: {call} left coordinates of shape {X1.shape}, finite={bool(np.isfinite(X1).all())}"), info
    if M is not None and np.abs(Xm - X0).max() > 1e-12 * scale:
        rows = [i for i in range(n) if np.abs(Xm[i] - X0[i]).max() > 1e-12 * scale]
        d0, d1 = dist_matrix(X0), dist_matrix(Xm)
        i, j2 = np.unravel_index(np.abs(d0 - d1).argmax(), d0.shape)
        viol = (f"liverow:{fn}:matrix-constructor-moved-atoms",
                f"{lbl}: {call} only computes a matrix, yet it changed the coordinates of atoms {rows[:6]} of the structure the row belongs to "
                f"(atom {rows[0]}: {X0[rows[0]].tolist()} -> {Xm[rows[0]].tolist()}; distance {i}-{j2}: {d0[i, j2]:.6f} -> {d1[i, j2]:.6f})")
    if viol is None and M is not None:
        rv = rotation_violation(M)
        if rv:
            viol = (f"liverow:{fn}:" + rv[0], f"{lbl}: {call}: {rv[1]}")
    if viol is None and M is not None:
        Z = np.zeros((1, 3))
        sv = shape_violation(np.vstack([X0, Z]), np.vstack([X1, Z]), range(n + 1), 91)
        if sv:
            viol = (f"liverow:{fn}:" + sv[0], f"{lbl}: {call} then transform (row {n} = the origin): {sv[1]}")
        elif fn in ("vectors", "vectors-both"):
            wv = np.array(wval)
            want = np.linalg.norm(X0[k]) * wv / np.linalg.norm(wv)
            if np.abs(X1[k] - want).max() > ORACLE_EPS * scale:
                viol = (f"liverow:{fn}:atom-not-along-target", f"{lbl}: after {call} and transform atom {k} is at {X1[k].tolist()}, expected {want.tolist()}")
        elif fn == "vectors-as-target":
            wv = np.array(wval)
            got = (wv / np.linalg.norm(wv)) @ M
            want = X0[k] / np.linalg.norm(X0[k])
            if np.abs(got - want).max() > ORACLE_EPS:
                viol = (f"liverow:{fn}:does-not-map", f"{lbl}: {call} takes the direction of w to {got.tolist()}, the row pointed along {want.tolist()}")
        elif fn == "axis":
            if np.abs(X1[k] - X0[k]).max() > ORACLE_EPS * scale:
                viol = ("liverow:axis:axis-atom-moved", f"{lbl}: after {call} and transform the atom on the axis went from {X0[k].tolist()} to {X1[k].tolist()}")
            elif abs(np.trace(M) - (1 + 2 * math.cos(angle))) > ORACLE_EPS:
                viol = ("liverow:axis:wrong-angle", f"{lbl}: {call}: trace {np.trace(M):.9f}, expected {1 + 2 * math.cos(angle):.9f}")
    if viol is None and M is None:
        sel = list(range(n)) if fn == "translate" else sorted(set(plan["idx"]))
        want = X0.copy()
        want[sel] = X0[sel] + X0[k]
        if np.abs(X1 - want).max() > ORACLE_EPS * scale:
            bad = [i for i in range(n) if np.abs(X1[i] - want[i]).max() > ORACLE_EPS * scale]
            viol = (f"liverow:{fn}:wrong-result", f"{lbl}: {call} must move {'every atom' if fn == 'translate' else 'atoms ' + str(sel[:8])} by the value the row had "
                    f"({X0[k].tolist()}) and nothing else; atoms {bad[:6]} are elsewhere (atom {bad[0]}: {X1[bad[0]].tolist()}, expected {want[bad[0]].tolist()})")
    if viol is None and ens is not None:
        for c in range(E0.shape[0]):
            if c == ci:
                continue
            if host == "ensemble" and M is not None:
                Z = np.zeros((1, 3))
                sv = shape_violation(np.vstack([E0[c], Z]), np.vstack([E1[c], Z]), range(n + 1), 92)
                if sv is None and np.abs(E1[c] - E0[c] @ M).max() > ORACLE_EPS * 4 * (1.0 + float(np.abs(E0).max())):
                    sv = ("wrong-result", f"conformer {c} is not where rotate(R) puts it")
                if sv:
                    viol = (f"liverow:{fn}:ensemble-" + sv[0], f"{lbl}: {call} then ens.rotate: conformer {c}: {sv[1]}")
                    break
            elif np.abs(E1[c] - E0[c]).max() > 0:
                viol = (f"liverow:{fn}:other-conformer-moved", f"{lbl}: {call} on conformer {ci} changed conformer {c}")
                break
    # ---- the case term
    qk = [fr(x) for x in X0[k]]
    nk = qsqrt(fdot(qk, qk))
    if fn.startswith("vectors"):
        import inspect
        d = inspect.signature(rotation_matrix_from_vectors).parameters.get("tol")
        tolq = fr(float(d.default) if d is not None and isinstance(d.default, (int, float)) else TOL_DEFAULT)
        qw = [fr(x) for x in wval]
        nw = qsqrt(fdot(qw, qw))
        c = fdot(qk, qw) / (nk * nw)
        if abs(c - (tolq - 1)) < Fr(1, 10 ** 14) or not np.isfinite(M).all():
            return None, viol, dict(info, skipped="branch decision within float rounding of the threshold")
        swap = fn == "vectors-as-target"
        ov = "None"
        if c <= tolq - 1 and tap is not None and tap.draws:
            RV = [fr(x) for x in tap.draws[-1]]
            b = [x / nk for x in qk] if swap else [x / nw for x in qw]
            kk = fdot(RV, b)
            wv_ = [RV[i] - b[i] * kk for i in range(3)]
            if any(wv_):
                ov = f"(Some ({vq(wv_)}, {cq_Q(qsqrt(fdot(wv_, wv_)))}))"
        term = (f"(VOrient {cq_Q(tolq)} {rowsq(X0.tolist())} {cq_nat(k)} {'true' if swap else 'false'} {vq(qw)} {cq_Q(nk)} {cq_Q(nw)} {ov} "
                f"{mq(M.tolist())} {rowsq(Xm.tolist())} {rowsq(X1.tolist())})")
    elif fn == "axis":
        if not np.isfinite(M).all():
            return None, viol, info
        term = (f"(VOrientAxis {rowsq(X0.tolist())} {cq_nat(k)} {cq_Q(nk)} {cq_Q(st)} {cq_Q(ct)} {mq(M.tolist())} "
                f"{rowsq(Xm.tolist())} {rowsq(X1.tolist())})")
    else:
        idxq = "None" if fn == "translate" else f"(Some {natl(plan['idx'])})"
        term = f"(VShiftRow {rowsq(X0.tolist())} {idxq} {cq_nat(k)} {rowsq(X1.tolist())})"
    return term, viol, info


def liverow_cases(ctx, rng=None):
    import molli as ml
    rng = rng or ctx.rng
    names = [nm for nm, _ in load_mols(ml) if not (nm.startswith("pentane") and not nm.endswith("#0"))]
    names += [f"tree:{n}:{rng.randrange(10 ** 6)}" for n in (3, 4, 7)]
    reps = 1 if not ctx.thorough else 6
    s = 0
    for name in names:
        m = find_mol(ml, name)
        if m is None or m.n_atoms < 3:
            continue
        for r in range(reps):
            for fn in LIVE_FNS:
                host = LIVE_HOSTS[s % len(LIVE_HOSTS)]
                if host == "ensemble" and not fn.startswith("vectors") and fn != "axis":
                    host = "conformer"
                access = LIVE_ACCESS[(s // 2 + s) % len(LIVE_ACCESS)]
                s += 1
                if m.n_atoms > 40 and not ctx.thorough and s % 2:
                    continue
                plan = gen_liverow(rng, name, m.n_atoms, fn, host, access)
                yield "liverow:" + plan["fn"], ("liverow", json.dumps(plan, sort_keys=True)), plan, (lambda plan=plan: run_liverow(ml, plan))


# ------------------------------------------------------------------ handles collected first, used later
# A Conformer is an (ensemble, k) handle, a Substructure a (parent, atoms) handle.  Every other family uses a handle
# right after obtaining it.  Here handles are COLLECTED -- list(ens), comprehensions, zip / sorted / max over the
# ensemble, two interleaved iterators, ens[i], ens[a:b], [cf.substructure(idx) for cf in ens]; for a molecule several
# (overlapping) substructures -- and the edits follow afterwards, in another order, through the conformer or through a
# substructure of it (taken at collection time or at edit time), by translate / transform / coords assignment.  After
# every edit exactly the selected rows of the conformer the handle was taken for have moved, by that motion, and every
# other row of the ensemble is bit-identical (Model/RotViews.v: view_edits; `vcheck`).
VIEW_COLLECT = ["list", "comprehension", "substructure-comprehension", "zip", "sorted", "next", "interleaved-iterators",
                "reversed-list", "enumerate-dict", "max", "getitem", "slice", "generator-then-list"]
VIEW_OPS = ["t", "r", "t", "r", "t-assign", "r-assign"]


def collect_views(ens, mode, E0, idx):
    """(handles, conformer each handle was taken for).  `idx` only for the substructure-comprehension mode."""
    np = np_()
    nc = ens.n_conformers
    key = [float(E0[c][:, 0].sum() - 0.37 * E0[c][:, 1].sum()) for c in range(nc)]
    if mode == "list":
        return list(ens), list(range(nc))
    if mode == "comprehension":
        return [cf for cf in ens], list(range(nc))
    if mode == "substructure-comprehension":
        return [cf.substructure(list(idx)) for cf in ens], list(range(nc))
    if mode == "zip":
        return [cf for cf, _ in zip(ens, range(nc))], list(range(nc))
    if mode == "sorted":
        ks = iter(key)
        return sorted(ens, key=lambda cf: next(ks)), sorted(range(nc), key=lambda c: key[c])
    if mode == "next":
        it = iter(ens)
        return [next(it) for _ in range(nc)], list(range(nc))
    if mode == "interleaved-iterators":
        it1, it2 = iter(ens), iter(ens)
        out = []
        for c in range(nc):
            out.append(next(it1))
            if c % 2 == 0:
                next(it2)
        return out, list(range(nc))
    if mode == "reversed-list":
        return list(ens)[::-1], list(range(nc))[::-1]
    if mode == "enumerate-dict":
        d = {i: cf for i, cf in enumerate(ens)}
        return [d[i] for i in range(nc)], list(range(nc))
    if mode == "max":
        ks = iter(key)
        ks2 = iter(key)
        return ([max(ens, key=lambda cf: next(ks)), min(ens, key=lambda cf: next(ks2))],
                [max(range(nc), key=lambda c: key[c]), min(range(nc), key=lambda c: key[c])])
    if mode == "getitem":
        return [ens[c] for c in range(nc)], list(range(nc))
    if mode == "slice":
        return ens[0:nc], list(range(nc))
    return list(cf for cf in ens), list(range(nc))          # generator-then-list


def gen_views(rng, spec, nc, na, mode):
    """plan: collection mode + edits [position among the handles, op, argument, substructure indices or None]"""
    def q():
        return float(Fr(rng.randint(-2048, 2048), 128))
    nh = 2 if mode == "max" else nc
    coll_idx = rng.sample(range(na), rng.randint(1, max(1, na - 1))) if mode == "substructure-comprehension" else None
    order = list(range(nh))
    rng.shuffle(order)
    if nh > 1 and order[-1] == nh - 1:           # do not finish on the handle produced last
        order[0], order[-1] = order[-1], order[0]
    order = order[:max(2, min(nh, 5))] + ([rng.randrange(nh)] if rng.random() < 0.5 else [])
    edits = []
    for pos in order:
        op = rng.choice(VIEW_OPS)
        arg = [q(), q(), q()] if op.startswith("t") else nontrivial_rot(rng)
        idx = None
        if coll_idx is None and rng.random() < 0.5:
            idx = rng.sample(range(na), rng.randint(1, max(1, na - 1)))
        edits.append([pos, op, arg, idx])
    return {"kind": "views", "spec": spec, "collect": mode, "collect_idx": coll_idx, "edits": edits}


def gen_molviews(rng, name, na):
    def q():
        return float(Fr(rng.randint(-2048, 2048), 128))
    nh = rng.randint(2, 4)
    lists = [rng.sample(range(na), rng.randint(1, max(1, na - 1))) for _ in range(nh)]
    order = list(range(nh)) + [rng.randrange(nh)]
    rng.shuffle(order)
    edits = []
    for pos in order:
        op = rng.choice(VIEW_OPS)
        edits.append([pos, op, [q(), q(), q()] if op.startswith("t") else nontrivial_rot(rng), None])
    return {"kind": "views", "spec": {"src": "mol", "mol": name}, "collect": "molecule-substructures", "lists": lists, "edits": edits}


def run_views(ml, plan):
    np = np_()
    spec, mode = plan["spec"], plan["collect"]
    counts = ["views:collect=" + mode]
    info = {"counts": counts}
    try:
        if spec["src"] == "mol":
            m0 = find_mol(ml, spec["mol"])
            if m0 is None:
                return None, None, {"skipped": "no such molecule"}
            host = ml.Molecule(m0)
            tag = f"{spec['mol']}: substructures {[l[:4] for l in plan['lists']]} collected first"
            E0 = np.asarray(host.coords, dtype=float).copy()[None, :, :]
            handles = [host.substructure(list(l)) for l in plan["lists"]]
            expect = [0] * len(handles)
            hidx = [list(l) for l in plan["lists"]]
            get = lambda: np.asarray(host.coords, dtype=float).copy()[None, :, :]
        else:
            ens0 = build_ens(ml, spec)
            host = fresh_ens(ml, ens0)
            E0 = np.asarray(host.coords, dtype=float).copy()
            tag = f"{spec_tag(spec, host)}: handles collected by {mode}"
            handles, expect = collect_views(host, mode, E0, plan.get("collect_idx"))
            hidx = [plan.get("collect_idx")] * len(handles)
            get = lambda: np.asarray(host.coords, dtype=float).copy()
            counts += ["views-shape:" + c for c in shape_classes(host.n_conformers, host.n_atoms)]
    except Exception as e:  # noqa
        return None, (f"views:collect:raises-{type(e).__name__}", f"collecting handles by {mode} raised {e!r}"), info
    if len(handles) != len(expect):
        return None, ("views:collect:wrong-number-of-handles", f"{tag}: {len(handles)} handles for {len(expect)} conformers"), info
    cur = E0.copy()
    viol = None
    vedits = []
    scale = 1.0 + float(np.abs(E0).max())
    for step, (pos, op, arg, idx) in enumerate(plan["edits"]):
        if pos >= len(handles):
            continue
        c = expect[pos]
        h = handles[pos]
        sel_idx = hidx[pos] if hidx[pos] is not None else idx
        kindname = {"t": "translate", "r": "transform", "t-assign": "coords-assign", "r-assign": "coords-assign"}[op]
        counts.append("views:op=" + kindname + (":substructure-at-collection" if hidx[pos] is not None else ":substructure-at-edit" if idx is not None else ":whole"))
        try:
            tgt = h if (hidx[pos] is not None or idx is None) else h.substructure(list(idx))
            if op == "t":
                tgt.translate(list(arg))
            elif op == "r":
                tgt.transform(np.array(arg))
            elif op == "t-assign":
                tgt.coords = np.asarray(tgt.coords, dtype=float) + np.array(arg)
            else:
                tgt.coords = np.asarray(tgt.coords, dtype=float) @ np.array(arg)
        except Exception as e:  # noqa
            viol = (f"views:{kindname}:raises-{type(e).__name__}", f"{tag}: edit {step} ({kindname} through handle {pos}, taken for conformer {c}) raised {e!r}")
            break
        new = get()
        if new.shape != cur.shape:
            viol = (f"views:{kindname}:shape-changed", f"{tag}: coordinates {cur.shape} -> {new.shape}")
            break
        sel = list(range(cur.shape[1])) if sel_idx is None else sorted(set(sel_idx))
        want = cur.copy()
        want[c][sel] = (cur[c][sel] + np.array(arg)) if op.startswith("t") else (cur[c][sel] @ np.array(arg))
        mask = np.ones(cur.shape[:2], dtype=bool)
        mask[c, sel] = False
        ch = np.abs(new - cur).max(axis=2)
        if (ch > 0)[mask].any():
            bad = np.argwhere((ch > 0) & mask).tolist()
            confs = sorted({b[0] for b in bad})
            stayed = bool(np.abs(new[c][sel] - cur[c][sel]).max() == 0)
            viol = (f"views:{kindname}:other-rows-moved",
                    f"{tag}: edit {step}: {kindname} through handle {pos}, which was taken for conformer {c}"
                    f"{'' if sel_idx is None else ', atoms ' + str(sel[:8])}, changed (conformer, atom) rows {bad[:6]} (conformers {confs[:6]})"
                    f"{'; the rows it should have moved stayed where they were' if stayed else ''}")
            break
        if np.abs(new - want).max() > ORACLE_EPS * scale:
            viol = (f"views:{kindname}:selected-rows-wrong",
                    f"{tag}: edit {step}: {kindname} through handle {pos} (conformer {c}): the selected rows are {np.abs(new - want).max():.6f} away from where that motion puts them")
            break
        gop = f"(GTranslate {vq(arg)})" if op.startswith("t") else f"(GTransform {mq(arg)})"
        vedits.append(f"(VEdit {cq_nat(c)} {'None' if sel_idx is None else '(Some ' + natl(sel_idx) + ')'} {gop})")
        cur = new
    if not vedits:
        return None, viol, info
    term = f"(VViews {ensq(E0.tolist())} {cq_list(vedits)} {ensq(cur.tolist())})"
    return term, viol, info


def views_cases(ctx, specs, rng=None):
    import molli as ml
    rng = rng or ctx.rng
    s = rng.randrange(len(VIEW_COLLECT))
    for spec in specs:
        ens0 = build_ens(ml, spec)
        nc, na = ens0.n_conformers, ens0.n_atoms
        if nc < 2:
            continue
        for r in range(2 if not ctx.thorough else 6):
            mode = VIEW_COLLECT[s % len(VIEW_COLLECT)]
            s += 1
            plan = gen_views(rng, spec, nc, na, mode)
            yield "views:ensemble", ("views", json.dumps(plan, sort_keys=True)), plan, (lambda plan=plan: run_views(ml, plan))
    names = [nm for nm, _ in load_mols(ml) if not (nm.startswith("pentane") and not nm.endswith("#0"))]
    for name in (names[:4] if not ctx.thorough else names):
        m = find_mol(ml, name)
        if m is None or m.n_atoms < 2:
            continue
        for r in range(1 if not ctx.thorough else 4):
            plan = gen_molviews(rng, name, m.n_atoms)
            yield "views:molecule", ("views", json.dumps(plan, sort_keys=True)), plan, (lambda plan=plan: run_views(ml, plan))


# ------------------------------------------------------------------ mappings for alignment
# Symmetry-equivalent mappings permute ONE atom set (one centroid).  get_substr_indices of a motif that occurs at
# several places yields mappings over DIFFERENT atom sets: disjoint or overlapping, the one that fits best first, in
# the middle or last.  The pose left and the value returned must agree for all of them.
MAP_MODES = ["permuted", "disjoint", "overlapping", "mixed", "disjoint", "overlapping"]


def site_mappings(rng, na, size, nmap, mode):
    """nmap index lists of length `size` over range(na) according to `mode` (falls back when na is too small)"""
    size = max(1, min(size, na))
    core = rng.sample(range(na), size)
    if nmap <= 1:
        return [core], "single"
    if mode in ("disjoint", "mixed") and na < 2 * size:
        mode = "overlapping"
    if mode == "overlapping" and (na <= size or size < 2):
        mode = "permuted" if na <= size else "disjoint" if na >= 2 * size else "permuted"
    idxs = [core]
    used = set(core)
    for j in range(1, nmap):
        if mode == "permuted" or (mode == "mixed" and j % 2 == 1):
            p = idxs[rng.randrange(len(idxs))][:]
            rng.shuffle(p)
        elif mode in ("disjoint", "mixed"):
            free = [i for i in range(na) if i not in used]
            if len(free) < size:
                free = [i for i in range(na) if i not in set(core)]
            p = rng.sample(free, size)
            used |= set(p)
        else:
            keep = rng.sample(core, rng.randint(1, size - 1))
            free = [i for i in range(na) if i not in set(core)]
            p = keep + rng.sample(free, min(len(free), size - len(keep)))
            if len(p) < size:
                p = core[:]
            rng.shuffle(p)
        idxs.append(p)
    return idxs, mode


def site_reference(rng, X, idxs, R):
    """reference = rigid, slightly distorted copy of the atoms of ONE of the mappings (which one: first / middle / last), centred"""
    np = np_()
    b = rng.choice([0, len(idxs) - 1, rng.randrange(len(idxs))]) if len(idxs) > 1 else 0
    ref = np.asarray(X, dtype=float)[idxs[b]] @ R
    ref = ref + np.array([[rng.uniform(-0.05, 0.05) for _ in range(3)] for _ in idxs[b]])
    ref = ref - ref.mean(axis=0)
    where = "single" if len(idxs) == 1 else "first" if b == 0 else "last" if b == len(idxs) - 1 else "middle"
    return ref, where



# ------------------------------------------------------------------ the run
def all_cases(ctx):
    """Yields (kind, key, replay_dict, thunk) ; thunk() -> (term|None, violation|None, info)."""
    import molli as ml
    np = np_()
    rng = ctx.rng
    for tag, v1, v2, tol in vec_inputs(ctx):
        rd = {"kind": "vec", "v1": [float(x) for x in v1], "v2": [float(x) for x in v2], "tol": tol}
        yield "vec:" + tag, ("vec", tuple(rd["v1"]), tuple(rd["v2"]), tol), rd, (lambda tag=tag, v1=v1, v2=v2, tol=tol: run_vec(ml, tag, v1, v2, tol))
    for tag, ax, p, q in axis_inputs(ctx):
        rd = {"kind": "axis", "ax": [float(x) for x in ax], "p": p, "q": q}
        yield "axis:" + tag, ("axis", tuple(rd["ax"]), p, q), rd, (lambda tag=tag, ax=ax, p=p, q=q: run_axis(ml, tag, ax, p, q))
    mols = load_mols(ml)
    targets = [(0, 1), (1, 0), (1, 1), (-1, 2), (3, 2), (-5, 1), (2, 7)]
    for name, m in mols:
        adj = adjacency(m)
        quads = dihedral_quads(ctx, m, adj)
        for quad in quads:
            rd = {"kind": "dih", "mol": name, "quad": list(quad)}
            yield "dihedral", ("dih", name, quad), rd, (lambda name=name, m=m, quad=quad: run_dihedral_case(ml, name, m, quad))
            tg = targets if ctx.thorough else [targets[(sum(quad) + k) % len(targets)] for k in range(2 if m.n_atoms < 25 else 1)]
            for p, q in tg:
                rd = {"kind": "rotdih", "mol": name, "quad": list(quad), "p": p, "q": q}
                yield "rotate_dihedral", ("rotdih", name, quad, p, q), rd, (lambda name=name, m=m, quad=quad, p=p, q=q: run_rotdih(ml, name, m, quad, p, q))
    reps = 2 if not ctx.thorough else 12
    for name, m in mols:
        if name.startswith("pentane") and not name.endswith("#0") and not ctx.thorough:
            continue
        yield "centroid", ("centroid", name), {"kind": "centroid", "mol": name}, (lambda name=name, m=m: run_centroid(ml, name, m))
        for r in range(reps):
            ops = gen_gops(ctx, rng.randint(1, 3))
            rd = {"kind": "geom", "mol": name, "idx": None, "ops": ops}
            yield "geom:whole", ("geom", name, None, json.dumps(ops)), rd, (lambda name=name, m=m, ops=ops: run_geom(ml, name, m, None, ops))
            idx = rng.sample(range(m.n_atoms), rng.randint(1, max(1, m.n_atoms - 1)))
            ops = gen_gops(ctx, rng.randint(1, 3))
            rd = {"kind": "geom", "mol": name, "idx": idx, "ops": ops}
            yield "geom:substructure", ("geom", name, tuple(idx), json.dumps(ops)), rd, (lambda name=name, m=m, idx=idx, ops=ops: run_geom(ml, name, m, idx, ops))
            # the same through a view of a view: substructure(outer).substructure(positions of idx in outer)
            extra = [i for i in range(m.n_atoms) if i not in idx]
            outer = idx + rng.sample(extra, rng.randint(0, min(4, len(extra))))
            rng.shuffle(outer)
            ops = gen_gops(ctx, rng.randint(1, 3))
            rd = {"kind": "geom", "mol": name, "idx": idx, "ops": ops, "outer": outer}
            yield "geom:substructure:nested", ("geom-nested", name, tuple(idx), tuple(outer), json.dumps(ops)), rd, \
                (lambda name=name, m=m, idx=idx, ops=ops, outer=outer: run_geom(ml, name, m, idx, ops, outer))
            idxs, ref, vec = align_setup(ctx, m)
            rd = {"kind": "align", "mol": name, "idxs": idxs, "ref": ref.tolist(), "vec": vec}
            yield "align:molecule", ("align", name, json.dumps(idxs), json.dumps(ref.tolist())), rd, (lambda name=name, m=m, idxs=idxs, ref=ref, vec=vec: run_align_case(ml, name, m, idxs, ref, vec, rng.random()))
    # view -> edit parent -> move through the view (bundled molecules, and randomised ones)
    for name, m in mols:
        if name.startswith("pentane") and not name.endswith("#0") and not ctx.thorough:
            continue
        for r in range(6 if not ctx.thorough else 30):
            randomise = r % 3 == 2
            plan = gen_stale(ctx, m, randomise)
            rd = {"kind": "stale", "mol": name, "plan": plan}
            yield "substructure:view-edit-move" + (":random" if randomise else ""), ("stale", name, json.dumps(plan)), rd, \
                (lambda name=name, m=m, plan=plan: run_stale(ml, name, m, plan))
    ens = load_ens(ml)
    for r in range(6 if not ctx.thorough else 40):
        ci = rng.randrange(ens.n_conformers)
        idx = rng.sample(range(ens.n_atoms), rng.randint(1, 8))
        ops = gen_gops(ctx, rng.randint(1, 2))
        rd = {"kind": "confview", "ci": ci, "idx": idx, "ops": ops}
        yield "substructure:conformer-view", ("confview", ci, tuple(idx), json.dumps(ops)), rd, \
            (lambda ci=ci, idx=idx, ops=ops: run_conf_view(ml, ens, ci, idx, ops))
    for r in range(6 if not ctx.thorough else 60):
        ops = gen_eops(ctx, ens, rng.randint(1, 4))
        rd = {"kind": "ens", "ops": ops}
        yield "ensemble", ("ens", json.dumps(ops)), rd, (lambda ops=ops: run_ens(ml, ens, ops))
    for r in range(3 if not ctx.thorough else 30):
        idxs, ref, vec = align_setup(ctx, ml.Molecule(ens[0]))
        rd = {"kind": "ensalign", "idxs": idxs, "ref": ref.tolist(), "vec": vec}
        yield "align:ensemble", ("ensalign", json.dumps(idxs), json.dumps(ref.tolist())), rd, (lambda idxs=idxs, ref=ref, vec=vec: run_ens_align(ml, ens, idxs, ref, vec))
    # ensembles of every shape: n_conformers == n_atoms, == 3, == 1; n_atoms == 3, == 1 (and generic ones)
    specs = ens_specs(ctx)
    yield from ensx_cases(ctx, specs)
    # the same coincidences one level down: molecules of 1..4 atoms (coords of shape (1,3), (3,3), ...)
    for spec in specs:
        if spec["src"] != "synth" or spec["na"] > 4:
            continue
        name = f"synth:{spec['nc']}:{spec['na']}:{spec['seed']}#{rng.randrange(spec['nc'])}"
        m = find_mol(ml, name)
        yield "centroid:tiny", ("centroid", name), {"kind": "centroid", "mol": name}, (lambda name=name, m=m: run_centroid(ml, name, m))
        ops = gen_gops(ctx, rng.randint(1, 3))
        rd = {"kind": "geom", "mol": name, "idx": None, "ops": ops}
        yield "geom:whole:tiny", ("geom", name, None, json.dumps(ops)), rd, (lambda name=name, m=m, ops=ops: run_geom(ml, name, m, None, ops))
        idx = rng.sample(range(m.n_atoms), rng.randint(1, m.n_atoms))
        ops = gen_gops(ctx, rng.randint(1, 3))
        rd = {"kind": "geom", "mol": name, "idx": idx, "ops": ops}
        yield "geom:substructure:tiny", ("geom", name, tuple(idx), json.dumps(ops)), rd, (lambda name=name, m=m, idx=idx, ops=ops: run_geom(ml, name, m, idx, ops))
        idxs, ref, vec = ensx_align_setup(rng, np.asarray(m.coords, dtype=float)[None, :, :], rng.randint(1, 3))
        rd = {"kind": "align", "mol": name, "idxs": idxs, "ref": ref.tolist(), "vec": vec}
        yield "align:molecule:tiny", ("align", name, json.dumps(idxs), json.dumps(ref.tolist())), rd, (lambda name=name, m=m, idxs=idxs, ref=ref, vec=vec, u=rng.random(): run_align_case(ml, name, m, idxs, ref, vec, u))
    # handles collected first (iteration over the ensemble, several substructures of a molecule), used afterwards
    yield from views_cases(ctx, specs)
    # live rows of the coordinate table handed to rotation_matrix_from_vectors / _from_axis / translate
    yield from liverow_cases(ctx)
    # sessions: sequences of geometric operations and connectivity edits on one live object
    yield from seq_cases(ctx)


def run_dihedral_case(ml, name, m, quad):
    np = np_()
    term, d = run_dihedral(ml, name, m, quad)
    X = np.asarray(m.coords, dtype=float)
    u2 = [fr(X[quad[2]][k]) - fr(X[quad[1]][k]) for k in range(3)]
    g1, g2 = exact_dihedral_args(X, quad, qsqrt(fdot(u2, u2)))
    if g1 * g1 + g2 * g2 < Fr(1, 10 ** 6):
        return None, None, {"degenerate": True}
    # independent judgment: angle between the planes (i1,i2,i3) and (i2,i3,i4), IUPAC sign
    b0, b1, b2 = X[quad[0]] - X[quad[1]], X[quad[2]] - X[quad[1]], X[quad[3]] - X[quad[2]]
    b1n = b1 / np.linalg.norm(b1)
    v, w = b0 - np.dot(b0, b1n) * b1n, b2 - np.dot(b2, b1n) * b1n
    ref = math.atan2(float(np.dot(np.cross(b1n, v), w)), float(np.dot(v, w)))
    viol = None
    if ang_diff(ref, d) > ORACLE_EPS:
        viol = ("dihedral:wrong-value", f"{name}: dihedral{quad} = {d:.9f}, expected {ref:.9f}")
    return term, viol, {}


def run_align_case(ml, name, m, idxs, ref, vec, u):
    """alignment + pose independence (same molecule re-posed by a random rigid motion gives the same RMSD)."""
    np = np_()
    term, viol, info, r = run_align(ml, name, m, idxs, ref, vec)
    if viol is None and r is not None:
        import random
        rr = random.Random(int(u * 1e9))
        Rp = np.array([[float(e) for e in row] for row in quat_matrix(rr)])
        tp = np.array([rr.uniform(-5, 5) for _ in range(3)])
        _, v2, _, r2 = run_align(ml, name, m, idxs, ref, vec, repose=(Rp, tp))
        if v2 is not None:
            viol = v2
        elif r2 is not None and abs(r2 - r) > ORACLE_EPS:
            viol = ("align:pose-dependent", f"{name}: align_to_ref_coords returned {r:.9f}, but {r2:.9f} after re-posing the same molecule")
    return term, viol, info


def run(ctx, rep):
    rep.rule = ("a case = one call of the implementation on exact rational input; non-trivial when it produced an observation that "
                "was compared with the model inside Coq (degenerate/threshold-ambiguous inputs are counted but not compared); "
                "distinct by input")
    rep.trusted += ["harness/c11.py: generators, float -> exact rational encoding (Fraction(float)), 2^-60 square-root witnesses "
                    "(checked again inside Coq), recording wrapper around np.random.rand and around the alignment callback",
                    "CPython/numpy executing molli (array arithmetic, IEEE rounding, np.random, math.sin/cos/atan2)",
                    "reference Kabsch callback (numpy SVD) used to exercise align_to_ref_coords: its contract is a Section hypothesis"]
    rep.assumptions += ["model vs implementation agree within 1e-9 absolute (1e-9 + 1e-14/(1+c) in the 1/(1+c)-amplified general branch)",
                        "ensemble-shape family: rotate() given an (n_conformers,3,3) stack is judged when it returns (a rotate() that rejects "
                        "stacks is judged through align_to_ref_coords only); scale(f) is compared with the model and judged as a similarity (f > 0)",
                        "atoms selected by yield_bfs are taken from the implementation (graph search is C15); the oracle recomputes the far side independently",
                        "sessions (Model/RotSeq.v): the far side is computed by the MODEL from its own graph (bonds observed at the start of the "
                        "session, then the model's connect/del_bond/add_atom/del_atom); each model step starts from the coordinates observed after "
                        "the previous step, so rounding does not accumulate; a dihedral call whose arctan2 arguments are below 1e-3 in norm at that "
                        "moment is skipped; connectivity edits themselves are judged by C05, here only through the model comparison",
                        "arctan2 is not modelled: dihedral()'s result is compared through its sine and cosine",
                        "antiparallel branch: the orthogonal vector comes from np.random (hidden state); it is observed through a recording "
                        "wrapper when the code draws it that way, otherwise only the specification (proper, maps v1 to v2) is checked in Coq; "
                        "the theorem covers every choice, determinism of the choice is C12"]
    ok, out, where = vlib.build_props(ctx, rep, "C11")
    terms, owners = [], []
    eterms, eowners = [], []
    sterms, sowners = [], []
    vterms, vowners = [], []
    found = False
    oracle_viol = {}
    n_by_kind = {}
    items = list(all_cases(ctx))
    for i, (kind, key, rd, thunk) in enumerate(items):
        term, viol, info = thunk()
        rep.count(kind)
        if info.get("branch"):
            rep.count("vec-branch:" + info["branch"])
            if info["branch"] == "antiparallel":
                rep.count("antiparallel:o-" + ("observed" if info.get("o_observed") else "unobserved"))
        for e in info.get("edits", ()):
            rep.count("parent-edit:" + e)
        for t in info.get("counts", ()):
            rep.count(t)
        if info.get("n_steps"):
            rep.count("seq:steps", info["n_steps"])
        if viol:
            found = True
            sig = "C11:" + (kind.split(":")[0] + ":" if kind.split(":")[0] in ("vec", "axis") else "") + viol[0]
            oracle_viol[i] = sig
            rep.violate(sig, viol[1], rd)
        if term is None:
            rep.case(key=None)
            rep.count("not-compared")
            continue
        rep.case(key=json.dumps(key, default=str), sample=(rd if i % 97 == 0 else None))
        if term.startswith("(XEns"):
            eterms.append(term)
            eowners.append(i)
            continue
        if term.startswith("(SCase"):
            sterms.append(term)
            sowners.append(i)
            continue
        if term.startswith(("(VViews", "(VOrient", "(VShiftRow")):
            vterms.append(term)
            vowners.append(i)
            continue
        terms.append(term)
        owners.append(i)
    # spread the expensive kinds evenly over the shards (cases are generated kind by kind)
    size = 40 if not ctx.thorough else 100
    nsh = max(1, -(-len(terms) // size))
    order = [j for s0 in range(nsh) for j in range(s0, len(terms), nsh)]
    terms = [terms[j] for j in order]
    owners = [owners[j] for j in order]
    size = max(1, -(-len(terms) // nsh))
    bad = vlib.run_shards(ctx, rep, "c11", HEADER, "check", terms, shard=size, timeout=900, case_type="case")
    # the ensemble-shape family has its own case type and checker (Model/RotEns.v); bigger ensembles first, dealt round-robin
    esize = 30 if not ctx.thorough else 60
    ensh = max(1, -(-len(eterms) // esize))
    eorder = sorted(range(len(eterms)), key=lambda j: -len(eterms[j]))
    eorder = [eorder[j] for s0 in range(ensh) for j in range(s0, len(eorder), ensh)]
    eterms = [eterms[j] for j in eorder]
    eowners = [eowners[j] for j in eorder]
    ebad = vlib.run_shards(ctx, rep, "c11e", HEADER_E, "echeck", eterms, shard=max(1, -(-len(eterms) // ensh)), timeout=900, case_type="ecase")
    # sessions (Model/RotSeq.v, `scheck`): longest first, dealt round-robin
    ssize = 2 if not ctx.thorough else 12
    snsh = max(1, -(-len(sterms) // ssize))
    sorder = sorted(range(len(sterms)), key=lambda j: -len(sterms[j]))
    sorder = [sorder[j] for s0 in range(snsh) for j in range(s0, len(sorder), snsh)]
    sterms = [sterms[j] for j in sorder]
    sowners = [sowners[j] for j in sorder]
    sbad = vlib.run_shards(ctx, rep, "c11s", SEQ_HEADER, "scheck", sterms, shard=max(1, -(-len(sterms) // snsh)), timeout=900, case_type="scase")
    # handles / live-row arguments (Model/RotViews.v, `vcheck`): biggest first, dealt round-robin
    vsize = 30 if not ctx.thorough else 60
    vnsh = max(1, -(-len(vterms) // vsize))
    vorder = sorted(range(len(vterms)), key=lambda j: -len(vterms[j]))
    vorder = [vorder[j] for s0 in range(vnsh) for j in range(s0, len(vorder), vnsh)]
    vterms = [vterms[j] for j in vorder]
    vowners = [vowners[j] for j in vorder]
    vbad = vlib.run_shards(ctx, rep, "c11v", HEADER_V, "vcheck", vterms, shard=max(1, -(-len(vterms) // vnsh)), timeout=900, case_type="vcase")
    rep.extra["shard_cases"] = len(terms) + len(eterms) + len(sterms) + len(vterms)
    if bad is None or ebad is None or sbad is None or vbad is None:
        vlib.broken_obligation(rep, "corr_c11", "a correspondence shard did not compile: " + str(rep.extra.get("shard_errors", ""))[-800:], found)
        bad = bad or []
        ebad = ebad or []
        sbad = sbad or []
        vbad = vbad or []
    bad = list(bad) + [len(terms) + b for b in ebad] + [len(terms) + len(eterms) + b for b in sbad] + [len(terms) + len(eterms) + len(sterms) + b for b in vbad]
    owners = owners + eowners + sowners + vowners
    if bad:
        unexplained = [owners[b] for b in bad if owners[b] not in oracle_viol]
        rep.extra["mismatching_cases"] = [items[owners[b]][2] for b in bad[:10]]
        if unexplained:
            # model and implementation disagree although the oracle accepted these inputs: widen the search around them
            more = False
            for i in unexplained[:20]:
                for v in neighbourhood(ctx, items[i][2]):
                    more = True
                    rep.violate(v.sig, v.what, v.replay)
            if not more:
                kinds = sorted({items[i][0] for i in unexplained})
                vlib.broken_obligation(rep, "corr_c11", f"{len(unexplained)} case(s) of kind {kinds} differ from the model by more than the "
                                       f"stated tolerance, e.g. {json.dumps(items[unexplained[0]][2], default=str)[:600]}", found)
    if not ok:
        vlib.broken_obligation(rep, "C11_props", f"{where}\n{out[-1500:]}", found)


def neighbourhood(ctx, rd):
    """Oracle over a widened neighbourhood of a mismatching case."""
    out = []
    out += replay(ctx, rd)
    if rd.get("kind") == "vec":
        import random
        r = random.Random(1)
        for _ in range(50):
            v1 = [x * r.choice((1, 2, 0.5)) for x in rd["v1"]]
            v2 = [x + r.choice((-1, 0, 1)) for x in rd["v2"]]
            if not any(v1) or not any(v2):
                continue
            out += replay(ctx, dict(rd, v1=v1, v2=v2))
            if out:
                break
    if rd.get("kind") in ("ensx", "ensxalign") and not out:
        # the same operations on ensembles of every coincidence shape
        import random
        import molli as ml
        kinds = sorted({o[0] for o in rd["ops"]}) if rd["kind"] == "ensx" else ["align"]
        for _, _, rd2, thunk in ensx_cases(ctx, kinds=kinds, rng=random.Random(1)):
            _, viol, _ = thunk()
            if viol:
                out.append(vlib.Violation("C11:" + viol[0], viol[1], rd2))
                break
    return out


def replay(ctx, data):
    import molli as ml
    np = np_()
    k = data.get("kind")
    res = None
    if k == "vec":
        res = run_vec(ml, "replay", data["v1"], data["v2"], data.get("tol"))
        pre = "C11:vec:"
    elif k == "axis":
        res = run_axis(ml, "replay", data["ax"], data["p"], data["q"])
        pre = "C11:axis:"
    else:
        pre = "C11:"
        m = find_mol(ml, data["mol"]) if data.get("mol") else None
        if k == "dih" and m is not None:
            res = run_dihedral_case(ml, data["mol"], m, tuple(data["quad"]))
        elif k == "rotdih" and m is not None:
            res = run_rotdih(ml, data["mol"], m, tuple(data["quad"]), data["p"], data["q"])
        elif k == "geom" and m is not None:
            res = run_geom(ml, data["mol"], m, data["idx"], [tuple(o) for o in data["ops"]], data.get("outer"))
        elif k == "stale" and m is not None:
            res = run_stale(ml, data["mol"], m, data["plan"])
        elif k == "centroid" and m is not None:
            res = run_centroid(ml, data["mol"], m)
        elif k == "align" and m is not None:
            res = run_align_case(ml, data["mol"], m, data["idxs"], np.array(data["ref"]), data["vec"], 0.5)
        elif k == "confview":
            res = run_conf_view(ml, load_ens(ml), data["ci"], data["idx"], [tuple(o) for o in data["ops"]])
        elif k == "ens":
            res = run_ens(ml, load_ens(ml), [tuple(o) for o in data["ops"]])
        elif k == "ensalign":
            res = run_ens_align(ml, load_ens(ml), data["idxs"], np.array(data["ref"]), data["vec"])
        elif k == "ensx":
            res = run_ensx(ml, data["spec"], [tuple(o) for o in data["ops"]])
        elif k == "ensxalign":
            res = run_ensx_align(ml, data["spec"], data["idxs"], np.array(data["ref"]), data["vec"])
        elif k == "seq":
            res = run_seq(ml, data)
        elif k == "views":
            res = run_views(ml, data)
        elif k == "liverow":
            res = run_liverow(ml, data)
    if res is None or res[1] is None:
        return []
    return [vlib.Violation(pre + res[1][0], res[1][1], data)]
