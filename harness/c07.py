"""C07 -- mol2 written by molli reads back as the same molecule.

Layer (a), tie T (exhaustive, regenerated every run): Atom.get_mol2_type on EVERY (element x atype x geom)
triple, Atom.set_mol2_type on every distinct emitted token applied to a default atom, Bond.get_mol2_type on
every BondType, Bond.set_mol2_type on every key of MOL2_BOND_TYPE_MAP -> coq/Gen/Mol2Types.v; the theorems of
Props/C07.v are decided by the kernel on that table.
Layer (b), tie H: random molecules / structures / ensembles built through the public API, written by the real
dumps_mol2 and read back by the real loads_mol2; text and read-back fields are compared with the Coq model
(Model/Mol2Text.v, the definitions the theorems are about) inside Coq; a Python oracle judges the property.
Families: built objects (gen_cases), write -> edit -> write again (gen_rewrite_cases), and objects that do NOT own
their atoms (gen_view_cases: Substructure / Conformer views in any atom order, atoms adopted by a second structure,
clones and concatenations of these; signatures end in ":written=<how>").
"""
import os, sys, json, math, itertools
from decimal import Decimal, ROUND_HALF_EVEN
from fractions import Fraction
import vlib
from vlib import cq_list

GEN = os.path.join(vlib.COQ, "Gen", "Mol2Types.v")


# ------------------------------------------------------------------ Coq literals
def cq_s(s):
    """python str -> Coq term of type str (list of code points)."""
    if all(32 <= ord(c) < 127 for c in s):
        return '(u8 "' + s.replace('"', '""') + '")'
    return "[" + "; ".join(str(ord(c)) for c in s) + "]"


def cq_string(s):
    assert all(32 <= ord(c) < 127 for c in s), s
    return '"' + s.replace('"', '""') + '"'


# ------------------------------------------------------------------ layer (a): tabulation
def tabulate():
    from molli.chem import Atom, Element, AtomType, AtomGeom, Bond, BondType
    from molli.chem.bond import MOL2_BOND_TYPE_MAP
    els, ats, gs = list(Element), list(AtomType), list(AtomGeom)
    epos = {e: i for i, e in enumerate(els)}
    apos = {a: i for i, a in enumerate(ats)}
    gpos = {g: i for i, g in enumerate(gs)}
    tokens, tindex, rows, first = [], {}, [], []
    for e in els:
        row = []
        for t in ats:
            for g in gs:
                try:
                    tok = Atom(e, atype=t, geom=g).get_mol2_type()
                except Exception as ex:          # a writer that raises: recorded as a token no reader accepts
                    tok = "<raised " + type(ex).__name__ + ">"
                if not isinstance(tok, str):
                    tok = "<non-str %s>" % type(tok).__name__
                if not all(32 <= ord(c) < 127 for c in tok):
                    tok = "<non-ascii " + tok.encode("ascii", "backslashreplace").decode() + ">"
                if tok not in tindex:
                    tindex[tok] = len(tokens)
                    tokens.append(tok)
                    first.append((e, t, g))
                row.append(tindex[tok])
        rows.append(row)
    settbl = []
    for tok in tokens:
        d = Atom()
        try:
            d.set_mol2_type(tok)
            settbl.append((epos[d.element], apos[d.atype], gpos[d.geom]))
        except Exception:
            settbl.append(None)
    # the writer must look at the CURRENT state: an atom that already wrote another token is re-assigned and asked again
    get_after = []
    for k in range(len(tokens)):
        e, t, g = first[k]
        e0, t0, g0 = first[(k + 1) % len(tokens)]
        try:
            a = Atom(e0, atype=t0, geom=g0)
            a.get_mol2_type()
            a.element, a.atype, a.geom = e, t, g
            get_after.append(tindex.get(a.get_mol2_type(), len(tokens)))
        except Exception:
            get_after.append(len(tokens))
    d = Atom()
    default = (epos[d.element], apos[d.atype], gpos[d.geom])
    bts = list(BondType)
    bpos = {b: i for i, b in enumerate(bts)}
    btokens, btindex = [], {}
    for k in MOL2_BOND_TYPE_MAP.keys():
        btindex[k] = len(btokens)
        btokens.append(k)
    bget = []
    for b in bts:
        try:
            tok = Bond(Atom(), Atom(), btype=b).get_mol2_type()
        except Exception as ex:
            tok = "<raised " + type(ex).__name__ + ">"
        if not isinstance(tok, str) or not all(32 <= ord(c) < 127 for c in tok):
            tok = "<odd %s>" % type(tok).__name__
        if tok not in btindex:
            btindex[tok] = len(btokens)
            btokens.append(tok)
        bget.append(btindex[tok])
    bget_after = []
    for i, b in enumerate(bts):
        try:
            bond = Bond(Atom(), Atom(), btype=bts[(i + 1) % len(bts)])
            bond.get_mol2_type()
            bond.btype = b
            bget_after.append(btindex.get(bond.get_mol2_type(), len(btokens) + 50))
        except Exception:
            bget_after.append(len(btokens) + 50)
    bset, bset_after = [], []
    for tok in btokens:
        b = Bond(Atom(), Atom())
        try:
            b.set_mol2_type(tok)
            bset.append(bpos[b.btype])
        except Exception:
            bset.append(None)
        # the reader must act every time: same bond, same token again after the type was changed by hand
        try:
            b.btype = bts[(bpos[b.btype] + 1) % len(bts)]
            b.set_mol2_type(tok)
            bset_after.append(bpos[b.btype])
        except Exception:
            bset_after.append(None)
    return dict(els=els, ats=ats, gs=gs, tokens=tokens, rows=rows, settbl=settbl, default=default,
                bts=bts, btokens=btokens, bget=bget, bset=bset,
                get_after=get_after, bget_after=bget_after, bset_after=bset_after, first=first, tindex=tindex, btindex=btindex,
                epos=epos, apos=apos, gpos=gpos, bpos=bpos)


def gen_types(T):
    def strs(xs):
        return "[" + "; ".join(cq_string(x) for x in xs) + "]"

    def wrap(items, per=30):
        items = list(items)
        return ";\n  ".join("; ".join(items[i:i + per]) for i in range(0, len(items), per))
    out = ["(* REGENERATED on every run by harness/c07.py from the behaviour of molli/chem/atom.py and",
           "   molli/chem/bond.py (Atom.get_mol2_type / set_mol2_type, Bond.get_mol2_type / set_mol2_type,",
           "   MOL2_BOND_TYPE_MAP) over their WHOLE finite domain -- do not edit.  Data only. *)",
           "From Coq Require Import String List NArith.", "Import ListNotations.",
           "Local Open Scope string_scope.", "Local Open Scope N_scope.", "",
           "(* enumeration order of the live enums; a triple is (position in elt_names, atype_names, geom_names) *)",
           f"Definition elt_names : list string := {strs(e.name for e in T['els'])}.",
           f"Definition elt_symbols : list string := {strs(e.symbol for e in T['els'])}.",
           f"Definition atype_names : list string := {strs(a.name for a in T['ats'])}.",
           f"Definition geom_names : list string := {strs(g.name for g in T['gs'])}.",
           "(* distinct tokens returned by Atom(e, atype=t, geom=g).get_mol2_type(), in order of first appearance *)",
           "Definition tokens : list string := [\n  " + wrap(cq_string(t) for t in T["tokens"]) + "].", "",
           "(* get_row_i: token index for element i, atype-major / geom-minor *)"]
    for i, row in enumerate(T["rows"]):
        out.append(f"Definition get_row_{i} : list N := [" + "; ".join(map(str, row)) + "].")
    out.append("Definition get_rows : list (list N) := [\n  " + wrap((f"get_row_{i}" for i in range(len(T["rows"]))), 12) + "].")
    out.append("")
    out.append("(* per token index: (element, atype, geom) of Atom() after set_mol2_type(token); None = it raised *)")
    out.append("Definition set_tbl : list (option (N * N * N)) := [\n  "
               + wrap(("None" if s is None else f"Some ({s[0]}, {s[1]}, {s[2]})" for s in T["settbl"]), 10) + "].")
    out.append(f"Definition default_atom : N * N * N := ({T['default'][0]}, {T['default'][1]}, {T['default'][2]}).")
    out.append("")
    out.append(f"Definition btype_names : list string := {strs(b.name for b in T['bts'])}.")
    out.append("(* keys of MOL2_BOND_TYPE_MAP, then any further token get_mol2_type emits *)")
    out.append(f"Definition bond_tokens : list string := {strs(T['btokens'])}.")
    out.append("Definition bond_get : list N := [" + "; ".join(map(str, T["bget"])) + "].   (* per BondType: token index *)")
    out.append("Definition bond_set : list (option N) := [" + "; ".join("None" if b is None else f"Some {b}" for b in T["bset"])
               + "].   (* per token: BondType position of a fresh Bond after set_mol2_type; None = it raised *)")
    out.append("")
    out.append("(* statelessness: the same questions asked of an object that already answered another one *)")
    out.append("Definition get_after : list N := [\n  " + wrap(map(str, T["get_after"])) + "].   (* per token k: an atom that wrote token k+1, re-assigned to the first triple of k, writes ... *)")
    out.append("Definition bond_get_after : list N := [" + "; ".join(map(str, T["bget_after"])) + "].   (* per BondType: a bond that wrote the next type's token, re-assigned, writes ... *)")
    out.append("Definition bond_set_after : list (option N) := [" + "; ".join("None" if b is None else f"Some {b}" for b in T["bset_after"])
               + "].   (* per token: set, change btype by hand, set the same token again *)")
    return "\n".join(out) + "\n"


# ------------------------------------------------------------------ layer (b): floats <-> decimal fixed point
def fx_of_float(x, k):
    """(neg, mag) of the correctly rounded "%.kf" text of the double x (exact rational arithmetic)."""
    import decimal
    with decimal.localcontext() as c:
        c.prec = 400
        d = Decimal(float(x)).quantize(Decimal(1).scaleb(-k), rounding=ROUND_HALF_EVEN)
        return (bool(d.is_signed()), int(abs(d).scaleb(k)))


def fx_text(fx, k):
    neg, mag = fx
    q, r = divmod(mag, 10 ** k)
    return ("-" if neg else "") + str(q) + "." + str(r).rjust(k, "0")


def fx_of_readback(r, k):
    """A value read back by float(): the decimal it stands for, by value (sign of zero dropped)."""
    fr = Fraction(float(r)) * 10 ** k
    z = round(fr)
    on_grid = abs(fr - z) <= Fraction(1, 100)
    return (z < 0, abs(z)), on_grid


def cq_fx(fx):
    return f"(mk_fx {'true' if fx[0] else 'false'} {fx[1]})"


# ------------------------------------------------------------------ generators
ASCII_TOK = "".join(chr(c) for c in range(33, 127))
LABEL_POOL = ["", None, "C1", "N", "H12", "O_3", "lbl-7", "#a", "@<TRIPOS>ATOM", "1", "0.5", "X", "Du", "****", "a.b.c",
              "verylonglabel_0123456789", "α1", "C₁", "é", "中", '"q"', "(*", "*)", "\\n"]
NAME_POOL = ["mol", "unknown", "", "a b  c", "#x", "@<TRIPOS>MOLECULE", "@<TRIPOS>ATOM", "****", "1 2 3", "NO_CHARGES",
             "name\twith\ttabs", "café β-form", "x y", "0", "-", 'say "hi"', "(* c *)", "3-methyl (2R)",
             "UNITY_ATOM_ATTR", "a" * 90]


def rand_coord(rng):
    k = rng.randrange(12)
    if k == 0:
        return rng.choice([0.0, -0.0, 1.0, -1.0, 0.5, -0.25])
    if k == 1:
        return rng.choice([-1e-9, 1e-9, -4.9e-7, 4.9e-7, -5.1e-7, 5.0e-7, -5.0e-7, 2.5e-7, 1e-6, -1e-6])
    if k == 2:   # needs more than 12 columns
        return rng.choice([1, -1]) * (10 ** rng.randrange(5, 9) + rng.randrange(10 ** 6) / 1e6)
    if k == 3:   # next to a rounding boundary of the 6th decimal
        base = rng.randrange(-10 ** 7, 10 ** 7)
        return (base + 0.5) / 1e6 + rng.choice([0.0, 1e-12, -1e-12])
    if k == 4:
        return rng.choice([99999.9999995, -99999.9999995, 999999.9999996, 0.9999995, -0.9999995, 9.9999999])
    if k == 5:
        return rng.randrange(-10 ** 9, 10 ** 9) / 1e6
    if k == 6:
        return rng.uniform(-1e4, 1e4)
    return round(rng.uniform(-30, 30), rng.choice([1, 3, 4, 6, 9]))


def rand_charge(rng, negzero=False):
    """negzero: also charges in (-0.0005, 0), which are written "-0.000" (recorded finding: the sign is lost by
    the second write); they are confined to a few cases so that they do not mask other fixed-point failures"""
    while True:
        q = rand_charge0(rng, negzero)
        if negzero or not (-0.0005 <= q < 0):
            return q


def rand_charge0(rng, negzero):
    if negzero and rng.random() < 0.3:
        return rng.choice([-1e-9, -0.0004999, -0.0001, -0.00049])
    k = rng.randrange(8)
    if k == 0:
        return 0.0
    if k == 1:
        return rng.choice([0.0005, -0.0005, 0.0015, -0.0015, 0.0025, 0.0004999, -0.0004999, 0.00050001, 1e-9, -1e-9])
    if k == 2:
        return (rng.randrange(-5000, 5000) + 0.5) / 1e3
    if k == 3:
        return rng.choice([1, -1]) * rng.randrange(10 ** 6) / 1e3
    return round(rng.uniform(-2, 2), rng.choice([2, 3, 4, 6]))


def rand_label(rng):
    k = rng.randrange(6)
    if k <= 1:
        return rng.choice(LABEL_POOL)
    if k == 2:
        return None
    n = rng.choice([1, 2, 3, 4, 7])
    return "".join(rng.choice(ASCII_TOK) for _ in range(n))


def rand_topology(rng, T, counter, n, nb):
    """atoms / bonds of one molecule; elements, atom types, geometries and bond types are cycled so that every one
    of them is used by the run."""
    ne, nt, ng, nbt = len(T["els"]), len(T["ats"]), len(T["gs"]), len(T["bts"])
    atoms = []
    for _ in range(n):
        c = counter[0]
        counter[0] += 1
        if rng.random() < 0.5:
            e, t, g = c % ne, (c // 3) % nt, (c // 7) % ng
        else:
            e, t, g = rng.randrange(ne), rng.randrange(nt), rng.randrange(ng)
        atoms.append({"e": e, "t": t, "g": g, "label": rand_label(rng)})
    bonds = []
    for _ in range(nb if n >= 2 else 0):
        i, j = rng.sample(range(n), 2)
        c = counter[1]
        counter[1] += 1
        bonds.append([i, j, c % nbt if rng.random() < 0.7 else rng.randrange(nbt)])
    return atoms, bonds


def rand_conf(rng, n, negzero=False):
    return {"coords": [[rand_coord(rng).hex() for _ in range(3)] for _ in range(n)],
            "charges": [rand_charge(rng, negzero).hex() for _ in range(n)]}


def gen_cases(ctx, T, n_cases):
    rng = ctx.rng
    counter = [0, 0]
    big = 40 if ctx.thorough else 12
    out = []
    for k in range(n_cases):
        r = k % 10
        n = rng.choice([0, 1, 2, 3, 5, 8, big]) if k % 17 else 0
        nb = rng.choice([0, 1, n, 2 * n])
        name = rng.choice(NAME_POOL) if rng.random() < 0.6 else "".join(rng.choice(ASCII_TOK + "  ") for _ in range(rng.randrange(1, 12))).strip()
        if r <= 3:
            atoms, bonds = rand_topology(rng, T, counter, n, nb)
            out.append({"kind": "mol", "route": rng.randrange(2), "name": name, "atoms": atoms, "bonds": bonds,
                        "confs": [rand_conf(rng, n, negzero=(k % 40 == 1))]})
        elif r <= 5:
            atoms, bonds = rand_topology(rng, T, counter, n, nb)
            out.append({"kind": "struct", "route": rng.randrange(2), "name": name, "atoms": atoms, "bonds": bonds, "confs": [rand_conf(rng, n)]})
        elif r <= 7:
            atoms, bonds = rand_topology(rng, T, counter, n, nb)
            nc = rng.choice([1, 2, 3, 7 if ctx.thorough else 4])
            out.append({"kind": "ens", "route": rng.randrange(2), "name": name, "atoms": atoms, "bonds": bonds,
                        "confs": [rand_conf(rng, n) for _ in range(nc)]})
        else:
            mols = []
            for _ in range(rng.choice([1, 2, 3])):
                n2 = rng.choice([0, 1, 2, 4])
                atoms, bonds = rand_topology(rng, T, counter, n2, rng.choice([0, 1, n2]))
                mols.append({"name": rng.choice(NAME_POOL), "atoms": atoms, "bonds": bonds, "confs": [rand_conf(rng, n2)]})
            out.append({"kind": "all", "wq": bool(k % 2), "mols": mols})
    return out


# ------------------------------------------------------------------ driving the implementation
def build_mol(T, d, cls, route=0):
    import numpy as np
    import molli as ml
    from molli.chem import Atom, Bond
    n = len(d["atoms"])
    if route == 0:
        atoms = [Atom(T["els"][a["e"]], label=a["label"], atype=T["ats"][a["t"]], geom=T["gs"][a["g"]]) for a in d["atoms"]]
        m = cls(atoms, name=d["name"])
    else:
        m = cls(None, n_atoms=n, name=d["name"])
        for at, a in zip(m.atoms, d["atoms"]):
            at.element = T["els"][a["e"]]
            at.atype = T["ats"][a["t"]]
            at.geom = T["gs"][a["g"]]
            at.label = a["label"]
    conf = d["confs"][0]
    m.coords = np.array([[float.fromhex(x) for x in row] for row in conf["coords"]], dtype=float).reshape(n, 3)
    if cls is ml.Molecule:
        m.atomic_charges = [float.fromhex(x) for x in conf["charges"]]
    for i, j, bt in d["bonds"]:
        m.append_bond(Bond(m.atoms[i], m.atoms[j], btype=T["bts"][bt]))
    return m


def build_ens(T, d):
    import numpy as np
    import molli as ml
    n, nc = len(d["atoms"]), len(d["confs"])
    coords = np.array([[[float.fromhex(x) for x in row] for row in c["coords"]] for c in d["confs"]], dtype=float).reshape(nc, n, 3)
    charges = np.array([[float.fromhex(x) for x in c["charges"]] for c in d["confs"]], dtype=float).reshape(nc, n)
    if d.get("route", 0) == 0:
        m = build_mol(T, d, ml.Molecule)
        e = ml.ConformerEnsemble(m, n_conformers=nc)
        e.coords = coords
        e.atomic_charges = charges
        return e
    mols = []
    for c in d["confs"]:
        d1 = dict(d)
        d1["confs"] = [c]
        mols.append(build_mol(T, d1, ml.Molecule))
    return ml.ConformerEnsemble(mols)


def cls_of(k):
    import molli as ml
    return {"mol": ml.Molecule, "struct": ml.Structure, "ens": ml.ConformerEnsemble}[k]


def build_obj(T, d):
    k = d["kind"]
    if k in ("mol", "struct"):
        return build_mol(T, d, cls_of(k), d.get("route", 0))
    if k == "ens":
        return build_ens(T, d)
    return [build_mol(T, m, cls_of("mol" if d["wq"] else "struct")) for m in d["mols"]]


def observe(d, obj):
    """-> (written text, read-back object(s), second-cycle text); raises what the implementation raises."""
    k = d["kind"]
    if k in ("mol", "struct", "ens"):
        text = obj.dumps_mol2()
        back = cls_of(k).loads_mol2(text)
        return text, back, back.dumps_mol2()
    text = "".join(o.dumps_mol2() for o in obj)
    back = cls_of("mol" if d["wq"] else "struct").loads_all_mol2(text)
    return text, back, "".join(o.dumps_mol2() for o in back)


# ------------------------------------------------------------------ write -> mutate -> write again
def desc_of_obj(T, obj, kind):
    """the public state of an object, as a case description"""
    import numpy as np
    atoms = [{"e": T["epos"][a.element], "t": T["apos"][a.atype], "g": T["gpos"][a.geom], "label": a.label} for a in obj.atoms]
    bonds = [[obj.atoms.index(b.a1), obj.atoms.index(b.a2), T["bpos"][b.btype]] for b in obj.bonds]
    n = len(atoms)
    if kind == "ens":
        C = np.asarray(obj.coords, dtype=float).reshape(obj.n_conformers, n, 3)
        Q = np.asarray(obj.atomic_charges, dtype=float).reshape(obj.n_conformers, n)
        confs = [{"coords": [[float(x).hex() for x in row] for row in C[c]], "charges": [float(q).hex() for q in Q[c]]}
                 for c in range(obj.n_conformers)]
    else:
        C = np.asarray(obj.coords, dtype=float).reshape(n, 3)
        Q = np.asarray(obj.atomic_charges, dtype=float).reshape(n) if kind == "mol" else np.zeros(n)
        confs = [{"coords": [[float(x).hex() for x in row] for row in C], "charges": [float(q).hex() for q in Q]}]
    return {"kind": kind, "route": 0, "name": obj.name, "atoms": atoms, "bonds": bonds, "confs": confs}


OPS = ["btype", "btype", "btype", "atom", "label", "coord", "charge", "name", "addbond", "delbond", "addatom", "delatom"]


def mutate(T, d, obj, rng, n_ops, log):
    """apply n_ops random edits through the public API to obj and the same edits to the description d (in place)"""
    from molli.chem import Atom, Bond
    kind = d["kind"]
    for _ in range(n_ops):
        op = rng.choice(OPS)
        n, nb, nc = len(d["atoms"]), len(d["bonds"]), len(d["confs"])
        if op == "btype" and nb:
            k, bt = rng.randrange(nb), rng.randrange(len(T["bts"]))
            obj.bonds[k].btype = T["bts"][bt]
            d["bonds"][k][2] = bt
        elif op == "atom" and n:
            i, e, t, g = rng.randrange(n), rng.randrange(len(T["els"])), rng.randrange(len(T["ats"])), rng.randrange(len(T["gs"]))
            a = obj.atoms[i]
            a.element, a.atype, a.geom = T["els"][e], T["ats"][t], T["gs"][g]
            d["atoms"][i].update(e=e, t=t, g=g)
        elif op == "label" and n:
            i, lbl = rng.randrange(n), rand_label(rng)
            obj.atoms[i].label = lbl
            d["atoms"][i]["label"] = lbl
        elif op == "coord" and n:
            c, i = rng.randrange(nc), rng.randrange(n)
            xyz = [rand_coord(rng) for _ in range(3)]
            if kind == "ens":
                obj.coords[c][i] = xyz
            else:
                obj.coords[i] = xyz
            d["confs"][c]["coords"][i] = [x.hex() for x in xyz]
        elif op == "charge" and n and kind != "struct":
            c, i, q = rng.randrange(nc), rng.randrange(n), rand_charge(rng)
            if kind == "ens":
                obj.atomic_charges[c][i] = q
            else:
                obj.atomic_charges[i] = q
            d["confs"][c]["charges"][i] = q.hex()
        elif op == "name":
            nm = rng.choice(NAME_POOL)
            obj.name = nm
            d["name"] = nm
        elif op == "addbond" and n >= 2:
            i, j = rng.sample(range(n), 2)
            bt = rng.randrange(len(T["bts"]))
            obj.append_bond(Bond(obj.atoms[i], obj.atoms[j], btype=T["bts"][bt]))
            d["bonds"].append([i, j, bt])
        elif op == "delbond" and nb:
            # Bond.__eq__ compares endpoint sets, so del_bond of one of two parallel bonds is ambiguous (C05's
            # business): only a bond whose endpoint pair is unique is deleted here
            pairs = [frozenset(b[:2]) for b in d["bonds"]]
            uniq = [k for k in range(nb) if pairs.count(pairs[k]) == 1]
            if not uniq:
                continue
            k = rng.choice(uniq)
            obj.del_bond(obj.bonds[k])
            del d["bonds"][k]
        elif op == "addatom" and kind != "ens":
            e, t, g, lbl = rng.randrange(len(T["els"])), rng.randrange(len(T["ats"])), rng.randrange(len(T["gs"])), rand_label(rng)
            xyz, q = [rand_coord(rng) for _ in range(3)], rand_charge(rng)
            a = Atom(T["els"][e], label=lbl, atype=T["ats"][t], geom=T["gs"][g])
            if kind == "mol":
                obj.add_atom(a, xyz, q)
            else:
                obj.add_atom(a, xyz)
            d["atoms"].append({"e": e, "t": t, "g": g, "label": lbl})
            d["confs"][0]["coords"].append([x.hex() for x in xyz])
            d["confs"][0]["charges"].append(q.hex())
        elif op == "delatom" and n and kind != "ens":
            i = rng.randrange(n)
            obj.del_atom(obj.atoms[i])
            del d["atoms"][i]
            d["bonds"] = [[a1 - (a1 > i), a2 - (a2 > i), bt] for a1, a2, bt in d["bonds"] if i not in (a1, a2)]
            del d["confs"][0]["coords"][i]
            del d["confs"][0]["charges"][i]
        else:
            continue
        log.append(op)


def build_rewrite(T, d, log=None):
    """write once (so that anything memoised is), optionally continue from the object READ from that text, edit, and
    hand back the edited object with the description of its current state"""
    import copy, random
    log = [] if log is None else log
    base = copy.deepcopy(d["base"])
    obj = build_obj(T, base)
    first = obj.dumps_mol2()
    if d["via_read"]:
        obj = cls_of(base["kind"]).loads_mol2(first)
        obj.dumps_mol2()
        base = desc_of_obj(T, obj, base["kind"])
    rng = random.Random(d["seed"])
    mutate(T, base, obj, rng, d["n_ops"], log)
    if d.get("twice"):          # write, edit again: every write must reflect the state at that moment
        obj.dumps_mol2()
        mutate(T, base, obj, rng, d["n_ops"], log)
    return obj, base


def gen_rewrite_cases(ctx, T, n_cases):
    rng = ctx.rng
    counter = [0, 0]
    out = []
    for k in range(n_cases):
        n = rng.choice([1, 2, 3, 5, 8])
        atoms, bonds = rand_topology(rng, T, counter, n, rng.choice([1, n, 2 * n]))
        kind = ["mol", "mol", "struct", "ens"][k % 4]
        nc = rng.choice([1, 2, 3]) if kind == "ens" else 1
        base = {"kind": kind, "route": rng.randrange(2), "name": rng.choice(NAME_POOL), "atoms": atoms, "bonds": bonds,
                "confs": [rand_conf(rng, n) for _ in range(nc)]}
        out.append({"kind": "rewrite", "base": base, "via_read": bool((k // 4) % 2), "twice": bool((k // 8) % 2),
                    "seed": rng.randrange(1 << 30), "n_ops": rng.choice([1, 2, 4, 8])})
    return out


# ------------------------------------------------------------------ the written object is not the owner of its atoms
# Every object of the families above is a freshly built owner: each atom's back-reference (Atom.parent, Atom.idx)
# points at the very object that is written.  The property speaks of ANY Molecule / Structure / ConformerEnsemble;
# molli hands out objects for which that is not so -- Substructure views (mol.heavy, mol.substructure(...), in any
# order), Conformer views (ens[k]), structures whose Atom objects were adopted by a second structure afterwards
# (copy_atoms=False is the default; each atom remembers the LAST adopter, or nothing once that one is collected),
# and new owners cloned / concatenated from any of these.  A case of this family is a small expression ("how") over
# one base object; `view_eval` evaluates it twice in lock step: on the implementation (-> the object to write) and on
# the description (-> what the text must say), without asking the implementation what it thinks.
def _single(desc):
    assert desc["kind"] in ("mol", "struct"), desc["kind"]
    return desc


def sub_desc(src, sel):
    """description of src.substructure(sel): atoms picked in the order given, the bonds of src whose two ends were
    picked, in src's order, numbered by position in the view; a Substructure is written by the Structure writer"""
    src = _single(src)
    pos = {}
    for k, i in enumerate(sel):
        pos.setdefault(i, k)
    conf = src["confs"][0]
    return {"kind": "struct", "route": 0, "name": None, "atoms": [src["atoms"][i] for i in sel],
            "bonds": [[pos[i], pos[j], bt] for i, j, bt in src["bonds"] if i in pos and j in pos],
            "confs": [{"coords": [conf["coords"][i] for i in sel], "charges": [(0.0).hex() for _ in sel]}],
            "model": {"kind": "view", "parent": src, "sel": list(sel)}}


def clone_desc(src, kind):
    src = _single(src)
    n = len(src["atoms"])
    conf = src["confs"][0]
    charges = list(conf["charges"]) if (kind == "mol" and src["kind"] == "mol") else [(0.0).hex()] * n
    return {"kind": kind, "route": 0, "name": src["name"], "atoms": list(src["atoms"]), "bonds": [list(b) for b in src["bonds"]],
            "confs": [{"coords": list(conf["coords"]), "charges": charges}]}


def heavy_sel(T, src):
    from molli.chem import Element
    return [i for i, a in enumerate(src["atoms"]) if T["els"][a["e"]] != Element.H]


def view_eval(T, how, base_obj, base_desc, keep):
    """-> (object, description, tag); `keep` collects objects that must stay alive (adopters)."""
    import gc, copy, pickle
    import numpy as np
    import molli as ml
    from molli.chem import Bond
    op = how["op"]
    if op == "base":
        return base_obj, base_desc, "owner"
    if op == "concat":
        parts = [view_eval(T, h, base_obj, base_desc, keep) for h in how["srcs"]]
        res = ml.Structure.concatenate(*[p[0] for p in parts])
        atoms, bonds, coords, off = [], [], [], 0
        for _, dsc, _ in parts:
            dsc = _single(dsc)
            atoms += dsc["atoms"]
            bonds += [[i + off, j + off, bt] for i, j, bt in dsc["bonds"]]
            coords += dsc["confs"][0]["coords"]
            off += len(dsc["atoms"])
        return res, {"kind": "struct", "route": 0, "name": None, "atoms": atoms, "bonds": bonds,
                     "confs": [{"coords": coords, "charges": [(0.0).hex()] * off}]}, "concat"
    obj, dsc, tag = view_eval(T, how["src"], base_obj, base_desc, keep)
    inner = "" if tag == "owner" else "(" + tag.split("(")[0] + ")"
    if op == "conformer":
        assert dsc["kind"] == "ens"
        c = how["conf"]
        d1 = {"kind": "mol", "route": 0, "name": dsc["name"], "atoms": dsc["atoms"], "bonds": dsc["bonds"], "confs": [dsc["confs"][c]],
              "model": {"kind": "conf", "ens": dsc, "conf": c}}
        return obj[c], d1, "conformer" + inner
    if op == "sub":
        sel = how["sel"]
        v = obj.substructure([obj.atoms[i] for i in sel] if how.get("by") == "atom" else list(sel))
        return v, sub_desc(dsc, sel), "substructure" + inner
    if op == "heavy":
        return obj.heavy, sub_desc(dsc, heavy_sel(T, dsc)), "heavy" + inner
    if op == "clone":
        via = how["via"]
        if via == "Molecule":
            return ml.Molecule(obj), clone_desc(dsc, "mol"), "Molecule-clone" + inner
        if via == "Structure":
            return ml.Structure(obj), clone_desc(dsc, "struct"), "Structure-clone" + inner
        d1 = {k: v for k, v in dsc.items() if k != "model"}
        if via == "deepcopy":
            return copy.deepcopy(obj), d1, "deepcopy" + inner
        if via == "pickle":
            return pickle.loads(pickle.dumps(obj)), d1, "pickle" + inner
        raise ValueError(via)
    if op == "adopt":
        # a second structure takes (some of) the same Atom objects, in another order
        cls = cls_of(how["cls"])
        mine = [obj.atoms[i] for i in how["order"]]
        yc = np.array([[float.fromhex(x) for x in row] for row in how["yconf"]["coords"]], dtype=float).reshape(len(mine), 3)
        if how["route"] == "ctor":
            y = cls(list(mine), name=how["yname"])
            y.coords = yc
        else:
            y = cls(None, n_atoms=0, name=how["yname"])
            for a, xyz in zip(mine, yc):
                if how["cls"] == "mol":
                    y.add_atom(a, xyz, 0.0)
                else:
                    y.add_atom(a, xyz)
        if how["cls"] == "mol":
            y.atomic_charges = [float.fromhex(x) for x in how["yconf"]["charges"]]
        for i, j, bt in how["ybonds"]:
            y.append_bond(Bond(y.atoms[i], y.atoms[j], btype=T["bts"][bt]))
        if how["write"] == "y":
            keep.append(obj)
            yd = {"kind": how["cls"], "route": 0, "name": how["yname"], "atoms": [dsc["atoms"][i] for i in how["order"]],
                  "bonds": [list(b) for b in how["ybonds"]], "confs": [how["yconf"]]}
            return y, yd, "adopter" + inner
        if how["drop"]:
            del y
            gc.collect()
            return obj, dsc, "atoms-adopted-elsewhere-then-dropped" + inner
        keep.append(y)
        return obj, dsc, "atoms-adopted-elsewhere" + inner
    raise ValueError(op)


def build_view(T, d, keep):
    import copy
    base = copy.deepcopy(d["base"])
    obj = build_obj(T, base)
    if d.get("prewrite"):
        obj.dumps_mol2()
    w, eff, tag = view_eval(T, d["how"], obj, base, keep)
    keep.append(obj)
    return w, eff, tag


def view_tag(how):
    """the tag view_eval would give, from the expression alone (for the distribution)"""
    op = how["op"]
    if op == "base":
        return "owner"
    if op == "concat":
        return "concat"
    t = {"conformer": "conformer", "sub": "substructure", "heavy": "heavy"}.get(op)
    if op == "clone":
        t = how["via"] + ("-clone" if how["via"] in ("Molecule", "Structure") else "")
    if op == "adopt":
        t = "adopter" if how["write"] == "y" else "atoms-adopted-elsewhere" + ("-then-dropped" if how["drop"] else "")
    it = view_tag(how["src"])
    return t + ("" if it == "owner" else "(" + it.split("(")[0] + ")")


def rand_sel(rng, n, allow_full=True):
    """a selection of atom positions: never empty when n > 0; subsets, non-prefixes, reversed and shuffled orders"""
    if n == 0:
        return []
    k = rng.randrange(6)
    idx = list(range(n))
    if k == 0 and allow_full:
        sel = idx[::-1]                                   # everything, reversed
    elif k == 1 and allow_full:
        sel = idx[:]
        rng.shuffle(sel)                                  # everything, permuted
    elif k == 2:
        sel = idx[rng.randrange(n):]                      # a suffix (not a prefix: positions shift)
    elif k == 3:
        sel = sorted(rng.sample(idx, rng.randrange(1, n + 1)))     # a subset in parent order
    else:
        sel = rng.sample(idx, rng.randrange(1, n + 1))    # a subset in any order
    return sel


def gen_view_cases(ctx, T, n_cases):
    from molli.chem import Element
    rng = ctx.rng
    counter = [0, 0]
    eH = T["epos"][Element.H]
    out = []
    kinds = ["sub", "heavy", "adopt-x", "conformer", "sub", "adopt-x", "clone", "subsub", "adopt-y", "concat", "sub-of-conf", "clone-of-view"]
    for k in range(n_cases):
        what = kinds[k % len(kinds)]
        n = rng.choice([2, 3, 4, 5, 8, 12 if ctx.thorough else 8])
        atoms, bonds = rand_topology(rng, T, counter, n, rng.choice([n, 2 * n, 3 * n]))
        if what in ("heavy", "clone-of-view") or rng.random() < 0.3:     # hydrogens, preferably in front of heavy atoms
            for i in range(n):
                if rng.random() < (0.6 if i < n // 2 else 0.25):
                    atoms[i]["e"] = eH
        bkind = "ens" if what in ("conformer", "sub-of-conf") else ["mol", "struct", "mol", "ens"][rng.randrange(4)] if what == "adopt-x" \
            else rng.choice(["mol", "struct"])
        nc = rng.choice([1, 2, 3]) if bkind == "ens" else 1
        base = {"kind": bkind, "route": rng.randrange(2), "name": rng.choice(NAME_POOL), "atoms": atoms, "bonds": bonds,
                "confs": [rand_conf(rng, n) for _ in range(nc)]}
        B = {"op": "base"}

        def adopt(src, write, n_src=n):
            order = rand_sel(rng, n_src)
            cls = rng.choice(["struct", "mol"])
            m = len(order)
            yb = []
            if m >= 2:
                for _ in range(rng.choice([0, 1, m])):
                    i, j = rng.sample(range(m), 2)
                    yb.append([i, j, rng.randrange(len(T["bts"]))])
            yconf = rand_conf(rng, m)
            if cls == "struct":
                yconf["charges"] = [(0.0).hex()] * m
            return {"op": "adopt", "src": src, "order": order, "cls": cls, "route": rng.choice(["ctor", "add_atom"]), "yname": "adopter",
                    "ybonds": yb, "yconf": yconf, "write": write, "drop": write == "x" and rng.random() < 0.3}

        if what == "sub":
            how = {"op": "sub", "src": B, "sel": rand_sel(rng, n), "by": rng.choice(["index", "atom"])}
        elif what == "heavy":
            how = {"op": "heavy", "src": B}
        elif what == "subsub":
            s1 = rand_sel(rng, n)
            how = {"op": "sub", "src": {"op": "sub", "src": B, "sel": s1, "by": "index"}, "sel": rand_sel(rng, len(s1)), "by": rng.choice(["index", "atom"])}
        elif what == "conformer":
            how = {"op": "conformer", "src": B, "conf": rng.randrange(nc)}
        elif what == "sub-of-conf":
            cf = {"op": "conformer", "src": B, "conf": rng.randrange(nc)}
            how = {"op": "heavy", "src": cf} if rng.random() < 0.3 else {"op": "sub", "src": cf, "sel": rand_sel(rng, n), "by": rng.choice(["index", "atom"])}
        elif what == "adopt-x":
            how = adopt(B, "x")
            if bkind != "ens" and rng.random() < 0.3:      # ... and a view of the structure whose atoms now point elsewhere
                how = {"op": "sub", "src": how, "sel": rand_sel(rng, n), "by": rng.choice(["index", "atom"])}
        elif what == "adopt-y":
            how = adopt(B, "y")
        elif what == "clone":
            how = {"op": "clone", "src": B, "via": rng.choice(["Molecule", "Structure", "deepcopy", "pickle"])}
            if rng.random() < 0.5:                          # the clone's source is adopted elsewhere first
                how["src"] = adopt(B, "x")
        elif what == "clone-of-view":
            inner = {"op": "heavy", "src": B} if rng.random() < 0.4 else {"op": "sub", "src": B, "sel": rand_sel(rng, n), "by": "index"}
            how = {"op": "clone", "src": inner, "via": rng.choice(["Molecule", "Structure"])}
        else:
            # Structure.concatenate reads .charge / .mult of its arguments, which a Substructure does not have (not a
            # matter of this property): views are promoted to structures first
            parts = [B, {"op": "clone", "via": "Structure", "src": {"op": "sub", "src": B, "sel": rand_sel(rng, n), "by": "index"}}]
            if rng.random() < 0.5:
                parts.reverse()
            if rng.random() < 0.3:
                parts.append({"op": "clone", "via": "Molecule", "src": {"op": "heavy", "src": B}})
            how = {"op": "concat", "srcs": parts}
        out.append({"kind": "view", "base": base, "how": how, "prewrite": rng.random() < 0.25})
    return out


# ------------------------------------------------------------------ what was done with the object BEFORE it is written
# Every object of the families above is written straight after it was built / edited / derived.  The property speaks
# of writing ANY Molecule / Structure / ConformerEnsemble: nothing that merely LOOKS at the object beforehand may show
# in the text -- a loop over the conformers that was left early (break / exception / next(iter(ens)) / zip / any),
# loops that are nested, interleaved or still suspended while the write runs, an earlier (complete or failed) write,
# indexing and slicing, conformer / substructure views obtained and kept, reads of properties, str(), ==, copies,
# lookups.  A case of this family: base object, a history of such look-only operations, the writer entry point
# (dumps_mol2, dump_mol2 into a StringIO / an open file / a stream that already holds other text, molli.dumps,
# molli.dump into a stream / a path, one conformer after the other), the reader entry point, a second history on
# the object read back and the entry point of the second write.  For ensembles every conformer an iteration hands
# out is recorded ("trace") and compared in Coq with Model/Mol2History.v: each iter() owns its cursor.
ENS_OPS = ["loop-break", "loop-raise", "loop-full", "loop-nested", "peek", "hold", "hold", "zip", "any", "list", "index", "slice",
           "conf-read", "conf-write", "props", "str", "write", "write-fail", "xyz", "copy", "eq", "interleave"]
MOL_OPS = ["props", "str", "write", "write-fail", "xyz", "copy", "eq", "atoms-loop", "lookup", "heavy", "sub-write", "clone"]
W_ENTRIES = ["dumps", "dump-stringio", "dump-file", "dump-after-text", "ml.dumps", "ml.dump-stream", "ml.dump-path"]
W_ENTRIES_ENS = W_ENTRIES + ["loop-dumps", "index-dumps", "loop-dump-stream"]
R_ENTRIES = ["loads", "load-stringio", "ml.loads", "ml.load-path"]


class _LeaveLoop(Exception):
    pass


class _HistoryOpRaised(Exception):
    pass


class _FailingStream:
    """a stream that accepts `ok` writes and then fails (disk full)"""
    def __init__(self, ok):
        self.ok = ok

    def write(self, s):
        if self.ok <= 0:
            raise OSError("no space left on device")
        self.ok -= 1
        return len(s)


def write_via(obj, kind, entry, scratch):
    """the mol2 text of obj through one writer entry point"""
    import io
    import molli as ml
    if entry == "dumps":
        return obj.dumps_mol2()
    if entry == "dump-stringio":
        st = io.StringIO()
        obj.dump_mol2(st)
        return st.getvalue()
    if entry == "dump-after-text":
        st = io.StringIO()
        st.write("# written earlier\n@<TRIPOS>MOLECULE\nother\n0 0 0 0 0\nSMALL\nUSER_CHARGES\n\n@<TRIPOS>ATOM\n@<TRIPOS>BOND\n")
        at = st.tell()
        obj.dump_mol2(st)
        return st.getvalue()[at:]
    if entry == "ml.dumps":
        return ml.dumps(obj, "mol2")
    if entry == "ml.dump-stream":
        st = io.StringIO()
        ml.dump(obj, st, "mol2")
        return st.getvalue()
    if entry in ("dump-file", "ml.dump-path"):
        path = os.path.join(scratch, "w.mol2")
        if entry == "dump-file":
            with open(path, "w", encoding="utf-8", newline="") as f:
                obj.dump_mol2(f)
        else:
            if os.path.exists(path):
                os.remove(path)
            enc = all(ord(c) < 128 for c in (obj.name or "")) and all(ord(c) < 128 for a in obj.atoms for c in (a.label or ""))
            if not enc:              # molli.dump opens the path with the locale's encoding: not this property
                return write_via(obj, kind, "ml.dump-stream", scratch)
            ml.dump(obj, path, mode="w")
        with open(path, encoding="utf-8", newline="") as f:
            return f.read()
    assert kind == "ens", entry
    if entry == "loop-dumps":
        return "".join(c.dumps_mol2() for c in obj)
    if entry == "index-dumps":
        return "".join(obj[k].dumps_mol2() for k in range(obj.n_conformers))
    if entry == "loop-dump-stream":
        st = io.StringIO()
        for c in obj:
            c.dump_mol2(st)
        return st.getvalue()
    raise ValueError(entry)


def read_via(kind, text, entry, scratch):
    import io
    import molli as ml
    cls = cls_of(kind)
    if entry == "ml.loads" and kind != "struct":
        return ml.loads(text, "mol2", otype="ensemble" if kind == "ens" else "molecule")
    if entry == "ml.load-path" and kind != "struct" and all(ord(c) < 128 for c in text):
        path = os.path.join(scratch, "r.mol2")
        with open(path, "w", encoding="utf-8", newline="") as f:
            f.write(text)
        return ml.load(path, otype="ensemble" if kind == "ens" else "molecule")
    if entry == "load-stringio":
        return cls.load_mol2(io.StringIO(text))
    return cls.loads_mol2(text)


def conf_matches(desc, c):
    """which conformers of the description the Conformer c shows (by coordinates and charges, exactly)"""
    import numpy as np
    n = len(desc["atoms"])
    X = [[float(x).hex() for x in row] for row in np.asarray(c.coords, dtype=float).reshape(n, 3)]
    Q = [float(q).hex() for q in np.asarray(c.atomic_charges, dtype=float).reshape(n)]
    return [k for k, cf in enumerate(desc["confs"]) if cf["coords"] == X and cf["charges"] == Q]


def apply_history(T, obj, desc, ops, keep, scratch, trace):
    """run look-only operations on obj.  `trace` (ensembles): (operation, observation) Coq terms for Model/Mol2History.v"""
    import copy, pickle, io
    import numpy as np
    import molli as ml
    kind = desc["kind"]
    n_it = [sum(1 for t in trace if t[0] == "HNew")]
    nc = len(desc["confs"])
    n = len(desc["atoms"])

    def seen(idx, c):
        trace.append((f"(HNext {idx})", "(OYield [" + "; ".join(str(k) for k in conf_matches(desc, c)) + "])"))

    def new_it():
        trace.append(("HNew", "ONone"))
        n_it[0] += 1
        return n_it[0] - 1

    def loop(at, how, inner=None):
        """a real `for` statement over the ensemble, left at iteration `at` (None: runs to its end)"""
        idx = new_it()
        try:
            for i, c in enumerate(obj):
                seen(idx, c)
                if inner is not None and i == inner[0]:
                    loop(inner[1], inner[2])
                if i == at:
                    if how == "break":
                        break
                    raise _LeaveLoop()
            else:
                trace.append((f"(HNext {idx})", "OStop"))
        except _LeaveLoop:
            pass

    def step(it, idx):
        try:
            c = next(it)
        except StopIteration:
            trace.append((f"(HNext {idx})", "OStop"))
            return None
        seen(idx, c)
        return c

    def look(o):
        for nm in ("name", "n_atoms", "n_bonds", "n_conformers", "formula", "molecular_weight", "elements", "coords", "atomic_charges",
                   "atoms", "bonds", "attachment_points", "n_attachment_points", "coords_as_list", "weights", "charge", "mult", "attrib"):
            try:
                v = getattr(o, nm)
                if nm in ("atoms", "bonds", "elements"):
                    len(v)
                    for x in v:          # a loop over the atom / bond list that is left early
                        break
            except Exception:
                pass

    for op in ops:
        o = op["op"]
        if o in ("loop-break", "loop-raise"):
            loop(op["at"] % nc, "break" if o == "loop-break" else "raise")
        elif o == "loop-full":
            loop(None, None)
        elif o == "loop-nested":
            loop(op["at"] % nc if op["at"] is not None else None, op["how"], (op["iat"] % nc, op["inner_at"] % nc if op["inner_at"] is not None else None, op["ihow"]))
        elif o == "peek":
            idx = new_it()
            seen(idx, next(iter(obj)))
        elif o == "hold":            # an iteration that is still suspended when the write runs
            idx = new_it()
            it = iter(obj)
            for _ in range(op["n"] % (nc + 2)):
                step(it, idx)
            keep.append(it)
        elif o == "interleave":      # two iterations advanced in turn
            ia, ib = new_it(), new_it()
            a, b = iter(obj), iter(obj)
            for w in op["turns"]:
                step(a if w == 0 else b, ia if w == 0 else ib)
            if op["keep"]:
                keep.extend([a, b])
        elif o == "zip":
            idx = new_it()
            for c, _ in zip(obj, range(op["n"] % (nc + 1))):
                seen(idx, c)
            # zip asked the ensemble first: one more conformer was taken than pairs were made (unless the ensemble ended)
            trace.append((f"(HNext {idx})", "OAny"))
        elif o == "any":
            idx = new_it()
            got = []
            any(got.append(c) or True for c in obj)
            for c in got:
                seen(idx, c)
        elif o == "list":
            idx = new_it()
            for c in list(obj):
                seen(idx, c)
            trace.append((f"(HNext {idx})", "OStop"))
        elif o == "index":
            vs = []
            for k in op["ks"]:
                k = k % nc
                c = obj[k - nc] if op.get("neg") else obj[k]
                trace.append((f"(HIndex {k})", "(OYield [" + "; ".join(str(j) for j in conf_matches(desc, c)) + "])"))
                vs.append(c)
            if op.get("keep"):
                keep.extend(vs)
        elif o == "slice":
            vs = obj[op["a"] % (nc + 1):op["b"] % (nc + 2)]
            trace.append(("HLook", "ONone"))
            if op.get("keep"):
                keep.extend(vs)
        elif o == "conf-read":
            c = obj[op["k"] % nc]
            look(c)
            str(c), repr(c)
            trace.append(("HLook", "ONone"))
        elif o == "conf-write":
            write_via(obj[op["k"] % nc], "mol", op["entry"], scratch)
            trace.append(("HLook", "ONone"))
        elif o == "props":
            look(obj)
            trace.append(("HLook", "ONone"))
        elif o == "str":
            str(obj), repr(obj)
            trace.append(("HLook", "ONone"))
        elif o == "eq":
            try:
                obj == obj, obj != copy.copy(obj), hash(obj)
            except Exception:
                pass
            trace.append(("HLook", "ONone"))
        elif o == "write":
            t = write_via(obj, kind, op["entry"], scratch)
            trace.append(("HWrite", "(OText " + cq_lines(t) + ")") if kind == "ens" and len(t) < 20000 else ("HLook", "ONone"))
        elif o == "write-fail":      # an earlier write that died half way
            try:
                obj.dump_mol2(_FailingStream(op["ok"]))
            except OSError:
                pass
            trace.append(("HLook", "ONone"))
        elif o == "xyz":
            try:
                obj.dumps_xyz()
            except Exception:
                pass
            trace.append(("HLook", "ONone"))
        elif o == "copy":
            via = op["via"]
            c = copy.deepcopy(obj) if via == "deepcopy" else pickle.loads(pickle.dumps(obj)) if via == "pickle" else copy.copy(obj)
            if op.get("keep"):
                keep.append(c)
            trace.append(("HLook", "ONone"))
        elif o == "clone":
            c = (ml.Molecule if op["via"] == "Molecule" else ml.Structure)(obj)
            c.dumps_mol2()
            if op.get("keep"):
                keep.append(c)
        elif o == "atoms-loop":
            for a in obj.atoms:
                if obj.atoms.index(a) == op["at"] % max(n, 1):
                    break
            it = iter(obj.bonds)
            next(it, None)
            keep.append(it)
        elif o == "lookup" and n:
            i = op["at"] % n
            a = obj.get_atom(i)
            obj.get_atom_index(a), obj.index_atom(a), list(obj.bonds_with_atom(a)), obj.n_bonds_with_atom(a)
            g = obj.connected_atoms(a)
            next(iter(g), None)
            g2 = obj.yield_atoms_by_element(a.element)
            next(g2, None)
            keep.append(g2)
            try:
                next(obj.yield_bfs(a), None)
            except Exception:
                pass
        elif o == "heavy":
            v = obj.heavy
            v.n_atoms, v.n_bonds, v.coords
            if op.get("keep"):
                keep.append(v)
        elif o == "sub-write" and n:
            sel = [i % n for i in op["sel"]]
            v = obj.substructure(sel)
            write_via(v, "struct", "dumps", scratch)
            if op.get("keep"):
                keep.append(v)


def rand_history(rng, kind, nc, n):
    ops = []
    for _ in range(rng.choice([1, 1, 1, 2, 3, 5])):
        o = rng.choice(ENS_OPS if kind == "ens" else MOL_OPS)
        op = {"op": o}
        if o in ("loop-break", "loop-raise", "atoms-loop", "lookup"):
            op["at"] = rng.randrange(8)
        elif o == "loop-nested":
            op.update(at=rng.choice([None, rng.randrange(8)]), how=rng.choice(["break", "raise"]), iat=rng.randrange(8),
                      inner_at=rng.choice([None, rng.randrange(8)]), ihow=rng.choice(["break", "raise"]))
        elif o in ("hold", "zip"):
            op["n"] = rng.randrange(10)
        elif o == "interleave":
            op.update(turns=[rng.randrange(2) for _ in range(rng.randrange(1, 2 * nc + 3))], keep=rng.random() < 0.5)
        elif o == "index":
            op.update(ks=[rng.randrange(8) for _ in range(rng.randrange(1, 4))], neg=rng.random() < 0.3, keep=rng.random() < 0.5)
        elif o == "slice":
            op.update(a=rng.randrange(8), b=rng.randrange(8), keep=rng.random() < 0.5)
        elif o in ("conf-read",):
            op["k"] = rng.randrange(8)
        elif o == "conf-write":
            op.update(k=rng.randrange(8), entry=rng.choice(W_ENTRIES[:5]))
        elif o == "write":
            op["entry"] = rng.choice(W_ENTRIES_ENS if kind == "ens" else W_ENTRIES)
        elif o == "write-fail":
            op["ok"] = rng.randrange(0, 12) if rng.random() < 0.5 else rng.randrange(12, 60)
        elif o == "copy":
            op.update(via=rng.choice(["deepcopy", "pickle", "copy"]), keep=rng.random() < 0.5)
        elif o == "clone":
            op.update(via=rng.choice(["Molecule", "Structure"]), keep=rng.random() < 0.5)
        elif o == "heavy":
            op["keep"] = rng.random() < 0.5
        elif o == "sub-write":
            op.update(sel=rng.sample(range(64), rng.randrange(1, 4)), keep=rng.random() < 0.5)
        ops.append(op)
    return ops


def gen_history_cases(ctx, T, n_cases):
    rng = ctx.rng
    counter = [0, 0]
    out = []
    for k in range(n_cases):
        kind = ["ens", "ens", "mol", "ens", "struct", "ens"][k % 6]
        n = rng.choice([1, 2, 3, 5]) if k % 23 else 0
        atoms, bonds = rand_topology(rng, T, counter, n, rng.choice([0, 1, n]))
        nc = rng.choice([1, 2, 3, 4, 4, 7 if ctx.thorough else 5]) if kind == "ens" else 1
        base = {"kind": kind, "route": rng.randrange(2), "name": rng.choice(NAME_POOL), "atoms": atoms, "bonds": bonds,
                "confs": [rand_conf(rng, n) for _ in range(nc)]}
        if kind == "ens" and rng.random() < 0.15 and nc > 1:          # two conformers that look the same
            base["confs"][-1] = json.loads(json.dumps(base["confs"][0]))
        went = W_ENTRIES_ENS if kind == "ens" else W_ENTRIES
        out.append({"kind": "history", "base": base, "pre": rand_history(rng, kind, nc, n),
                    "entry": went[k % len(went)] if rng.random() < 0.7 else rng.choice(went),
                    "rentry": rng.choice(R_ENTRIES),
                    "mid": rand_history(rng, kind, nc, n) if rng.random() < 0.6 else [],
                    "entry2": rng.choice(went), "via_read": rng.random() < 0.2})
    return out


def observe_history(T, d, scratch, trace):
    """-> (object description, written text, read-back object, second-cycle text)"""
    import copy
    base = copy.deepcopy(d["base"])
    obj = build_obj(T, base)
    if d.get("via_read"):            # the history happens to an object that was itself read from text
        obj = cls_of(base["kind"]).loads_mol2(obj.dumps_mol2())
        base = desc_of_obj(T, obj, base["kind"])
    keep = []
    try:
        apply_history(T, obj, base, d["pre"], keep, scratch, trace)
    except Exception as ex:          # an operation of the history itself failed: not a matter of this property
        raise _HistoryOpRaised(f"{type(ex).__name__}: {ex}") from ex
    text = write_via(obj, base["kind"], d["entry"], scratch)
    back = read_via(base["kind"], text, d["rentry"], scratch)
    keep2 = []
    if d["mid"]:
        bdesc = desc_of_obj(T, back, base["kind"])
        try:
            apply_history(T, back, bdesc, d["mid"], keep2, scratch, [])
        except Exception as ex:
            raise _HistoryOpRaised(f"{type(ex).__name__}: {ex}") from ex
    text2 = write_via(back, base["kind"], d["entry2"], scratch)
    del keep, keep2
    return base, text, back, text2


def history_tag(d):
    ops = sorted({o["op"] for o in d["pre"] + d["mid"]})
    if ops:
        return "+".join(ops)
    odd = [f"{k}={d[k]}" for k, plain in (("entry", "dumps"), ("rentry", "loads"), ("entry2", "dumps")) if d[k] != plain]
    return "nothing" + "".join(":" + x for x in odd)


SCRATCH = [None]


def scratch_dir():
    import tempfile
    if SCRATCH[0] is None or not os.path.isdir(SCRATCH[0]):
        SCRATCH[0] = tempfile.mkdtemp(prefix="c07_hist_")
    return SCRATCH[0]


def shrink_history(d):
    """simpler cases first: one operation of the history at a time, plain entry points"""
    out = []
    for part in ("pre", "mid"):
        for o in d[part]:
            d1 = dict(d, pre=[], mid=[], entry="dumps", entry2="dumps", rentry="loads")
            d1[part] = [o]
            out.append(d1)
    for key, plain in (("entry", "dumps"), ("entry2", "dumps"), ("rentry", "loads")):
        if d[key] != plain:
            out.append(dict(d, pre=[], mid=[], **{key: d[key]}, **{k2: p2 for k2, p2 in (("entry", "dumps"), ("entry2", "dumps"), ("rentry", "loads")) if k2 != key}))
    return out


def hist_term(T, desc, trace, text):
    atoms = [f"(({a['e']}, {a['t']}, {a['g']}), {cq_s(a['label'] or '')})" for a in desc["atoms"]]
    bonds = [f"(rbond {i} {j} {bt})" for i, j, bt in desc["bonds"]]
    confs = [cq_list(cq_cpos(c, i) for i in range(len(desc["atoms"]))) for c in desc["confs"]]
    inp = f"(rens {cq_s(desc['name'])} {cq_list(atoms)} {cq_list(bonds)} {cq_list(confs)})"
    tr = cq_list(f"({a}, {b})" for a, b in trace)
    return f"(CHist {inp}\n  {tr}\n  {cq_lines(text)})"


# ------------------------------------------------------------------ Coq terms
def cq_input_atom(T, a, conf, i, wq):
    lbl = a["label"] or ""
    xs = [fx_of_float(float.fromhex(x), 6) for x in conf["coords"][i]]
    q = float.fromhex(conf["charges"][i])
    q = fx_of_float(q if q != 0 else 0.0, 3) if wq else (False, 0)       # `c or 0.0`: a zero charge has no sign
    return xs, q, f"(ratom ({a['e']}, {a['t']}, {a['g']}) {cq_s(lbl)} {cq_fx(xs[0])} {cq_fx(xs[1])} {cq_fx(xs[2])} {cq_fx(q)})"


def cq_input_mol(T, d, wq, conf=None):
    conf = conf or d["confs"][0]
    atoms = [cq_input_atom(T, a, conf, i, wq)[2] for i, a in enumerate(d["atoms"])]
    bonds = [f"(rbond {i} {j} {bt})" for i, j, bt in d["bonds"]]
    return f"(rmol {cq_s(d['name'])} {cq_list(atoms)} {cq_list(bonds)})"


def cq_cpos(conf, i):
    xs = [fx_of_float(float.fromhex(x), 6) for x in conf["coords"][i]]
    q = float.fromhex(conf["charges"][i])
    q = fx_of_float(q if q != 0 else 0.0, 3)
    return f"(mk_cpos {cq_fx(xs[0])} {cq_fx(xs[1])} {cq_fx(xs[2])} {cq_fx(q)})"


def obs_atom(T, a):
    return (T["epos"].get(a.element, 9999), T["apos"].get(a.atype, 9999), T["gpos"].get(a.geom, 9999))


def cq_back_mol(T, m, wq, notes):
    import numpy as np
    atoms = []
    for i, a in enumerate(m.atoms):
        e, t, g = obs_atom(T, a)
        xs = []
        for v in np.asarray(m.coords, dtype=float)[i]:
            fx, ok = fx_of_readback(v, 6)
            if not ok:
                notes.append("coordinate read back off the 1e-6 grid: %r" % v)
            xs.append(fx)
        if wq:
            q, ok = fx_of_readback(np.asarray(m.atomic_charges, dtype=float)[i], 3)
            if not ok:
                notes.append("charge read back off the 1e-3 grid")
        else:
            q = (False, 0)
        atoms.append(f"(ratom ({e}, {t}, {g}) {cq_s(a.label if isinstance(a.label, str) else '')} "
                     f"{cq_fx(xs[0])} {cq_fx(xs[1])} {cq_fx(xs[2])} {cq_fx(q)})")
    bonds = [f"(rbond {m.atoms.index(b.a1)} {m.atoms.index(b.a2)} {T['bpos'].get(b.btype, 9999)})" for b in m.bonds]
    return f"(rmol {cq_s(m.name if isinstance(m.name, str) else '')} {cq_list(atoms)} {cq_list(bonds)})"


def cq_back_ens(T, e, notes):
    import numpy as np
    atoms = [f"(({obs_atom(T, a)[0]}, {obs_atom(T, a)[1]}, {obs_atom(T, a)[2]}), {cq_s(a.label if isinstance(a.label, str) else '')})"
             for a in e.atoms]
    bonds = [f"(rbond {e.atoms.index(b.a1)} {e.atoms.index(b.a2)} {T['bpos'].get(b.btype, 9999)})" for b in e.bonds]
    confs = []
    C = np.asarray(e.coords, dtype=float)
    Q = np.asarray(e.atomic_charges, dtype=float)
    for c in range(e.n_conformers):
        row = []
        for i in range(e.n_atoms):
            xs = [fx_of_readback(v, 6)[0] for v in C[c][i]]
            q = fx_of_readback(Q[c][i], 3)[0]
            row.append(f"(mk_cpos {cq_fx(xs[0])} {cq_fx(xs[1])} {cq_fx(xs[2])} {cq_fx(q)})")
        confs.append(cq_list(row))
    return f"(rens {cq_s(e.name if isinstance(e.name, str) else '')} {cq_list(atoms)} {cq_list(bonds)} {cq_list(confs)})"


def cq_lines(text):
    ls = text.split("\n")
    if ls and ls[-1] == "":
        ls = ls[:-1]
    else:
        ls = ls + ["<<no final newline>>"] if text else []
    return "[" + ";\n   ".join(cq_s(l) for l in ls) + "]"


def case_term(T, d, text, back):
    notes = []
    k = d["kind"]
    if k in ("mol", "struct") and d["name"] is None:
        # the written object has no name of its own (a view): the model is told the name it was written under
        d = dict(d, name=(text.split("\n") + ["", "", ""])[2].strip())
    mdl = d.get("model")
    if mdl and mdl["kind"] == "view":
        # Substructure: the model derives the written object from the parent and the selection (Model/Mol2Text.v sub_view)
        wq = k == "mol"
        par = dict(mdl["parent"], name=mdl["parent"]["name"] or "")
        sel = "[" + "; ".join(str(i) for i in mdl["sel"]) + "]"
        t = (f"(CView {'true' if wq else 'false'} {cq_s(d['name'])} {cq_input_mol(T, par, wq)} {sel}\n  {cq_lines(text)}\n"
             f"  {cq_back_mol(T, back, wq, notes)})")
    elif mdl and mdl["kind"] == "conf":
        e = mdl["ens"]
        atoms = [f"(({a['e']}, {a['t']}, {a['g']}), {cq_s(a['label'] or '')})" for a in e["atoms"]]
        bonds = [f"(rbond {i} {j} {bt})" for i, j, bt in e["bonds"]]
        confs = [cq_list(cq_cpos(c, i) for i in range(len(e["atoms"]))) for c in e["confs"]]
        inp = f"(rens {cq_s(e['name'])} {cq_list(atoms)} {cq_list(bonds)} {cq_list(confs)})"
        t = f"(CConf {inp} {mdl['conf']}\n  {cq_lines(text)}\n  {cq_back_mol(T, back, True, notes)})"
    elif k in ("mol", "struct"):
        wq = k == "mol"
        t = f"(CMol {'true' if wq else 'false'} {cq_input_mol(T, d, wq)}\n  {cq_lines(text)}\n  {cq_back_mol(T, back, wq, notes)})"
    elif k == "ens":
        atoms = [f"(({a['e']}, {a['t']}, {a['g']}), {cq_s(a['label'] or '')})" for a in d["atoms"]]
        bonds = [f"(rbond {i} {j} {bt})" for i, j, bt in d["bonds"]]
        confs = [cq_list(cq_cpos(c, i) for i in range(len(d["atoms"]))) for c in d["confs"]]
        inp = f"(rens {cq_s(d['name'])} {cq_list(atoms)} {cq_list(bonds)} {cq_list(confs)})"
        t = f"(CEns {inp}\n  {cq_lines(text)}\n  {cq_back_ens(T, back, notes)})"
    else:
        wq = d["wq"]
        ins = cq_list(cq_input_mol(T, m, wq) for m in d["mols"])
        outs = cq_list(cq_back_mol(T, m, wq, notes) for m in back)
        t = f"(CAll {'true' if wq else 'false'} {ins}\n  {cq_lines(text)}\n  {outs})"
    return t, notes


# ------------------------------------------------------------------ the oracle: the property on the implementation alone
EXPRESSIBLE = {"Single", "Double", "Triple", "Aromatic", "Amide", "Dummy", "NotConnected", "Unknown"}


def judge_mol(T, d, conf, back, wq, tag=""):
    """compare one written molecule description with what was read back; yields (signature, text)."""
    import numpy as np
    if d["name"] is not None and back.name != d["name"]:      # None: the written object has no name of its own (a view)
        yield ("C07:name", f"{tag}name {d['name']!r} read back as {back.name!r}")
    n = len(d["atoms"])
    if back.n_atoms != n:
        yield ("C07:atom-count", f"{tag}{n} atoms written, {back.n_atoms} read back")
        return
    C = np.asarray(back.coords, dtype=float).reshape(n, 3)
    for i, a in enumerate(d["atoms"]):
        b = back.atoms[i]
        if b.element != T["els"][a["e"]]:
            yield ("C07:element", f"{tag}atom {i}: element {T['els'][a['e']].name} read back as {b.element!r}")
        if a["label"] and b.label != a["label"]:
            yield ("C07:label", f"{tag}atom {i}: label {a['label']!r} read back as {b.label!r}")
        for ax in range(3):
            x = float.fromhex(conf["coords"][i][ax])
            if not abs(C[i][ax] - x) <= 1e-6 * (1 + 1e-9) + abs(x) * 1e-15:
                yield ("C07:coords", f"{tag}atom {i} axis {ax}: {x!r} read back as {C[i][ax]!r}")
        if wq:
            q = float.fromhex(conf["charges"][i])
            qb = float(np.asarray(back.atomic_charges, dtype=float).reshape(-1)[i]) if tag == "" else None
            if qb is not None and not abs(qb - q) <= 1e-3 * (1 + 1e-9):
                yield ("C07:charges", f"{tag}atom {i}: charge {q!r} read back as {qb!r}")
    if back.n_bonds != len(d["bonds"]):
        yield ("C07:bond-count", f"{tag}{len(d['bonds'])} bonds written, {back.n_bonds} read back")
        return
    for k, (i, j, bt) in enumerate(d["bonds"]):
        b = back.bonds[k]
        if (back.atoms.index(b.a1), back.atoms.index(b.a2)) != (i, j):
            yield ("C07:bond-endpoints", f"{tag}bond {k}: ({i},{j}) read back as ({back.atoms.index(b.a1)},{back.atoms.index(b.a2)})")
        name = T["bts"][bt].name
        if name in EXPRESSIBLE and b.btype != T["bts"][bt]:
            yield (f"C07:bond-type:{name}", f"{tag}bond {k}: type {name} read back as {b.btype!r}")


def fixed_point_sig(t1, t2):
    """classify a text that is not a fixed point by the first differing token"""
    for l1, l2 in zip(t1.split("\n"), t2.split("\n")):
        if l1 != l2:
            for ti, (a, b) in enumerate(zip(l1.split(), l2.split())):
                if a != b:
                    if a.startswith("-0.") and not a.strip("-0.") and b == a[1:] and ti == len(l1.split()) - 1 == 8:
                        return "C07:fixed-point:negative-zero-charge", f"charge token {a!r} became {b!r}"
                    if "." in a and not a.replace(".", "").replace("-", "").isdigit():
                        return "C07:fixed-point:suffix=" + a.split(".", 1)[1], f"token {a!r} became {b!r}"
                    return "C07:fixed-point:text", f"token {a!r} became {b!r}"
            return "C07:fixed-point:text", f"line {l1!r} became {l2!r}"
    return "C07:fixed-point:text", "number of lines changed"


def judge(T, d, log=None):
    """-> (violations [(sig, text)], text or None, back or None, description of the state that was written)"""
    import numpy as np
    import traceback
    pre = suffix = ""
    obs = None
    if d["kind"] == "history":
        tag, trace = history_tag(d), []
        pre = f"after {tag} (written through {d['entry']}, read through {d['rentry']}, written again through {d['entry2']}): "
        suffix = ":after=" + tag
        try:
            d, *obs = observe_history(T, d, scratch_dir(), trace)
        except _HistoryOpRaised as ex:
            return [], None, None, {"_skipped": str(ex)}
        except Exception as ex:
            tb = "".join(traceback.format_tb(ex.__traceback__)[-4:])
            where = "write" if "dump" in tb else "read"
            return [(f"C07:{where}-error:{type(ex).__name__}{suffix}", f"{pre}raised {type(ex).__name__}: {ex}")], None, None, None
        d["_trace"] = trace
        obj = None
    elif d["kind"] == "rewrite":
        try:
            obj, d = build_rewrite(T, d, log)
        except Exception as ex:
            return [(f"C07:edit-error:{type(ex).__name__}", f"write / edit / write again raised {type(ex).__name__}: {ex}")], None, None, None
        pre = "after write + edit: "
    elif d["kind"] == "view":
        keep = []            # adopters / parents stay alive until the text is written and read
        try:
            obj, d, tag = build_view(T, d, keep)
        except Exception as ex:
            return [(f"C07:view-error:{type(ex).__name__}", f"building the object to write raised {type(ex).__name__}: {ex}")], None, None, None
        pre = f"written object = {tag}: "
        suffix = ":written=" + tag
    else:
        obj = build_obj(T, d)
    try:
        text, back, text2 = obs if obs is not None else observe(d, obj)
    except Exception as ex:  # the property promises that own output reads back
        where = "write" if "dump" in "".join(traceback.format_tb(ex.__traceback__)[-3:]) else "read"
        return [(f"C07:{where}-error:{type(ex).__name__}{suffix}", f"{pre}{d['kind']} round trip raised {type(ex).__name__}: {ex}")], None, None, d
    out = []
    k = d["kind"]
    if k in ("mol", "struct"):
        out += list(judge_mol(T, d, d["confs"][0], back, k == "mol"))
    elif k == "all":
        if len(back) != len(d["mols"]):
            out.append(("C07:molecule-count", f"{len(d['mols'])} molecules written, {len(back)} read back"))
        else:
            for m, b in zip(d["mols"], back):
                out += list(judge_mol(T, m, m["confs"][0], b, d["wq"]))
    else:
        if back.n_conformers != len(d["confs"]):
            out.append(("C07:conformers", f"{len(d['confs'])} conformers written, {back.n_conformers} read back"))
        else:
            out += list(judge_mol(T, d, d["confs"][0], back[0], True, tag="conformer 0: "))
            C = np.asarray(back.coords, dtype=float)
            Q = np.asarray(back.atomic_charges, dtype=float)
            for c, conf in enumerate(d["confs"]):
                for i in range(len(d["atoms"])):
                    for ax in range(3):
                        x = float.fromhex(conf["coords"][i][ax])
                        if not abs(C[c][i][ax] - x) <= 1e-6 * (1 + 1e-9) + abs(x) * 1e-15:
                            out.append(("C07:conformers", f"conformer {c} atom {i} axis {ax}: {x!r} read back as {C[c][i][ax]!r}"))
                    q = float.fromhex(conf["charges"][i])
                    if not abs(Q[c][i] - q) <= 1e-3 * (1 + 1e-9):
                        out.append(("C07:charges", f"conformer {c} atom {i}: charge {q!r} read back as {Q[c][i]!r}"))
    if text2 != text:
        sig, what = fixed_point_sig(text, text2)
        out.append((sig, "second write differs from the first: " + what))
    return [(sg + suffix, pre + wh) for sg, wh in out], text, back, d


# ------------------------------------------------------------------ search on the table (when a table theorem breaks)
def tok_suffix(tok):
    return tok.split(".", 1)[1] if "." in tok else ""


def table_search(T, limit=40):
    """Re-judge every triple / bond type on what the implementation returned; yields (sig, text, replay)."""
    ng = len(T["gs"])
    seen = {}
    for e, row in enumerate(T["rows"]):
        for p, k in enumerate(row):
            t, g = divmod(p, ng)
            tok = T["tokens"][k]
            s = T["settbl"][k]
            desc = f"Atom({T['els'][e].name}, atype={T['ats'][t].name}, geom={T['gs'][g].name}) writes {tok!r}"
            rp = {"kind": "triple", "e": e, "t": t, "g": g}
            if not tok or any(c.isspace() for c in tok):
                sig, what = "C07:token-malformed", desc + ", not a blank-free token"
            elif s is None:
                sig, what = "C07:token-rejected:" + tok_suffix(tok), desc + ", which set_mol2_type rejects"
            elif s[0] != e:
                sig, what = "C07:element-changed:" + tok_suffix(tok), desc + f", read back as element {T['els'][s[0]].name}"
            elif T["rows"][s[0]][s[1] * ng + s[2]] != k:
                sig, what = ("C07:fixed-point:suffix=" + tok_suffix(tok),
                             desc + f", read back and written again as {T['tokens'][T['rows'][s[0]][s[1] * ng + s[2]]]!r}")
            else:
                continue
            if seen.setdefault(sig, 0) < 2:
                seen[sig] += 1
                yield sig, what, rp
    for b, k in enumerate(T["bget"]):
        tok = T["btokens"][k]
        s = T["bset"][k]
        rp = {"kind": "bond", "b": b}
        name = T["bts"][b].name
        if s is None:
            yield "C07:bond-token-rejected:" + tok, f"BondType.{name} writes {tok!r}, which set_mol2_type rejects", rp
        elif T["bget"][s] != k:
            yield "C07:bond-fixed-point:" + tok, f"BondType.{name} writes {tok!r}, read back and written again as {T['btokens'][T['bget'][s]]!r}", rp
        elif name in EXPRESSIBLE and s != b:
            yield "C07:bond-type:" + name, f"BondType.{name} writes {tok!r}, read back as {T['bts'][s].name}", rp
    for k, got in enumerate(T["get_after"]):
        if got != k:
            e, t, g = T["first"][k]
            gt = T["tokens"][got] if got < len(T["tokens"]) else "<other>"
            yield ("C07:atom-writer-stale", f"an atom that already wrote a token and is then set to ({e.name}, {t.name}, {g.name}) writes {gt!r}, "
                   f"a fresh one writes {T['tokens'][k]!r}", {"kind": "after", "which": "get_after", "k": k})
            break
    for b, got in enumerate(T["bget_after"]):
        if got != T["bget"][b]:
            gt = T["btokens"][got] if got < len(T["btokens"]) else "<other>"
            yield ("C07:bond-writer-stale:" + T["bts"][b].name, f"a bond that already wrote a token and is then set to BondType.{T['bts'][b].name} writes {gt!r}, "
                   f"a fresh one writes {T['btokens'][T['bget'][b]]!r}", {"kind": "after", "which": "bget_after", "k": b})
    for k, got in enumerate(T["bset_after"]):
        if got != T["bset"][k]:
            yield ("C07:bond-reader-stale:" + T["btokens"][k], f"set_mol2_type({T['btokens'][k]!r}) on a bond that was given this token before and changed "
                   f"by hand since leaves {None if got is None else T['bts'][got].name}, a fresh bond becomes "
                   f"{None if T['bset'][k] is None else T['bts'][T['bset'][k]].name}", {"kind": "after", "which": "bset_after", "k": k})
    spec = {"Single": "1", "Double": "2", "Triple": "3", "Aromatic": "ar", "Amide": "am", "Dummy": "du", "Unknown": "un", "NotConnected": "nc"}
    for name, tok in spec.items():
        b = [i for i, x in enumerate(T["bts"]) if x.name == name]
        if not b or T["btokens"][T["bget"][b[0]]] != tok:
            yield "C07:bond-type:" + name, f"BondType.{name} is not written as the mol2 token {tok!r}", {"kind": "bond", "b": b[0] if b else -1}
        elif tok not in T["btokens"] or T["bset"][T["btokens"].index(tok)] != b[0]:
            yield "C07:bond-type:" + name, f"mol2 bond token {tok!r} is not read as BondType.{name}", {"kind": "bondtok", "tok": tok, "want": name}


SYBYL = None


def sybyl_search(T):
    """the hand-written SYBYL list of Model/Mol2Text.v, re-judged in Python on the implementation"""
    import re
    src = open(os.path.join(vlib.COQ, "Model", "Mol2Text.v")).read()
    body = src[src.index("Definition sybyl_spec"):]
    body = body[:body.index("]%string.")]
    for e, t, g, k in re.findall(r'\("([^"]+)", "([^"]+)", "([^"]+)", "([^"]+)"\)', body):
        try:
            ei = [x.name for x in T["els"]].index(e)
            ti = [x.name for x in T["ats"]].index(t)
            gi = [x.name for x in T["gs"]].index(g)
        except ValueError:
            yield "C07:sybyl:" + k, f"enumeration member of ({e}, {t}, {g}) no longer exists", {"kind": "sybyl", "tok": k}
            continue
        tok = T["tokens"][T["rows"][ei][ti * len(T["gs"]) + gi]]
        if tok != k:
            yield "C07:sybyl:" + k, f"Atom({e}, atype={t}, geom={g}) writes {tok!r}, SYBYL type is {k!r}", {"kind": "triple", "e": ei, "t": ti, "g": gi}
        elif T["settbl"][T["tindex"][k]] != (ei, ti, gi):
            s = T["settbl"][T["tindex"][k]]
            got = None if s is None else (T["els"][s[0]].name, T["ats"][s[1]].name, T["gs"][s[2]].name)
            yield "C07:sybyl:" + k, f"SYBYL type {k!r} is read as {got}, not ({e}, {t}, {g})", {"kind": "triple", "e": ei, "t": ti, "g": gi}


def judge_triple(T, e, t, g):
    """the type-vocabulary clauses of the property on one atom, run on the implementation"""
    from molli.chem import Atom
    a = Atom(T["els"][e], atype=T["ats"][t], geom=T["gs"][g])
    tok = a.get_mol2_type()
    d = Atom()
    try:
        d.set_mol2_type(tok)
    except Exception as ex:
        return [("C07:token-rejected:" + tok_suffix(tok), f"{tok!r} rejected by set_mol2_type: {type(ex).__name__}")]
    out = []
    if d.element != a.element:
        out.append(("C07:element-changed:" + tok_suffix(tok), f"{tok!r} read back as element {d.element!r}"))
    if d.get_mol2_type() != tok:
        out.append(("C07:fixed-point:suffix=" + tok_suffix(tok), f"{tok!r} read back and written again as {d.get_mol2_type()!r}"))
    return out


HEADER = ("From Coq Require Import String List NArith.\nFrom Molli Require Import Common.StrSplit Common.Dec6 Model.Mol2Text.\n"
          "Import ListNotations.\nLocal Open Scope N_scope.\n")


HEADER_H = HEADER + "From Molli Require Import Model.Mol2History.\n"


def case_key(d):
    return vlib.hashlib.sha1(json.dumps(d, sort_keys=True).encode()).hexdigest()[:16]


def n_atoms_of(d):
    if d["kind"] in ("rewrite", "view", "history"):
        return len(d["base"]["atoms"])
    return sum(len(m["atoms"]) for m in d["mols"]) if d["kind"] == "all" else len(d["atoms"])


def zero_conformer_probe(T):
    """recorded finding: an ensemble without conformers writes the empty text, which cannot be read back"""
    import molli as ml
    e = ml.ConformerEnsemble(ml.Molecule(None, n_atoms=2, name="noconf"), n_conformers=0)
    if e.n_conformers != 0:
        e = ml.ConformerEnsemble(None, n_conformers=0, n_atoms=2, name="noconf")
    if e.n_conformers != 0:
        return None
    try:
        back = ml.ConformerEnsemble.loads_mol2(e.dumps_mol2())
        if back.n_conformers == 0 and back.name == "noconf":
            return None
        return f"ensemble without conformers read back with {back.n_conformers} conformer(s), name {back.name!r}"
    except Exception as ex:
        return f"ensemble without conformers writes {e.dumps_mol2()!r}; reading it raises {type(ex).__name__}: {ex}"


def run(ctx, rep):
    rep.rule = ("layer (a): every (element x atom type x geometry) triple and every bond type, exhaustively; layer (b): random "
                "molecules / structures / ensembles / multi-molecule texts through dumps_mol2 + loads_mol2, write -> edit -> write "
                "again, and objects that do not own their atoms (Substructure and Conformer views, atoms adopted by a second "
                "structure, clones and concatenations of these), and objects with a history of look-only operations before the write "
                "(unfinished / nested / suspended iterations, earlier writes, indexing, views, property reads, copies) through every "
                "writer entry point; a case is "
                "non-trivial when it has at least one atom; distinct by its full description")
    rep.trusted += ["T-emitter harness/c07.py (tabulate/gen_types: CPython executing Atom.get_mol2_type, Atom.set_mol2_type, "
                    "Bond.get_mol2_type, Bond.set_mol2_type over their whole finite domain)",
                    "CPython's correctly rounded float formatting / float() (the harness derives the decimal value of every "
                    "float with exact rational arithmetic and the model text must equal molli's text)",
                    "correspondence harness: construction through the public API, canonicalisation of the read-back object",
                    "io.StringIO line iteration, str.strip / str.split / str.format padding are modelled (Common/StrSplit.v), "
                    "numpy array assignment is not"]
    rep.assumptions += ["labels are blank-free, names are one line and survive str.strip() (the property's side conditions)",
                        "coordinates / charges are finite doubles; an ensemble has at least one conformer (recorded finding)"]
    known = {k["signature"] for k in vlib.load_known() if k.get("property") == "C07" and k.get("status") == "known"}
    T = tabulate()
    with vlib.CoqLock():
        vlib.write_if_changed(GEN, gen_types(T))
    ne, nt, ng = len(T["els"]), len(T["ats"]), len(T["gs"])
    for e in range(ne):
        for p in range(nt * ng):
            rep.evaluations += 1
    rep.nontrivial.add(f"table:{ne}x{nt}x{ng}")
    rep.count("table:triples", ne * nt * ng)
    rep.count("table:tokens", len(T["tokens"]))
    rep.count("table:bond-types", len(T["bts"]))
    rep.exhaustive = True
    rep.extra["domain"] = {"elements": ne, "atom_types": nt, "geometries": ng, "tokens": len(T["tokens"]), "bond_types": len(T["bts"])}
    ok, out, where = vlib.build_props(ctx, rep, "C07")
    found = False
    if not ok:
        for sig, what, rp in itertools.chain(table_search(T), sybyl_search(T)):
            found = found or sig not in known
            rep.violate(sig, what, rp)

    # ---- tie H
    n_cases = 6000 if ctx.thorough else 600
    descs = (gen_cases(ctx, T, n_cases) + gen_rewrite_cases(ctx, T, 1000 if ctx.thorough else 120)
             + gen_view_cases(ctx, T, 1800 if ctx.thorough else 180)
             + gen_history_cases(ctx, T, 2400 if ctx.thorough else 300))
    SCRATCH[0] = ctx.sub("hist")
    terms, kept = [], []
    hterms, hkept = [], []
    for d in descs:
        oplog = []
        vs, text, back, d_eff = judge(T, d, oplog)
        for op in oplog:
            rep.count("edit:" + op)
        key = case_key(d) if n_atoms_of(d) > 0 else None
        rep.case(key=key, sample={"kind": d["kind"], "atoms": n_atoms_of(d), "text_head": (text or "")[:120]} if key else None)
        rep.count("kind:" + d["kind"])
        rep.count("atoms:0" if n_atoms_of(d) == 0 else "atoms:>0")
        if d["kind"] == "rewrite":
            rep.count("rewrite:" + ("read-then-edit" if d["via_read"] else "built-then-edit"))
        elif d["kind"] == "view":
            rep.count("written:" + view_tag(d["how"]))
            if d_eff is not None:
                sel = (d_eff.get("model") or {}).get("sel")
                if sel is not None:
                    rep.count("view-selection:" + ("prefix-of-parent" if sel == list(range(len(sel))) else "not-a-prefix"))
                rep.count("view-bonds:0" if not d_eff.get("bonds") else "view-bonds:>0")
        elif d["kind"] == "history":
            for o in d["pre"]:
                rep.count("history:" + o["op"])
            for o in d["mid"]:
                rep.count("history-before-second-write:" + o["op"])
            rep.count("history-object:" + d["base"]["kind"])
            if d_eff is not None and "_skipped" in d_eff:
                rep.count("history-skipped:an-operation-of-the-history-raised")
            rep.count("write-entry:" + d["entry"])
            rep.count("read-entry:" + d["rentry"])
            rep.count("second-write-entry:" + d["entry2"])
            tr = (d_eff or {}).get("_trace") or []
            if d["base"]["kind"] == "ens":
                # an iteration that was started and not run to its end when the write happens
                started = sum(1 for a, _ in tr if a == "HNew")
                ended = sum(1 for _, b in tr if b == "OStop")
                rep.count("history-iterations:" + ("none" if not started else "all-finished" if ended >= started else "some-unfinished"))
            if vs:                      # the smallest history that shows the same: one operation, plain entry points
                for d2 in shrink_history(d):
                    for sig, what in judge(T, d2)[0]:
                        rep.violate(sig, what, {"kind": "case", "desc": d2})
        elif d["kind"] != "all":
            rep.count("bonds:0" if not d["bonds"] else "bonds:>0")
            for c in d["confs"]:
                for row in c["coords"]:
                    for x in row:
                        v = float.fromhex(x)
                        if len("%.6f" % v) > 12:
                            rep.count("coord:wider-than-12")
                        if v == 0 and math.copysign(1, v) < 0:
                            rep.count("coord:minus-zero")
        for sig, what in vs:
            found = found or sig not in known     # a recorded finding does not explain a broken obligation
            rep.violate(sig, what, {"kind": "case", "desc": d})
        if text is not None:
            t, notes = case_term(T, d_eff, text, back)
            terms.append(t)
            kept.append(d)
            if d["kind"] == "history" and d_eff["kind"] == "ens":
                hterms.append(hist_term(T, d_eff, d_eff["_trace"], text))
                hkept.append(d)
            for nnote in notes:
                rep.count("note:" + nnote.split(":")[0])
    used = {"e": set(), "t": set(), "g": set(), "b": set()}
    for d in descs:
        for m in (d["mols"] if d["kind"] == "all" else [d["base"]] if d["kind"] in ("rewrite", "view", "history") else [d]):
            for a in m["atoms"]:
                used["e"].add(a["e"]); used["t"].add(a["t"]); used["g"].add(a["g"])
            for b in m["bonds"]:
                used["b"].add(b[2])
    rep.extra["coverage_text_cases"] = {"elements": len(used["e"]), "atom_types": len(used["t"]), "geometries": len(used["g"]),
                                        "bond_types": len(used["b"])}
    # the model's whitespace predicate against CPython's (str.split / str.strip use the same test as str.isspace)
    ws = [c for c in range(0x110000) if chr(c).isspace()]
    rep.case(key="pyws-table")
    if ws and ws[-1] >= 12289:
        rep.violate("broken:pyws", f"CPython treats U+{ws[-1]:04X} as whitespace, the model (Common/StrSplit.v pyws) does not",
                    {"obligation": "pyws"}, no_input=True)
    terms.append("(CWs [" + "; ".join(str(c) for c in ws if c < 12289) + "])")
    kept.append({"kind": "pyws"})
    if ok:
        bad = vlib.run_shards(ctx, rep, "c07", HEADER, "check_case", terms, shard=60, case_type="case")
        if bad is None:
            vlib.broken_obligation(rep, "corr_c07", "correspondence shard did not compile: " + str(rep.extra.get("shard_errors", ""))[-1500:], found)
        elif bad:
            rep.extra["mismatching_cases"] = bad[:50]
            # the oracle already judged every case; widen around the mismatching ones before giving up
            hit = found
            for i in bad[:20]:
                for d2 in ([] if kept[i]["kind"] in ("pyws", "rewrite", "view", "history") else neighbourhood(ctx, kept[i])):
                    for sig, what in judge(T, d2)[0]:
                        hit = hit or sig not in known
                        rep.violate(sig, what, {"kind": "case", "desc": d2})
            vlib.broken_obligation(rep, "corr_c07", f"{len(bad)} case(s) where model and molli disagree on the written text or the "
                                   f"read-back fields, first: {json.dumps(kept[bad[0]])[:1500]}", hit)
        # what every iteration over an ensemble handed out before the write, and the text, against Model/Mol2History.v
        badh = vlib.run_shards(ctx, rep, "c07h", HEADER_H, "check_hist", hterms, shard=60, case_type="hcase") if hterms else []
        if badh is None:
            vlib.broken_obligation(rep, "corr_c07h", "correspondence shard did not compile: " + str(rep.extra.get("shard_errors", ""))[-1500:], found)
        elif badh:
            rep.extra["mismatching_history_cases"] = badh[:50]
            hit = found
            for i in badh[:20]:
                for d2 in [hkept[i]] + shrink_history(hkept[i]):
                    for sig, what in judge(T, d2)[0]:
                        hit = hit or sig not in known
                        rep.violate(sig, what, {"kind": "case", "desc": d2})
            vlib.broken_obligation(rep, "corr_c07h", f"{len(badh)} case(s) where the conformers handed out by iterations over an ensemble, or the "
                                   f"text written after them, differ from the model (every iter() owns its cursor; looking changes nothing), "
                                   f"first: {json.dumps(hkept[badh[0]])[:1500]}", hit)
    else:
        vlib.broken_obligation(rep, "C07_props", f"{where}\n{out[-1500:]}", found)

    z = zero_conformer_probe(T)
    if z:
        rep.violate("C07:ensemble:zero-conformers", z, {"kind": "zero-conformers"})


def neighbourhood(ctx, d):
    """simpler variants of a case: one atom at a time, no bonds, plain coordinates"""
    out = []
    ms = d["mols"] if d["kind"] == "all" else [d]
    for m in ms:
        for i, a in enumerate(m["atoms"]):
            out.append({"kind": "mol", "route": 0, "name": m["name"], "atoms": [a], "bonds": [],
                        "confs": [{"coords": [c["coords"][i]], "charges": [c["charges"][i]]} for c in m["confs"][:1]]})
    return out[:30]


def replay(ctx, data):
    import shutil
    try:
        return replay0(ctx, data)
    finally:
        if SCRATCH[0] and os.path.basename(SCRATCH[0]).startswith("c07_hist_"):
            shutil.rmtree(SCRATCH[0], ignore_errors=True)
            SCRATCH[0] = None


def replay0(ctx, data):
    T = tabulate()
    out = []
    k = data.get("kind")
    if k == "case":
        for sig, what in judge(T, data["desc"])[0]:
            out.append(vlib.Violation(sig, what))
    elif k == "triple":
        for sig, what in judge_triple(T, data["e"], data["t"], data["g"]):
            out.append(vlib.Violation(sig, what))
        for sig, what, rp in sybyl_search(T):
            if rp.get("kind") == "triple" and (rp["e"], rp["t"], rp["g"]) == (data["e"], data["t"], data["g"]):
                out.append(vlib.Violation(sig, what))
    elif k in ("bond", "bondtok", "sybyl", "after"):
        for sig, what, rp in itertools.chain(table_search(T), sybyl_search(T)):
            if rp == data:
                out.append(vlib.Violation(sig, what))
    elif k == "zero-conformers":
        z = zero_conformer_probe(T)
        if z:
            out.append(vlib.Violation("C07:ensemble:zero-conformers", z))
    return out
