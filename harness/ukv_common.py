"""Shared driver for C02/C03: histories over raw UKVFile handles on one path.

A history is a list of ops (Open i m | Close i | Put i k v | Get i k | Keys i | Crash n) respecting
the session discipline (a handle open for append is the only open handle; several readers may be
open together).  `drive` runs it on the real UKVFile, returns observed results + final file bytes and
the verdict of an independent Python oracle (abstract insert-only dict).
"""
import os, struct, io
import vlib

KEYS = [b"", b"a", b"b", b"ab", bytes([0, 255, 10]), b"k" * 255, b"K" * 256]
VLENS = [0, 1, 3, 17, 300]


def pat(seed, n):
    return bytes((seed + 7 * i) % 256 for i in range(n))


def cq_bytes(b):
    return "[" + ";".join(map(str, b)) + "]"


class Val:
    """A value named by (seed, len) so that Coq expands it with `pat`; seed == -1: all zeros (a torn block of
    zeros looks like a run of empty records, the adversarial case for a recovering scan)."""
    def __init__(self, seed, n):
        self.seed, self.n = seed, n
        self.b = pat(seed, n) if seed >= 0 else bytes(n)

    def coq(self):
        if self.n <= 24:
            return cq_bytes(self.b)
        return f"(pat {self.seed} {self.n})" if self.seed >= 0 else f"(zeros {self.n})"


def gen_history(rng, nh=3, maxlen=25, crash=False, big=False, views=False):
    """Disciplined random history (as python tuples).  Mostly-valid stream: ops go to open handles with
    probability 0.85 (reads to any open handle, puts to the writer), the rest exercise the error paths
    (ops on closed handles, puts through readers)."""
    ops = []
    state = ["closed"] * nh          # closed / r / a   (of the handle object; None object = closed)
    n = rng.randint(1, maxlen)
    tried = []                       # keys some put was attempted with (reads prefer them)
    while len(ops) < n:
        open_hs = [j for j in range(nh) if state[j] != "closed"]
        writer = [j for j in range(nh) if state[j] == "a"]
        r = rng.random()
        if crash and r < 0.06:
            ops.append(("crash", rng.random()))     # fraction of the uncommitted tail that survives
            state = ["closed"] * nh
            continue
        if not open_hs or r < 0.25:
            i = rng.randrange(nh)
            w = rng.random() < 0.6
            others_open = [j for j in range(nh) if j != i and state[j] != "closed"]
            if w and others_open:
                i = others_open[0]
                ops.append(("close", i)); state[i] = "closed"
                continue
            if (not w) and any(state[j] == "a" for j in range(nh) if j != i):
                continue
            ops.append(("open", i, "a" if w else "r") + (("enter",) if views and rng.random() < 0.3 else ()))
            if state[i] == "closed":
                state[i] = "a" if w else "r"
            continue
        if r < 0.40:
            i = rng.choice(open_hs) if rng.random() < 0.85 else rng.randrange(nh)
            ops.append(("close", i) + (("exit",) if views and rng.random() < 0.4 else ())); state[i] = "closed"
            continue
        if views and r < 0.46:
            # a pickled copy of a closed handle object replaces another closed handle (what multiprocessing does)
            cl = [j for j in range(nh) if state[j] == "closed"]
            if len(cl) >= 2:
                i, j = rng.sample(cl, 2)
                ops.append(("dup", i, j))
            continue
        kind = rng.choice(["put", "put", "put", "get", "get", "keys"] + (["items", "values", "keys", "hdr"] if views else []))
        if kind == "hdr":
            ops.append(("hdr", rng.randrange(nh)))
            continue
        if kind in ("items", "values"):
            i = rng.choice(open_hs) if rng.random() < 0.9 else rng.randrange(nh)
            ops.append((kind, i))
            continue
        if kind == "put":
            i = writer[0] if writer and rng.random() < 0.85 else rng.randrange(nh)
            fresh = [x for x in KEYS if x not in tried]
            k = rng.choice(fresh) if fresh and rng.random() < 0.75 else rng.choice(KEYS)
            tried.append(k)
            l = rng.choice(VLENS + ([70000] if big and rng.random() < 0.1 else []))
            ops.append(("put", i, k, Val(rng.randrange(256) if rng.random() < 0.8 else -1, l)) + (("item",) if views and rng.random() < 0.4 else ()))
        else:
            i = rng.choice(open_hs) if rng.random() < 0.85 else rng.randrange(nh)
            gk = rng.choice(tried) if tried and rng.random() < 0.75 else rng.choice(KEYS)
            ops.append(((kind, i, gk) + (("item",) if views and rng.random() < 0.4 else ())) if kind == "get" else ("keys", i))
    return ops


def op_coq(o, crash_n=None):
    if o[0] == "open":
        return f"Open {o[1]} {'MA' if o[2] == 'a' else 'MR'}"
    if o[0] == "close":
        return f"Close {o[1]}"
    if o[0] == "put":
        return f"Put {o[1]} {cq_bytes(o[2])} {o[3].coq()}"
    if o[0] == "get":
        return f"Get {o[1]} {cq_bytes(o[2])}"
    if o[0] == "keys":
        return f"Keys {o[1]}"
    if o[0] == "items":
        return f"V:VItems {o[1]}"
    if o[0] == "values":
        return f"V:VValues {o[1]}"
    if o[0] == "dup":
        return f"V:VDup {o[1]} {o[2]}"
    if o[0] == "hdr":
        return f"V:VHeader {o[1]}"
    return f"Crash {crash_n}"


def parse_file(data, bof):
    """Independent parser of the on-disk format: list of (key, value, pos, end); None if malformed."""
    out, pos = [], bof
    while pos < len(data):
        if pos + 5 > len(data):
            return out, data[pos:]
        kl, vl = struct.unpack(">BI", data[pos:pos + 5])
        if pos + 5 + kl + vl > len(data):
            return out, data[pos:]
        out.append((data[pos + 5:pos + 5 + kl], data[pos + 5 + kl:pos + 5 + kl + vl], pos, pos + 5 + kl + vl))
        pos += 5 + kl + vl
    return out, b""


def _rd(path):
    """the harness's own reads/writes of the library file: opened and closed at once, never through the hooked open"""
    import io
    f = getattr(io.open, "__wrapped_orig__", io.open)
    with f(path, "rb") as fh:
        return fh.read()


def _wr(path, data):
    import io
    f = getattr(io.open, "__wrapped_orig__", io.open)
    with f(path, "wb") as fh:
        fh.write(data)


def code_tie(ctx, rep):
    """The translator tie (see Props/C02code.v): regenerate Gen/UKVCode.v from MOLLI_REPO's ukvfile.py and re-check that every
    translated method body equals its model function.  -> (status, ok, out, where); status 'refused' = the source left the
    translator's grammar: nothing is decided by this tie on this run, the differential tie stands alone (recorded in the evidence)."""
    import ukv_translate as T
    path = os.path.join(vlib.COQ, "Gen", "UKVCode.v")
    try:
        txt = T.translate(vlib.REPO)
    except T.Refuse as e:
        rep.extra["translator_tie"] = {"status": "refused", "reason": str(e)[:300],
                                       "consequence": "no theorem of Props/C02code.v was re-checked against this source; the model is tied to it by the differential correspondence only"}
        rep.count("translator-tie:refused")
        return "refused", True, "", None
    except SyntaxError as e:
        rep.extra["translator_tie"] = {"status": "refused", "reason": "ukvfile.py does not parse: " + str(e)[:200]}
        return "refused", True, "", None
    with vlib.CoqLock():
        changed = vlib.write_if_changed(path, txt)
    ok, out, where = vlib.build_props(ctx, rep, "C02code")
    rep.extra["translator_tie"] = {"status": "checked" if ok else "broken", "generated_file_changed": changed,
                                   "methods": ukv_methods()}
    rep.count("translator-tie:" + ("checked" if ok else "broken"))
    rep.trusted.append("harness/ukv_translate.py (syntactic Python->MiniPy translator) and the semantics coq/Model/MiniPy.v, coq/Model/MiniPyB.v")
    if not ok:
        return "broken", ok, out, where
    # second layer: the buffering layer of backends.py (needs the first: its calls carry the translated UKVFile methods)
    try:
        btxt = T.translate_backend(vlib.REPO)
    except (T.Refuse, SyntaxError) as e:
        rep.extra["translator_tie_backend"] = {"status": "refused", "reason": str(e)[:300],
                                               "consequence": "Props/C02bcode.v was not re-checked against this source; Model/Backend.v is tied to it by the differential correspondence only"}
        rep.count("translator-tie-backend:refused")
        return "checked", True, out, where
    with vlib.CoqLock():
        bchanged = vlib.write_if_changed(os.path.join(vlib.COQ, "Gen", "BackendCode.v"), btxt)
    bok, bout, bwhere = vlib.build_props(ctx, rep, "C02bcode")
    rep.extra["translator_tie_backend"] = {"status": "checked" if bok else "broken", "generated_file_changed": bchanged, "methods": list(T.BMETHODS)}
    rep.count("translator-tie-backend:" + ("checked" if bok else "broken"))
    if not bok:
        return "broken", False, bout, bwhere
    return "checked", True, out, where


def ukv_methods():
    import ukv_translate as T
    return list(T.METHODS)


class open_hook:
    """While active, every BINARY file object opened on `path` -- through pathlib.Path.open, io.open or the builtin open, whichever
    the library uses -- is passed through `wrap(fileobj)`.  Nothing else is touched."""
    def __init__(self, path, wrap):
        self.path, self.wrap = os.path.realpath(path), wrap

    def __enter__(self):
        import io, builtins
        self.orig = io.open
        orig, me = self.orig, self

        def opener(file, mode="r", *a, **k):
            f = orig(file, mode, *a, **k)
            try:
                same = "b" in mode and os.path.realpath(os.fspath(file)) == me.path
            except TypeError:
                same = False
            return me.wrap(f) if same else f
        opener.__wrapped_orig__ = orig
        io.open = opener
        builtins.open = opener
        return self

    def __exit__(self, *a):
        import io, builtins
        io.open = self.orig
        builtins.open = self.orig


class track_streams(open_hook):
    """Remembers every file object the library opens on `path`, so that a process death can be played without running any
    of the library's own code: the buffered bytes are handed to the OS in order and the descriptor goes away."""
    def __init__(self, path):
        self.streams = []
        super().__init__(path, self._keep)

    def _keep(self, f):
        self.streams.append(f)
        return f

    def die(self):
        for f in self.streams:
            if not f.closed:
                try:
                    f.flush()
                except Exception:
                    pass
                f.close()
        self.streams.clear()


def drive(path, ops, nh=3, h1=None, h2=b"", b0=b"", init_bytes=None, creator=None):
    """Runs `ops` on the real implementation.  Returns dict(results=[coq res], ops=[coq op], final=bytes,
    init=bytes, oracle=[(sig, text)])."""
    with track_streams(path) as ts:
        return _drive(ts, path, ops, nh, h1, h2, b0, init_bytes, creator)


def _drive(ts, path, ops, nh, h1, h2, b0, init_bytes, creator=None):
    from molli.storage.ukvfile import UKVFile
    from io import UnsupportedOperation
    if os.path.exists(path):
        os.remove(path)
    made = None
    if init_bytes is None:
        made = UKVFile(path, creator or "x", h1=h1, h2=h2, b0=b0)
        made.close()
    else:
        _wr(path, init_bytes)
    init = _rd(path)
    bof = 32 + struct.unpack(">16sHI10x", init[:32])[1] + struct.unpack(">16sHI10x", init[:32])[2]
    header = init[:bof]
    recs0, torn0 = parse_file(init, bof)
    model = {k: v for k, v, _, _ in recs0}     # abstract map (oracle)
    disk_end = recs0[-1][3] if recs0 else bof   # end of the last complete record
    committed_end = disk_end                    # end of complete records before the current append session
    committed = dict(model)
    hs = [None] * nh
    own_mode = "a"
    if creator and made is not None:
        hs[0] = made            # a closed handle that knows nothing yet (the model's h0); its mode is what close() left
    view = [None] * nh                          # oracle: key set each handle must list (snapshot at open / after own puts)
    res, cops, viol = [], [], []

    def all_keys(h):
        return sorted(h.keys())

    for o in ops:
        kind = o[0]
        if kind == "crash":
            # the process dies: buffered data reach the file in order, the file keeps a prefix
            ts.die()        # no close(), no __exit__: none of the library's own code runs when a process dies
            size = os.path.getsize(path)
            n = committed_end + int(o[1] * (size - committed_end) + 0.5) if size > committed_end else size
            with open(path, "r+b") as f:
                f.truncate(n)
            hs = [None] * nh
            view = [None] * nh
            data = _rd(path)
            recs, _ = parse_file(data, bof)
            # oracle: every record complete before the session survives exactly; session records all-or-nothing
            surv = {k: v for k, v, _, _ in recs}
            for k, v in committed.items():
                if surv.get(k) != v:
                    viol.append(("C03:committed-record-damaged", f"record {k[:8]!r} complete before the session is missing or altered after the crash"))
            model = {k: v for k, v in model.items() if k in surv and surv[k] == v}
            committed = dict(model)
            disk_end = recs[-1][3] if recs else bof
            committed_end = disk_end
            cops.append(op_coq(o, n)); res.append("ROk")
            continue
        i = o[1]
        if kind == "open":
            m = o[2]
            before = _rd(path) if all(h is None or h.closed for h in hs) else None
            try:
                if hs[i] is None:
                    hs[i] = UKVFile(path, m)
                    fresh = True
                else:
                    fresh = hs[i].closed
                    if len(o) > 3 and o[3] == "enter" and hs[i].mode == m:
                        hs[i].__enter__()           # `with h:` spelling
                    elif creator and hs[i] is made and fresh and own_mode == m and len(cops) % 2 == 0:
                        hs[i].open()                # no mode named: the object's own (append after creation, else the last one named)
                    else:
                        hs[i].open(m)
                        if hs[i] is made and fresh:
                            own_mode = m            # (an open() of a handle that is already open changes nothing, also not its mode)
            except Exception as e:              # opening a library must not fail, whatever a crash left behind
                viol.append((f"C02:open:raised:{type(e).__name__}",
                             f"open({m}) of handle {i} raised {type(e).__name__}: {str(e)[:80]} (file of {os.path.getsize(path)} bytes)"))
                try:
                    if hs[i] is not None and not hs[i].closed:
                        hs[i].close()
                except Exception:
                    pass
                hs[i] = None
                cops.append(op_coq(o)); res.append(f"(ROther (* {type(e).__name__} *))")
                continue
            if fresh:
                view[i] = set(model)
                if m == "a":
                    committed_end = disk_end
                    committed = dict(model)
                if set(hs[i].keys()) != set(model):
                    viol.append(("C02:open:listing-differs",
                                 f"after open({m}) handle {i} lists {all_keys(hs[i])[:6]} but successfully put keys are {sorted(model)[:6]}"))
            cops.append(op_coq(o)); res.append("ROk")
            continue
        if kind == "close":
            if hs[i] is None or not hasattr(hs[i], "_stream"):
                continue                       # no object, or a pickled copy that was never opened: nothing to close (op dropped)
            if len(o) > 2 and o[2] == "exit":
                hs[i].__exit__(None, None, None)
            else:
                hs[i].close()
            cops.append(op_coq(o)); res.append("ROk")
            continue
        if kind == "dup":
            j = o[2]
            if hs[i] is None or not hs[i].closed or (hs[j] is not None and not hs[j].closed):
                continue                       # only closed handle objects are copied (op dropped otherwise)
            import pickle
            hs[j] = pickle.loads(pickle.dumps(hs[i]))
            view[j] = None if view[i] is None else set(view[i])
            cops.append(op_coq(o)); res.append("ROk")
            continue
        if hs[i] is None:
            continue
        h = hs[i]
        if kind == "hdr":
            # what this handle object took from the file header when it was last opened
            # (the object that created the file still holds h1 as it was given, before the writer padded it to 16 bytes)
            got = (h.h1.ljust(16, b"\0") if isinstance(h.h1, bytes) else h.h1, h.h2, h.b0)
            _h1, _l2, _l0 = struct.unpack(">16sHI10x", header[:32])
            want = _h1, header[32:32 + _l2], header[32 + _l2:32 + _l2 + _l0]
            if got != want:
                viol.append(("C02:header-misread", f"handle {i} reports header fields (h1, comment, descriptor) = "
                             f"({got[0][:12]!r}, {got[1][:12]!r}, {got[2][:12]!r}); the file was created with "
                             f"({want[0][:12]!r}, {want[1][:12]!r}, {want[2][:12]!r})"))
            cops.append(op_coq(o)); res.append("V:(VRHdr " + " ".join(cq_bytes(x) for x in got) + ")")
            continue
        if kind == "put":
            k, v = o[2], o[3]
            views_before = [None if x is None else all_keys(x) for x in hs]
            try:
                if len(o) > 4 and o[4] == "item":
                    h[k] = v.b
                else:
                    h.put(k, v.b)
                r = "ROk"
            except UnsupportedOperation:
                r = "(RErr EUnsupported)"
            except KeyError:
                r = "(RErr EKey)"
            except struct.error:
                r = "(RErr EStruct)"
            except Exception as e:
                r = f"(ROther (* {type(e).__name__} *))"
            if r == "ROk":
                if k in model:
                    viol.append(("C02:put:duplicate-accepted", f"put({k[:8]!r}) succeeded although the key was already put"))
                model[k] = v.b
                view[i].add(k)
                disk_end += 5 + len(k) + len(v.b)
            else:
                views_after = [None if x is None else all_keys(x) for x in hs]
                if views_after != views_before:
                    viol.append(("C02:failed-put:view-changed", f"failing put({k[:8]!r}) -> {r} changed a handle's key listing"))
                expect = ("(RErr EUnsupported)" if (h.closed or h.mode == "r") else
                          "(RErr EKey)" if k in view[i] else "(RErr EStruct)" if len(k) > 255 else None)
                if expect is None:
                    viol.append(("C02:put:spurious-failure", f"put({k[:8]!r}) of a fresh key on a writable handle failed with {r}"))
            cops.append(op_coq(o)); res.append(r)
        elif kind == "get":
            k = o[2]
            try:
                val = h[k] if len(o) > 3 and o[3] == "item" else h.get(k)
                r = "(RVal " + (cq_bytes(val) if len(val) <= 24 else _name_val(val)) + ")"
            except UnsupportedOperation:
                val, r = None, "(RErr EUnsupported)"
            except KeyError:
                val, r = None, "(RErr EKey)"
            except Exception as e:
                val, r = None, f"(ROther (* {type(e).__name__} *))"
            if val is not None:
                if k not in model or model[k] != val:
                    viol.append(("C02:get:wrong-bytes", f"get({k[:8]!r}) returned {len(val)} bytes that are not the bytes of the one successful put"))
            elif not h.closed and k in view[i]:
                viol.append(("C02:get:listed-key-unreadable", f"get({k[:8]!r}) failed with {r} although the key is listed"))
            cops.append(op_coq(o)); res.append(r)
        elif kind in ("items", "values"):
            try:
                got = list(h.items()) if kind == "items" else list(h.values())
            except Exception as e:
                got = None
            if got is None:
                r = "V:VRFail"
                if not h.closed:
                    viol.append((f"C02:{kind}:raised", f"{kind}() of open handle {i} raised although every listed key must be readable"))
            elif kind == "items":
                r = "V:(VRItems [" + "; ".join(f"({cq_bytes(k)}, {cq_bytes(v) if len(v) <= 24 else _name_val(v)})" for k, v in got) + "])"
                if not h.closed and (dict(got) != model or len(got) != len(model)):
                    viol.append(("C02:items:differs", f"items() of open handle {i} is not exactly the successfully put (key, bytes) pairs "
                                 f"({len(got)} pairs, {len(model)} puts)"))
            else:
                r = "V:(VRVals [" + "; ".join(cq_bytes(v) if len(v) <= 24 else _name_val(v) for v in got) + "])"
                if not h.closed and sorted(got) != sorted(model.values()):
                    viol.append(("C02:values:differs", f"values() of open handle {i} are not exactly the bytes of the successful puts"))
            cops.append(op_coq(o)); res.append(r)
        elif kind == "keys":
            ks = list(h.keys())
            if not h.closed and set(ks) != view[i]:
                viol.append(("C02:keys:listing-differs", f"open handle {i} lists {sorted(ks)[:6]}, expected {sorted(view[i])[:6]}"))
            cops.append(op_coq(o)); res.append("(RKeys [" + ";".join(cq_bytes(k) for k in ks) + "])")
    for h in hs:
        if h is not None and not h.closed:
            h.close()
    final = _rd(path)
    if final[:bof] != header:
        viol.append(("C02:header-changed", "file header bytes (h1, comment, descriptor block) changed"))
    recs, torn = parse_file(final, bof)
    if {k: v for k, v, _, _ in recs} != model or len(recs) != len(model):
        viol.append(("C02:final-file-differs", "records in the final file are not exactly the successful puts"))
    return dict(results=res, ops=cops, final=final, init=init, oracle=viol)


def _name_val(val):
    """Name a long value as a pattern if it is one (it always is in generated histories)."""
    if len(val) >= 2:
        seed = val[0]
        if val == pat(seed, len(val)):
            return f"(pat {seed} {len(val)})"
        if val == bytes(len(val)):
            return f"(zeros {len(val)})"
    return cq_bytes(val)


def bytes_coq(data, bof):
    """File bytes as a Coq term: literal header ++ blocks with long values named by patterns."""
    recs, torn = parse_file(data, bof)
    parts = [cq_bytes(data[:bof])]
    for k, v, pos, end in recs:
        parts.append(f"{cq_bytes(data[pos:pos + 5])} ++ {cq_bytes(k)} ++ {_name_val(v) if len(v) > 24 else cq_bytes(v)}")
    if torn:
        if len(torn) > 64 and len(torn) > 5:
            kl = torn[0]
            body = torn[5 + kl:]
            if len(body) > 24 and body == pat(body[0], len(body)):
                parts.append(f"{cq_bytes(torn[:5 + kl])} ++ (pat {body[0]} {len(body)})")
            elif len(body) > 24 and body == bytes(len(body)):
                parts.append(f"{cq_bytes(torn[:5 + kl])} ++ (zeros {len(body)})")
            else:
                parts.append(cq_bytes(torn))
        else:
            parts.append(cq_bytes(torn))
    return " ++ ".join(parts)


def case_coq(d, nh):
    bof = 32 + struct.unpack(">16sHI10x", d["init"][:32])[1] + struct.unpack(">16sHI10x", d["init"][:32])[2]
    return (f"(({bytes_coq(d['init'], bof)}, {nh}%nat, [{'; '.join(d['ops'])}]), "
            f"([{'; '.join(d['results'])}], {bytes_coq(d['final'], bof)}))")


def vcase_coq(d, nh):
    """Case over the extended operation set (Model/UKVViews.v): base ops wrapped in VBase / VR."""
    bof = 32 + struct.unpack(">16sHI10x", d["init"][:32])[1] + struct.unpack(">16sHI10x", d["init"][:32])[2]
    ops = [o[2:] if o.startswith("V:") else f"VBase ({o})" for o in d["ops"]]
    rs = [r[2:] if r.startswith("V:") else f"VR {r}" for r in d["results"]]
    return (f"(({bytes_coq(d['init'], bof)}, {nh}%nat, [{'; '.join(ops)}]), "
            f"([{'; '.join(rs)}], {bytes_coq(d['final'], bof)}))")


HEADER_V = ("From Coq Require Import NArith List.\nImport ListNotations.\n"
            "From Molli Require Import Model.UKV Model.UKVViews.\nOpen Scope N_scope.\n")
HEADER = "From Coq Require Import NArith List.\nImport ListNotations.\nFrom Molli Require Import Model.UKV.\nOpen Scope N_scope.\n"


# ----------------------------------------------------------------------------------------------
# Collection-level histories (UkvCollectionBackend through molli.storage.Collection)
# ----------------------------------------------------------------------------------------------
CKEYS = ["", "a", "b", "ab", "k" * 255, "K" * 256, "c"]
BUFS = [-1, 0, 7, 10 ** 6]
HEADER_B = ("From Coq Require Import NArith ZArith List.\nImport ListNotations.\n"
            "From Molli Require Import Model.UKV Model.Backend.\nOpen Scope N_scope.\n")


def gen_chistory(rng, cfg, maxlen=30, views=True):
    """Sessions never overlap a writing session (the lock is per process: overlapping sessions of one
    process are outside the claim).  Mostly-valid stream + error stream (ops outside sessions, puts through
    read-only collections / reading sessions, duplicate and oversize keys)."""
    nh = len(cfg)
    cfg = list(cfg)                     # local belief about (bufsize, readonly) per slot; a pickled copy moves it
    ops, sess = [], [None] * nh
    tried = []
    n = rng.randint(2, maxlen)
    while len(ops) < n:
        if views and nh >= 2 and rng.random() < 0.04:
            idle = [i for i in range(nh) if not sess[i]]
            if len(idle) >= 2:
                i, j = rng.sample(idle, 2)
                ops.append(("dup", i, j)); cfg[j] = cfg[i]
                continue
        active = [i for i in range(nh) if sess[i]]
        writer = [i for i in range(nh) if sess[i] == "w"]
        r = rng.random()
        if not active or r < 0.18:
            i = rng.randrange(nh)
            if sess[i]:
                continue
            w = rng.random() < 0.65
            if w and active:
                j = active[0]
                ops.append(("endw" if sess[j] == "w" else "endr", j)); sess[j] = None
                continue
            if (not w) and writer:
                continue
            if w and cfg[i][1]:
                ops.append(("beginw", i))          # raises UnsupportedOperation, no session starts
                continue
            ops.append(("beginw" if w else "beginr", i)); sess[i] = "w" if w else "r"
            continue
        if r < 0.30:
            i = rng.choice(active)
            x = "x" if views and rng.random() < 0.2 else ""          # the with-block raises
            ops.append((("endw" if sess[i] == "w" else "endr") + x, i)); sess[i] = None
            continue
        i = (writer[0] if writer and rng.random() < 0.8 else rng.choice(active)) if rng.random() < 0.9 else rng.randrange(nh)
        kind = rng.choice(["put", "put", "put", "get", "get", "keys", "flush"] + (["contains", "len", "items", "values"] if views else []))
        if kind in ("items", "values"):
            if not sess[i]:
                continue                # the generators are consumed inside sessions only (outside, the order in which a set is
                                        # iterated decides whether a failing flush happens before or after a failing read)
            ops.append((kind, i))
            continue
        if kind == "contains":
            ops.append(("contains", i, rng.choice(tried) if tried and rng.random() < 0.7 else rng.choice(CKEYS), rng.randrange(2)))
            continue
        if kind == "len":
            ops.append(("len", i, rng.randrange(3)))
            continue
        if kind == "put":
            fresh = [x for x in CKEYS if x not in tried]
            k = rng.choice(fresh) if fresh and rng.random() < 0.7 else rng.choice(CKEYS)
            tried.append(k)
            ops.append(("put", i, k, Val(rng.randrange(256) if rng.random() < 0.8 else -1, rng.choice([0, 1, 3, 17, 300]))))
        elif kind == "get":
            ops.append(("get", i, rng.choice(tried) if tried and rng.random() < 0.8 else rng.choice(CKEYS)))
        elif kind == "keys":
            ops.append(("keys", i))
        else:
            ops.append(("flush", i))
    for i in range(nh):
        if sess[i]:
            ops.append(("endw" if sess[i] == "w" else "endr", i))
    return ops


def directed_chistory(rng):
    """Buffered batches with one doomed put (duplicate / oversize key) at a random position, followed by the
    operations that surface the late failure and by reads of every listed key.  Random generation almost never
    lines these up."""
    bs = rng.choice([10 ** 6, 10 ** 6, 40])
    cfg = [(bs, False)] + ([(rng.choice(BUFS), rng.random() < 0.3)] if rng.random() < 0.5 else [])
    good = rng.sample(["a", "b", "ab", "c", "d", "e"], rng.randint(2, 5))
    pre = good[:rng.randint(0, 1)]
    batch = good[len(pre):]
    V = lambda: Val(rng.randrange(256), rng.choice([0, 1, 3, 17]))
    ops = []
    if pre:
        ops += [("beginw", 0)] + [("put", 0, k, V()) for k in pre] + [("endw", 0)]
    ops.append(("beginw", 0))
    doomed = rng.choice(["dup-file", "dup-queue", "oversize", "none"])
    pos = rng.randrange(len(batch) + 1)
    seq = [("put", 0, k, V()) for k in batch]
    if doomed == "dup-file" and pre:
        seq.insert(pos, ("put", 0, pre[0], V()))
    elif doomed == "dup-queue" and batch:
        seq.insert(max(pos, 1), ("put", 0, batch[0], V()))
    elif doomed == "oversize":
        seq.insert(pos, ("put", 0, "K" * 256, V()))
    ops += seq
    if doomed != "none" and bs > 40 and rng.random() < 0.5:
        # the failure surfaces only when the session ends: the puts queued behind the doomed one stay buffered.  They are
        # accepted puts: reading sessions that ask for them (get / items / values / contains) must not lose them, and the
        # next writing session stores them
        ops.append(("endw", 0))
        other = len(cfg) > 1 and not cfg[1][1]
        # (half of the time nothing happens on the first handle between its failed session and the other handle's writes:
        #  a reading session in between would close and so refresh it)
        for _ in range(0 if other and rng.random() < 0.5 else rng.randint(1, 2)):
            ops.append(("beginr", 0))
            for k in rng.sample(pre + batch, len(pre + batch)):
                ops.append(rng.choice([("get", 0, k), ("contains", 0, k, rng.randrange(2)), ("get", 0, k)]))
            ops.append(rng.choice([("items", 0), ("values", 0), ("keys", 0), ("len", 0, rng.randrange(3))]))
            ops.append(("endr", 0))
        if other:
            # another handle writes in between: the first one, back from its failed session, must map the file again
            ops += [("beginw", 1), ("put", 1, "z", V()), ("put", 1, "zz", V()), ("endw", 1)]
        ops += [("beginw", 0), ("keys", 0), ("endw", 0), ("beginr", 0), ("keys", 0)] + [("get", 0, k) for k in pre + batch] + [("endr", 0)]
        if other:
            ops += [("beginr", 1), ("keys", 1)] + [("get", 1, k) for k in ["z", "zz"] + batch] + [("endr", 1),
                    ("beginr", 0), ("get", 0, "z"), ("get", 0, "zz"), ("endr", 0)]
        return ops, cfg
    ops.append(rng.choice([("flush", 0), ("get", 0, batch[-1]), ("keys", 0)]))
    ops.append(("keys", 0))
    for k in rng.sample(pre + batch, len(pre + batch)):
        ops.append(("get", 0, k))
    ops += [("keys", 0), ("endwx" if rng.random() < 0.3 else "endw", 0)]
    if len(cfg) > 1:
        ops += [("beginr", 1), ("keys", 1)] + [("get", 1, k) for k in pre + batch] + [("endr", 1)]
    ops += [("beginw", 0), ("keys", 0)] + [("get", 0, k) for k in batch[:2]] + [("endw", 0)]
    return ops, cfg


def bop_coq(o):
    k = o[0]
    if k in ("beginw", "endw", "beginr", "endr", "keys", "flush", "endwx", "endrx"):
        return {"beginw": "BeginW", "endw": "EndW", "beginr": "BeginR", "endr": "EndR", "keys": "CKeys", "flush": "CFlush",
                "endwx": "EndWX", "endrx": "EndRX"}[k] + f" {o[1]}"
    if k == "put":
        return f"CPut {o[1]} {cq_bytes(o[2].encode())} {o[3].coq()}"
    if k == "contains":
        return f"CContains {o[1]} {cq_bytes(o[2].encode())}"
    if k == "len":
        return f"CLen {o[1]}"
    if k == "items":
        return f"CItems {o[1]}"
    if k == "values":
        return f"CValues {o[1]}"
    if k == "dup":
        return f"CDup {o[1]} {o[2]}"
    return f"CGet {o[1]} {cq_bytes(o[2].encode())}"


def _valid_queue(be):
    """True when every buffered put is going to succeed: fresh distinct keys of legal size (then the flush at the end of the
    session cannot fail and must leave the buffer empty)"""
    fk = {x.decode() for x in be._ukvfile.keys()} if hasattr(be, "_ukvfile") else set()
    qk = [x for x, _ in be._write_queue]
    return bool(qk) and len(set(qk)) == len(qk) and not any(x in fk or len(x.encode()) > 255 for x in qk)


def cdrive(path, ops, cfg, fault=None):
    """Runs a collection-level history on the real implementation."""
    import struct as _st
    from io import UnsupportedOperation
    from molli.storage import Collection, UkvCollectionBackend
    from molli.storage.ukvfile import UKVFile
    if os.path.exists(path):
        os.remove(path)
    UKVFile(path, "x", h2=b"lib").close()
    init = _rd(path)
    bof = len(init)
    cols = [Collection(path, UkvCollectionBackend, readonly=ro, bufsize=bs) for bs, ro in cfg]
    cms = [None] * len(cfg)
    pending = [[] for _ in cfg]   # per collection: keys of accepted puts not yet seen in the file
    seen_recs = {}                # key -> value of every record that was complete in the file after some operation
    all_cols = []         # collection objects replaced by a pickled copy (their queues are cleared at the end too)
    res, cops, viol = [], [], []
    model = {}            # oracle: abstract map, maintained while every put is written through immediately
    exact = True          # False once a put was left in a buffer (oracle then only checks the final file)
    late = []             # gets of listed keys that failed because a buffered put failed late (known finding)
    accepted = {}         # key -> bytes of the FIRST put of that key accepted inside a session (written or buffered): in an
                          # insert-only map whose queues are flushed in order this is the one put that can succeed
    tainted = set()       # keys put outside a session (outside the claim)

    def classify(e):
        if isinstance(e, UnsupportedOperation): return "(BErr BUnsupported)"
        if isinstance(e, KeyError): return "(BErr BKey)"
        if isinstance(e, _st.error): return "(BErr BStruct)"
        if isinstance(e, AttributeError): return "(BErr BAttr)"
        if isinstance(e, OSError): return "(BErr BIO)"
        return f"BOther (* {type(e).__name__} *)"

    for o in ops:
        k, i = o[0], o[1]
        c = cols[i]
        be = c._backend
        state_before = be._state
        try:
            if k == "beginw":
                cm = c.writing(timeout=5); cm.__enter__(); cms[i] = cm; r = "BOk"
                if exact and set(c.keys()) != set(model):
                    viol.append(("C02:collection:listing-differs", f"writing session of handle {i} lists {sorted(c.keys())[:5]}, successfully put keys are {sorted(model)[:5]}"))
            elif k == "beginr":
                cm = c.reading(timeout=5); cm.__enter__(); cms[i] = cm; r = "BOk"
                if exact and set(c.keys()) != set(model):
                    viol.append(("C02:collection:listing-differs", f"reading session of handle {i} lists {sorted(c.keys())[:5]}, successfully put keys are {sorted(model)[:5]}"))
            elif k in ("endw", "endr"):
                cm, cms[i] = cms[i], None
                end_q = _valid_queue(be) if k == "endw" and state_before == "writing" else None
                cm.__exit__(None, None, None); r = "BOk"
            elif k in ("endwx", "endrx"):
                end_q = _valid_queue(be) if k == "endwx" and state_before == "writing" else None
                # the with-block is left by an exception of the body: the finalisers run all the same
                cm, cms[i] = cms[i], None
                body_exc = AttributeError("raised by the body of the with-block")
                swallowed = cm.__exit__(AttributeError, body_exc, None)
                r = "(BErr BAttr)"
                if swallowed:
                    viol.append(("C02:collection:session-swallowed-exception", "the session context manager swallowed the exception of its with-block"))
            elif k == "put":
                listed_before = set(c.keys())
                fk0 = {x.decode() for x in be._ukvfile.keys()} if hasattr(be, "_ukvfile") else set()
                qk0 = {x for x, _ in be._write_queue}
                sound = cms[i] is not None and be._state == "writing" and o[2] not in tainted
                if sound and not (o[2] in fk0 or o[2] in qk0 or len(o[2].encode()) > 255):
                    pending[i].append(o[2])     # a put the map must keep: written or still buffered from now on
                try:
                    c[o[2]] = o[3].b
                except Exception:
                    if cms[i] is None or state_before != "writing":
                        # a put attempted outside a writing session taints its key whatever came of it: the overflow flush may have
                        # failed on an EARLIER item and left this one buffered, to be written by the next writing session
                        tainted.add(o[2])
                    raise
                r = "BOk"
                if cms[i] is None or be._state != "writing":
                    # outside a session, or buffered inside a READING session (it can only fail, late, at the flush):
                    # not a put the insert-only map ever accepted
                    tainted.add(o[2])
                else:
                    accepted.setdefault(o[2], o[3].b)
                if be._write_queue:
                    exact = False
                elif exact:
                    if o[2] in model:
                        viol.append(("C02:collection:duplicate-accepted", f"put({o[2][:8]!r}) succeeded although the key was already put"))
                    model[o[2]] = o[3].b
            elif k == "get":
                listed = cms[i] is not None and be._state == "writing" and o[2] in c.keys()
                # a buffered put that is bound to fail (duplicate / oversize key) surfaces at the flush this get triggers
                fkeys = {x.decode() for x in be._ukvfile.keys()} if hasattr(be, "_ukvfile") else set()
                qk = [x for x, _ in be._write_queue]
                doomed = any(x in fkeys or len(x.encode()) > 255 for x in qk) or len(set(qk)) != len(qk)
                try:
                    v = c[o[2]]
                except Exception as e:
                    if listed and not doomed:
                        viol.append(("C02:collection:listed-key-unreadable", f"inside a writing session key {o[2][:8]!r} is listed but get raised {type(e).__name__}"))
                    elif listed and doomed:
                        late.append(o[2])
                    raise
                r = "(BVal " + (cq_bytes(v) if len(v) <= 24 else _name_val(v)) + ")"
                if exact and model.get(o[2]) != v:
                    viol.append(("C02:collection:wrong-bytes", f"get({o[2][:8]!r}) did not return the bytes of the one successful put"))
                elif fault is None and o[2] in accepted and o[2] not in tainted and accepted[o[2]] != v:
                    viol.append(("C02:collection:wrong-bytes:buffered",
                                 f"get({o[2][:8]!r}) returned {len(v)} bytes that are not the bytes of the first accepted put of that key "
                                 f"({len(accepted[o[2]])} bytes): the value of a later, doomed put was served"))
            elif k == "keys":
                ks = sorted(c.keys()) if len(cops) % 2 == 0 else sorted(iter(c))       # iter(c) is the other spelling of the listing
                r = "(BKeys [" + ";".join(cq_bytes(x.encode()) for x in ks) + "])"
                if exact and cms[i] is not None and set(ks) != set(model):
                    viol.append(("C02:collection:listing-differs", f"handle {i} lists {ks[:5]} inside a session, successfully put keys are {sorted(model)[:5]}"))
            elif k == "flush":
                c.flush(); r = "BOk"
            elif k == "contains":
                ans = (o[2] in c) if o[3] == 0 else (o[2] in be)
                r = f"(BBool {'true' if ans else 'false'})"
                if ans != (o[2] in c.keys()):
                    viol.append(("C02:collection:contains-differs", f"`{o[2][:8]!r} in collection` is {ans} but the key listing says otherwise"))
                if exact and cms[i] is not None and ans != (o[2] in model):
                    viol.append(("C02:collection:contains-differs", f"`{o[2][:8]!r} in collection` is {ans}; successfully put keys are {sorted(model)[:5]}"))
            elif k == "len":
                nn = len(c) if o[2] == 0 else c.n_items if o[2] == 1 else len(be)
                r = f"(BNum {nn})"
                if nn != len(set(c.keys())) or (exact and cms[i] is not None and nn != len(model)):
                    viol.append(("C02:collection:len-differs", f"len/n_items = {nn}, the listing has {len(set(c.keys()))} keys, {len(model)} successful puts"))
            elif k in ("items", "values"):
                fkeys = {x.decode() for x in be._ukvfile.keys()} if hasattr(be, "_ukvfile") else set()
                qk = [x for x, _ in be._write_queue]
                doomed = any(x in fkeys or len(x.encode()) > 255 for x in qk) or len(set(qk)) != len(qk)
                listed = set(c.keys())
                try:
                    got = list(c.items()) if k == "items" else list(c.values())
                except Exception as e:
                    if be._state == "writing" and not doomed:
                        viol.append((f"C02:collection:{k}-raised", f"{k}() raised {type(e).__name__} inside a writing session although every listed key must be readable"))
                    raise
                cqv = lambda v: cq_bytes(v) if len(v) <= 24 else _name_val(v)
                if k == "items":
                    r = "(BItems [" + "; ".join(f"({cq_bytes(a.encode())}, {cqv(v)})" for a, v in got) + "])"
                    if {a for a, _ in got} != listed or len(got) != len(listed):
                        viol.append(("C02:collection:items-differ", f"items() yields keys {sorted(a for a, _ in got)[:5]} but the listing is {sorted(listed)[:5]}"))
                    if exact and be._state == "writing" and dict(got) != model:
                        viol.append(("C02:collection:items-differ", "items() is not exactly the successfully put (key, bytes) pairs"))
                else:
                    r = "(BVals [" + "; ".join(cqv(v) for v in got) + "])"
                    if len(got) != len(listed) or (exact and be._state == "writing" and sorted(got) != sorted(model.values())):
                        viol.append(("C02:collection:values-differ", "values() are not exactly the bytes of the successful puts"))
            elif k == "dup":
                import pickle
                j = o[2]
                all_cols.append(cols[j])
                cols[j] = pickle.loads(pickle.dumps(c)); cms[j] = None; r = "BOk"
                pending[j] = []
        except Exception as e:
            r = classify(e)
            if k == "put" and exact and cms[i] is not None:      # use outside a session is outside the claim
                if set(c.keys()) != listed_before:
                    viol.append(("C02:collection:failed-put-view-changed", f"failing put({o[2][:8]!r}) -> {r} changed the key listing"))
            if k in ("endw", "endr"):
                pass
        if k in ("endw", "endwx") and end_q and be._write_queue and fault is None:
            # however a writing session ends -- normally or by an exception of its with-block -- its buffer is written out
            viol.append(("C02:collection:session-end-left-buffer",
                         f"the writing session of handle {i} ended ({'by an exception of its body' if k == 'endwx' else 'normally'}) and "
                         f"{len(be._write_queue)} valid buffered put(s) ({[x[:8] for x, _ in be._write_queue][:4]}) were not written"))
        cops.append(bop_coq(o)); res.append(r)
        # insert-only, judged on the file itself: a record that was once complete in the file stays there, byte for byte
        if fault is None:
            now = {kk: vv for kk, vv, _, _ in parse_file(_rd(path), bof)[0]}
            for kk, vv in list(seen_recs.items()):
                if now.get(kk) != vv:
                    del seen_recs[kk]            # reported once
                    viol.append(("C02:collection:stored-record-lost",
                                 f"the record of key {kk[:8]!r}, complete in the file earlier, is {'altered' if kk in now else 'gone'} "
                                 f"after op {len(cops)}: {cops[-1][:40]}"))
            seen_recs = {**seen_recs, **now}
        # an accepted put is never lost: after every operation each one is in the file or still in the write queue
        # (a failing flush drops only the item whose write failed)
        for j, cj in enumerate(cols):
            if not pending[j]:
                continue
            bj = cj._backend
            fk = {x.decode() for x in bj._ukvfile.keys()} if hasattr(bj, "_ukvfile") else set()
            qk = {x for x, _ in bj._write_queue}
            for key in list(pending[j]):
                if key in fk:
                    pending[j].remove(key)
                elif key not in qk:
                    pending[j].remove(key)
                    # a write attempted outside a writing session -- an explicit flush, or a put that overflows the buffer --
                    # is misuse (it can only fail), and what it costs is outside the claim
                    if fault is None and not (j == i and k in ("flush", "put") and state_before != "writing"):
                        viol.append(("C02:collection:accepted-put-lost",
                                     f"put({key[:8]!r}) was accepted inside a writing session (fresh key, legal size) and is now neither in the "
                                     f"file nor in the write buffer (after op {len(cops)}: {cops[-1][:40]}): a successful put vanished"))
    for i, cm in enumerate(cms):
        if cm is not None:
            try:
                cm.__exit__(None, None, None)
            except Exception:
                pass
    for c in cols + all_cols:
        c._backend._write_queue.clear()       # nothing may be flushed by the atexit hook after the observation
    final = _rd(path)
    if final[:bof] != init:
        viol.append(("C02:header-changed", "file header bytes changed"))
    recs, torn = parse_file(final, bof)
    if torn or len({k for k, _, _, _ in recs}) != len(recs):
        viol.append(("C02:collection:file-corrupt", "final file has a torn tail or duplicate keys"))
    if exact and {k.decode(): v for k, v, _, _ in recs} != model:
        viol.append(("C02:collection:final-file-differs", "records in the final file are not exactly the successful puts"))
    return dict(results=res, ops=cops, final=final, init=init, oracle=viol, late=late)


def bcase_coq(d, cfg):
    bof = len(d["init"])
    cfgs = "[" + "; ".join(f"(({bs})%Z, {'true' if ro else 'false'})" for bs, ro in cfg) + "]"
    return (f"(({bytes_coq(d['init'], bof)}, {cfgs}, [{'; '.join(d['ops'])}]), "
            f"([{'; '.join(d['results'])}], {bytes_coq(d['final'], bof)}))")
