"""C02 -- a library file is an insert-only key-value map over any operation history.
Tie H: disciplined histories over 1..3 raw UKVFile handles (and Collection handles, see backend part)
are run on the real implementation and on Model/UKV.v inside Coq (kernel-checked Example per shard)."""
import os, itertools, json
import vlib, ukv_common as U


# header variants: every combination of empty / non-empty comment and descriptor block, a foreign magic, a long comment
HDRS = [dict(), dict(h2=b"a comment", b0=b"\x00\x01descr"), dict(h1=b"ML10Library", h2=b"x" * 300),
        dict(h2=b"only a comment"), dict(b0=b"only a descriptor\x00"),
        # the object that CREATED the file (mode w / x) is kept as handle 0 and reopened, also without naming a mode
        dict(creator="w"), dict(creator="x", h2=b"made with x", b0=b"\x07")]


def exhaustive_histories(depth):
    v1, v2 = U.Val(3, 2), U.Val(9, 0)
    alpha = [("open", 0, "r"), ("open", 0, "a"), ("close", 0), ("put", 0, b"a", v1), ("put", 0, b"b", v2),
             ("get", 0, b"a"), ("keys", 0)]
    for n in range(1, depth + 1):
        for h in itertools.product(alpha, repeat=n):
            yield list(h)


def run(ctx, rep):
    rep.rule = ("histories of Open/Close/Put/Get/Keys over 1..3 UKVFile handles on one path respecting the session "
                "discipline: bounded-exhaustive over a 7-op alphabet on one handle + seeded random histories (<=25 ops, "
                "3 handles, keys incl. empty/binary/255-/256-byte, values 0..70 kB); non-trivial = at least one "
                "successful put and one reopen or failing op; distinct by the op list")
    rep.trusted += ["harness/ukv_common.py (driver, canonicalisation, Coq literal emission)",
                    "CPython buffered file I/O and struct.pack (modelled: in-order byte stream, big-endian packing)"]
    rep.assumptions += ["session discipline: a handle open for append is the only open handle (what the lock of C04 enforces)",
                        "creation modes x/w are used only to create the file; reopening uses r/a"]
    ok, out, where = vlib.build_props(ctx, rep, "C02", extra_targets=[])
    tstatus, tok, tout, twhere = U.code_tie(ctx, rep)
    work = ctx.sub("ukv")
    path = os.path.join(work, "t.ukv")
    hists = [(h, 1) for h in exhaustive_histories(4 if ctx.thorough else 3)]
    nexh = len(hists)
    nrand = 4000 if ctx.thorough else 500
    for _ in range(nrand):
        # extended operation set: items()/values(), h[k] / h[k] = v / `with h:` spellings, pickled handle copies
        hists.append((U.gen_history(ctx.rng, nh=3, maxlen=25, big=True, views=True), 3))
    hdrs = HDRS
    cases, vcases, meta = [], [], []
    for n, (h, nh) in enumerate(hists):
        d = U.drive(path, h, nh=nh, **hdrs[n % len(HDRS)])
        (cases if n < nexh else vcases).append(U.case_coq(d, nh) if n < nexh else U.vcase_coq(d, nh))
        meta.append((h, nh, n % len(HDRS)))
        for o in h:
            if len(o) > 2 and o[-1] in ("item", "enter", "exit"):
                rep.count("spelling:" + o[0] + ":" + o[-1])
        nontriv = any(r == "ROk" and o.startswith("Put") for o, r in zip(d["ops"], d["results"])) and \
            (sum(o.startswith("Open") for o in d["ops"]) > 1 or any("RErr" in r for r in d["results"]))
        rep.case(key="; ".join(d["ops"]) if nontriv else None,
                 sample={"ops": d["ops"][:8], "results": d["results"][:8]} if n % 211 == 5 else None)
        for o, r in zip(d["ops"], d["results"]):
            rep.count("op:" + o.split()[0]); rep.count("res:" + r.strip("()").split()[0] + (":" + r.strip("()").split()[1] if "RErr" in r else ""))
        for sig, text in d["oracle"]:
            rep.violate(sig, text, {"ops": [_ser(o) for o in h], "nh": nh, "hdr": n % len(HDRS)})
    bad = vlib.run_shards(ctx, rep, "c02", U.HEADER, "check_case", cases, shard=300, case_type="case")
    vbad = vlib.run_shards(ctx, rep, "c02v", U.HEADER_V, "check_vcase", vcases, shard=300, case_type="vcase")
    if bad is not None and vbad is not None:
        bad = bad + [nexh + x for x in vbad]
    elif vbad is None:
        bad = None
    # ---- Collection / backend level: write queue, key set, buffer sizes, sessions
    bcases, bmeta = [], []
    cpath = os.path.join(work, "c.ukv")
    for n in range(3000 if ctx.thorough else 400):
        cfg = [(ctx.rng.choice(U.BUFS), ctx.rng.random() < 0.15) for _ in range(ctx.rng.randint(1, 3))]
        if all(ro for _, ro in cfg):
            cfg[0] = (cfg[0][0], False)
        h = U.gen_chistory(ctx.rng, cfg)
        if n % 4 == 0:
            h, cfg = U.directed_chistory(ctx.rng)
        d = U.cdrive(cpath, h, cfg)
        bcases.append(U.bcase_coq(d, cfg)); bmeta.append((h, cfg))
        rep.case(key="; ".join(d["ops"]) if any(r == "BOk" and o.startswith("CPut") for o, r in zip(d["ops"], d["results"])) else None,
                 sample={"cfg": cfg, "ops": d["ops"][:8], "results": d["results"][:8]} if n % 173 == 3 else None)
        for o, r in zip(d["ops"], d["results"]):
            rep.count("bop:" + o.split()[0]); rep.count("bres:" + " ".join(r.strip("()").split()[:2 if "BErr" in r else 1]))
        for bs, _ in cfg:
            rep.count(f"bufsize:{bs}")
        for sig, text in d["oracle"]:
            rep.violate(sig, text, {"kind": "collection", "cfg": cfg, "ops": [_ser(o) for o in h]})
    bbad = vlib.run_shards(ctx, rep, "c02b", U.HEADER_B, "check_bcase", bcases, shard=200, case_type="bcase")
    if bbad is None:
        vlib.broken_obligation(rep, "corr_c02b", "a correspondence shard did not compile: " + str(rep.extra.get("shard_errors"))[-1500:], bool(rep.violations))
    elif bbad and not rep.violations:
        h, cfg = bmeta[bbad[0]]
        rep.violate("broken:corr_c02b", f"backend model and implementation disagree on {len(bbad)} collection histories (first: cfg={cfg} {[_ser(o) for o in h][:12]}) "
                    "but the oracle finds no property violation on them", {"kind": "collection", "cfg": cfg, "ops": [_ser(o) for o in h], "obligation": "corr_c02b"}, no_input=True)
    found = bool(rep.violations)
    if bad is None:
        vlib.broken_obligation(rep, "corr_c02", "a correspondence shard did not compile: " + str(rep.extra.get("shard_errors"))[-1500:], found)
    elif bad:
        rep.extra["mismatching_cases"] = len(bad)
        if not found:
            h, nh, hd = meta[bad[0]]
            rep.violate("broken:corr_c02", f"model and implementation disagree on {len(bad)} histories (first: {[_ser(o) for o in h][:12]}) "
                        "but the oracle finds no property violation on them", {"ops": [_ser(o) for o in h], "nh": nh, "hdr": hd,
                        "obligation": "corr_c02"}, no_input=True)
    if not ok:
        vlib.broken_obligation(rep, "Props/C02.v", f"{where}\n{out[-1500:]}", found)
    if not tok:
        # a translated method body no longer equals its model function: the histories above are the search for an input
        vlib.broken_obligation(rep, "Props/C02code.v", "the translation of molli/storage/ukvfile.py no longer refines Model/UKV.v: "
                               f"{twhere}\n{tout[-1500:]}", bool(rep.violations))


def _ser(o):
    return [x.hex() if isinstance(x, bytes) else ([x.seed, x.n] if isinstance(x, U.Val) else x) for x in o]


def _deser(o, coll=False):
    o = list(o)
    if coll:
        if o[0] == "put":
            return ("put", o[1], o[2], U.Val(*o[3])) + tuple(o[4:])
        return tuple(o)
    if o[0] == "put":
        return ("put", o[1], bytes.fromhex(o[2]), U.Val(*o[3])) + tuple(o[4:])
    if o[0] == "get":
        return ("get", o[1], bytes.fromhex(o[2])) + tuple(o[3:])
    return tuple(o)


def replay(ctx, data):
    if data.get("kind") == "collection":
        d = U.cdrive(os.path.join(ctx.sub("ukv"), "c.ukv"), [_deser(o, True) for o in data["ops"]], [tuple(x) for x in data["cfg"]])
        print("ops:", d["ops"]); print("results:", d["results"])
        return [vlib.Violation(s, t) for s, t in d["oracle"]]
    d = U.drive(os.path.join(ctx.sub("ukv"), "t.ukv"), [_deser(o) for o in data["ops"]], nh=data["nh"], **HDRS[data.get("hdr", 0)])
    print("ops:", d["ops"]); print("results:", d["results"])
    return [vlib.Violation(s, t) for s, t in d["oracle"]]
