"""C01 -- library round trip: what is stored in a .mlib/.clib is what is read back.

Tie T (sentinel execution, regenerated every run into coq/Gen/IoWiring.v): the four serialisers of molli/chem/io.py
are executed on a real Molecule / ConformerEnsemble in which EVERY slot holds a value that occurs nowhere else; the
position of each value in the produced tuple is the serialiser's position -> slot wiring, and the byte strings are
matched against candidate dtypes.  The four deserialisers are executed on that tuple (after the real msgpack trip) and
the resulting object is searched for the same unique values: position -> field wiring of the deserialiser; positions
that reach no field are classified by perturbation (decoding fails = shape parameter, nothing changes = unused).
`Proofs/Codec.v: roundtrip_of_wiring` is proved once for every wiring accepted by the boolean `wiring_ok`; Props/C01.v
instantiates it on the regenerated tables by kernel computation.

Tie H: generated molecules / ensembles (and every entry of the bundled libraries) are stored through
MoleculeLibrary / ConformerLibrary `writing()` sessions and read back through a FRESH handle in a `reading()`
session, for the current (v2) and the legacy (v1, magic ML10Library) encodings; the object read back is compared
with the model's `roundtrip` inside Coq (shards closed by vm_compute) and, independently, field by field by the
Python oracle below (exact, except coordinates / partial charges / weights at single precision).
"""
import os, sys, json, math, struct, itertools, copy
import vlib
from vlib import cq_list, cq_str, cq_Z, cq_N, cq_bool

GEN = os.path.join(vlib.COQ, "Gen", "IoWiring.v")
ASLOTS = {"element": "AElement", "isotope": "AIsotope", "label": "ALabel", "atype": "AAtype", "stereo": "AStereo",
          "geom": "AGeom", "formal_charge": "AFCharge", "formal_spin": "AFSpin", "attrib": "AAttrib"}
BSLOTS = {"a1": "BA1", "a2": "BA2", "label": "BLabel", "btype": "BBtype", "stereo": "BStereo", "f_order": "BFOrder",
          "attrib": "BAttrib"}
DTYPES = {">f2": "F2BE", "<f2": "F2LE", ">f4": "F4BE", "<f4": "F4LE", ">f8": "F8BE", "<f8": "F8LE"}
CODECS = {"MolV2": ("mol", 2), "EnsV2": ("ens", 2), "MolV1": ("mol", 1), "EnsV1": ("ens", 1)}
AFIELDS = list(ASLOTS)
BFIELDS = ["label", "btype", "stereo", "f_order", "attrib"]
KNOWN_LIST = "C01:attrib:list-as-tuple"
KNOWN_DBL = "C01:attrib:double-as-single-float"
KNOWN_FORDER = "C01:bond.f_order:double-as-single-float"


# ====================================================================== floats at single precision
def f32_bits(x):
    """bit pattern of the single-precision value of x (numpy rounding; every NaN is one pattern)."""
    import numpy as np
    x = float(x)
    if x != x:
        return 0x7FC00000
    with np.errstate(all="ignore"):
        return int(np.array([x], dtype=np.float64).astype(np.float32).view(np.uint32)[0])


def f64_bits(x):
    x = float(x)
    if x != x:
        return 0x7FF8000000000000
    return struct.unpack(">Q", struct.pack(">d", x))[0]


def is_single(x):
    """x is exactly a single-precision value (so storing it as a single changes nothing)."""
    import numpy as np
    x = float(x)
    if x != x:
        return True
    with np.errstate(all="ignore"):
        return float(np.float32(x)) == x


# ====================================================================== tie T: sentinel execution
class Sentinel:
    """A real object whose every slot holds a unique value."""
    N_ATOMS, N_BONDS, N_CONF = 3, 2, 4

    def __init__(self, kind):
        import numpy as np
        import molli as ml
        from molli.chem import Atom
        self.kind = kind
        self.atoms = []
        for i in range(self.N_ATOMS):
            self.atoms.append(dict(element=31 + i, isotope=1001 + 10 * i, label=f"atom-label-{i}", atype=1002 + 10 * i,
                                   stereo=1003 + 10 * i, geom=1004 + 10 * i, formal_charge=1005 + 10 * i,
                                   formal_spin=1006 + 10 * i, attrib={"atom-attr": 1007 + 10 * i}))
        self.bonds = []
        for j, (i1, i2) in enumerate([(2, 0), (1, 2)]):
            self.bonds.append(dict(a1=i1, a2=i2, label=f"bond-label-{j}", btype=2001 + 10 * j, stereo=2002 + 10 * j,
                                   f_order=2003.5 + 10 * j, attrib={"bond-attr": 2004 + 10 * j}))
        self.name, self.charge, self.mult, self.attrib = "sentinel-name", 3001, 3002, {"obj-attr": 3003}
        nc = self.N_CONF if kind == "ens" else 1
        self.coords = [4000.0 + 0.5 * k for k in range(nc * self.N_ATOMS * 3)]
        self.charges = [5000.0 + 0.25 * k for k in range(nc * self.N_ATOMS)]
        self.weights = [6000.0 + 0.125 * k for k in range(nc)] if kind == "ens" else []
        atoms = [Atom(**a) for a in self.atoms]
        if kind == "mol":
            self.obj = ml.Molecule(atoms, name=self.name, charge=self.charge, mult=self.mult,
                                   coords=np.array(self.coords).reshape(self.N_ATOMS, 3),
                                   atomic_charges=np.array(self.charges), attrib=dict(self.attrib))
        else:
            self.obj = ml.ConformerEnsemble(atoms, n_conformers=nc, name=self.name, charge=self.charge, mult=self.mult,
                                            coords=np.array(self.coords).reshape(nc, self.N_ATOMS, 3),
                                            atomic_charges=np.array(self.charges).reshape(nc, self.N_ATOMS),
                                            weights=np.array(self.weights), attrib=dict(self.attrib))
        for b in self.bonds:
            self.obj.connect(b["a1"], b["a2"], **{k: (dict(v) if isinstance(v, dict) else v) for k, v in b.items()
                                                  if k not in ("a1", "a2")})

    def arrays(self):
        d = {"OCoords": self.coords, "OCharges": self.charges}
        if self.kind == "ens":
            d["OWeights"] = self.weights
        return d


def _same(a, b):
    """equality of two sentinel values that does not confuse 1 / 1.0 / True or list / dict kinds"""
    if isinstance(a, (dict, list, tuple)) or isinstance(b, (dict, list, tuple)):
        return type(a) is type(b) and a == b
    if isinstance(a, bool) or isinstance(b, bool):
        return a is b
    try:
        return a == b
    except Exception:
        return False


def _classify_rows(rows, descs, fields, slots):
    """rows: list of tuples (one per atom/bond); descs: the sentinel values per atom/bond.
    -> slot name per tuple position (Odd when the rows disagree or the value is unknown)."""
    if not rows or any(not isinstance(r, (tuple, list)) for r in rows) or len({len(r) for r in rows}) != 1:
        return None
    out = []
    for q in range(len(rows[0])):
        names = set()
        for r, d in zip(rows, descs):
            hit = [f for f in fields if _same(r[q], d[f])]
            names.add(hit[0] if len(hit) == 1 else None)
        nm = names.pop() if len(names) == 1 else None
        out.append(slots[nm] if nm else None)
    return out


def ser_wiring(S, ser):
    """position -> slot of a serialiser, from the values it produced for the sentinel object S."""
    import numpy as np
    out = ser(S.obj)
    oser, aser, bser, sdt = [], None, None, {}
    for v in out:
        slot = "OOdd"
        if isinstance(v, (bytes, bytearray)):
            for nm, arr in S.arrays().items():
                for dt, dn in DTYPES.items():
                    with np.errstate(all="ignore"):
                        if np.array(arr, dtype=np.float64).astype(dt).tobytes() == bytes(v) and nm not in sdt:
                            slot, sdt[nm] = nm, dn
                            break
                if slot != "OOdd":
                    break
        elif isinstance(v, (list, tuple)):
            if len(v) == S.N_ATOMS and aser is None and (r := _classify_rows(list(v), S.atoms, AFIELDS, ASLOTS)) and "AElement" in r:
                slot, aser = "OAtoms", r
            elif len(v) == S.N_BONDS and bser is None and (r := _classify_rows(list(v), S.bonds, list(BSLOTS), BSLOTS)) and "BA1" in r:
                slot, bser = "OBonds", r
        elif isinstance(v, dict):
            slot = "OAttrib" if _same(v, S.attrib) else "OOdd"
        elif isinstance(v, str):
            slot = "OName" if v == S.name else "OOdd"
        elif isinstance(v, int) and not isinstance(v, bool):
            slot = {S.N_ATOMS: "ONAtoms", S.N_BONDS: "ONBonds", S.charge: "OCharge", S.mult: "OMult"}.get(int(v), "OOdd")
            if S.kind == "ens" and int(v) == S.N_CONF:
                slot = "ONConf"
        oser.append(slot)
    return out, oser, aser or [], bser or [], sdt


def obj_fields(o, kind):
    """every observable field of a molecule / ensemble as plain python data"""
    import numpy as np
    d = {"name": o.name, "charge": o.charge, "mult": o.mult, "attrib": o.attrib,
         "atoms": [{f: getattr(a, f) for f in AFIELDS} for a in o.atoms],
         "bonds": [dict(a1=o.atoms.index(b.a1), a2=o.atoms.index(b.a2), **{f: getattr(b, f) for f in BFIELDS}) for b in o.bonds],
         "coords": np.asarray(o.coords, dtype=np.float64), "charges": np.asarray(o.atomic_charges, dtype=np.float64)}
    if kind == "ens":
        d["weights"] = np.asarray(o.weights, dtype=np.float64)
        d["nconf"] = int(o.n_conformers)
    return d


def des_wiring(S, des, packed, defaults):
    """position -> field of a deserialiser: run it on the tuple `packed` (what msgpack hands to it for the sentinel
    object) and look the unique values up in the object it builds; leftovers are classified by perturbation."""
    import numpy as np
    n = len(packed)
    all_odd = (["OOdd"] * n, ["AOdd"], ["BOdd"], {})
    try:
        R0 = obj_fields(des(packed), S.kind)
    except Exception:
        return all_odd
    odes, ades, bdes, ddt = [], None, None, {}
    covered = set()
    arr_fields = {"OCoords": "coords", "OCharges": "charges", "OWeights": "weights"}
    for p, v in enumerate(packed):
        slot = None
        if isinstance(v, (bytes, bytearray)):
            for nm, f in arr_fields.items():
                if f not in R0 or nm in ddt:
                    continue
                for dt, dn in DTYPES.items():
                    if len(v) % np.dtype(dt).itemsize:
                        continue
                    with np.errstate(all="ignore"):
                        got = np.frombuffer(bytes(v), dtype=dt).astype(np.float64)
                    if got.size == R0[f].size and got.size and np.array_equal(got, R0[f].reshape(-1)):
                        slot, ddt[nm] = nm, dn
                        break
                if slot:
                    break
        elif isinstance(v, (list, tuple)) and v and all(isinstance(r, (list, tuple)) for r in v):
            if len(v) == len(R0["atoms"]) and ades is None and (r := _classify_rows(list(v), R0["atoms"], AFIELDS, ASLOTS)) and "AElement" in r:
                slot, ades = "OAtoms", r
            elif len(v) == len(R0["bonds"]) and bdes is None and (r := _classify_rows(list(v), R0["bonds"], list(BSLOTS), BSLOTS)) and "BA1" in r:
                slot, bdes = "OBonds", r
        else:
            for nm, f in (("OName", "name"), ("OCharge", "charge"), ("OMult", "mult"), ("OAttrib", "attrib")):
                if nm not in covered and type(v) is type(R0[f]) and _same(v, R0[f]):
                    slot = nm
                    break
        if slot is None and isinstance(v, int) and not isinstance(v, bool):
            # reaches no field: shape parameter or unused?
            t2 = list(packed)
            t2[p] = v + 1
            try:
                R1 = obj_fields(des(tuple(t2)), S.kind)
                same = json.dumps(_plain(R1), sort_keys=True) == json.dumps(_plain(R0), sort_keys=True)
                slot = "OSkip" if same else "OOdd"
            except Exception:
                if v == len(R0["atoms"]) and "ONAtoms" not in covered:
                    slot = "ONAtoms"
                elif S.kind == "ens" and v == R0.get("nconf") and "ONConf" not in covered:
                    slot = "ONConf"
                else:
                    slot = "OOdd"
        slot = slot or "OOdd"
        covered.add(slot)
        odes.append(slot)
    # a field that no position feeds must hold the constructor default, otherwise the run is not a pure wiring
    ades, bdes = ades or [], bdes or []
    for a in R0["atoms"]:
        for f in AFIELDS:
            if ASLOTS[f] not in ades and not _same(_pv(a[f]), _pv(defaults["atom"][f])):
                ades = ades + ["AOdd"]
    for b in R0["bonds"]:
        for f in BFIELDS:
            if BSLOTS[f] not in bdes and not _same(_pv(b[f]), _pv(defaults["bond"][f])):
                bdes = bdes + ["BOdd"]
    for nm, f in (("OName", "name"), ("OCharge", "charge"), ("OMult", "mult"), ("OAttrib", "attrib")):
        if nm not in odes and not _same(_pv(R0[f]), _pv(defaults["obj"][f])):
            odes = odes + ["OOdd"]
    return odes, ades, bdes, ddt


def _pv(v):
    """plain value: IntEnum -> int"""
    import enum
    if isinstance(v, enum.IntEnum):
        return int(v)
    return v


def _plain(d):
    import numpy as np
    if isinstance(d, dict):
        return {str(k): _plain(v) for k, v in d.items()}
    if isinstance(d, (list, tuple)):
        return [_plain(x) for x in d]
    if isinstance(d, np.ndarray):
        return [float(x).hex() for x in d.reshape(-1)] + [list(d.shape)]
    if isinstance(d, float):
        return d.hex()
    if isinstance(d, bytes):
        return d.hex()
    return _pv(d)


def constructor_defaults():
    import molli as ml
    from molli.chem import Atom, Bond
    a = Atom()
    x, y = Atom(), Atom()
    b = Bond(x, y)
    m = ml.Molecule()
    return {"atom": {f: getattr(a, f) for f in AFIELDS}, "bond": {f: getattr(b, f) for f in BFIELDS},
            "obj": {"name": m.name, "charge": m.charge, "mult": m.mult, "attrib": m.attrib}}


def max_element():
    from molli.chem import Element
    z = -1
    while z < 400:
        try:
            Element.get(z + 1)
        except Exception:
            break
        z += 1
    return z


def observe_wirings():
    """-> {codec: dict(ens, oser, odes, aser, ades, bser, bdes, sdt, ddt)}, defaults, max element."""
    import msgpack
    import molli.chem.io as mio
    dfl = constructor_defaults()
    W = {}
    for codec, (kind, ver) in CODECS.items():
        S = Sentinel(kind)
        ser = getattr(mio, f"_serialize_{kind}_v{ver}", None)
        des = getattr(mio, f"_deserialize_{kind}_v{ver}", None)
        w = dict(ens=(kind == "ens"), oser=["OOdd"], odes=["OOdd"], aser=["AOdd"], ades=["AOdd"], bser=["BOdd"], bdes=["BOdd"],
                 sdt={}, ddt={})
        if ser is not None and des is not None:
            try:
                out, w["oser"], w["aser"], w["bser"], w["sdt"] = ser_wiring(S, ser)
                w["aser"] = [x or "AOdd" for x in w["aser"]]
                w["bser"] = [x or "BOdd" for x in w["bser"]]
                # the real msgpack trip of molli/chem/library.py
                packed = msgpack.loads(msgpack.dumps(out, use_single_float=True), use_list=False, strict_map_key=False)
                od, ad, bd, w["ddt"] = des_wiring(S, des, packed, dfl)
                w["odes"], w["ades"], w["bdes"] = od, [x or "AOdd" for x in ad], [x or "BOdd" for x in bd]
            except Exception as e:   # fail closed: an unclassifiable run is an all-Odd wiring
                w["error"] = f"{type(e).__name__}: {e}"
        W[codec] = w
    return W, dfl, max_element()


def cq_wiring(name, w):
    dts = lambda d: cq_list(f"({k}, {v})" for k, v in sorted(d.items()))
    return (f"Definition {name} : wiring :=\n  mk_wiring {cq_bool(w['ens'])}\n    {cq_list(w['oser'])}\n    {cq_list(w['odes'])}\n"
            f"    {cq_list(w['aser'])}\n    {cq_list(w['ades'])}\n    {cq_list(w['bser'])}\n    {cq_list(w['bdes'])}\n"
            f"    {dts(w['sdt'])}\n    {dts(w['ddt'])}\n    gen_adflt gen_bdflt.\n")


def gen_text(W, dfl, zmax):
    a, b, o = dfl["atom"], dfl["bond"], dfl["obj"]
    txt = ("(* REGENERATED on every run by harness/c01.py from the behaviour of molli/chem/io.py on sentinel objects\n"
           "   (position -> slot wiring of the four serialisers and the four deserialisers, array dtypes, constructor\n"
           "   defaults, largest atomic number) -- do not edit. *)\n"
           "From Coq Require Import ZArith NArith String List.\nImport ListNotations.\n"
           "From Molli Require Import Common.ParseStr Model.Codec.\nLocal Open Scope string_scope.\n\n"
           f"Definition gen_adflt : atom :=\n  mk_atom {' '.join(cq_val(a[f]) for f in AFIELDS)}.\n"
           f"Definition gen_bdflt : bond :=\n  mk_bond 0%N 0%N {' '.join(cq_val(b[f]) for f in BFIELDS)}.\n"
           f"Definition gen_max_element : Z := {cq_Z(zmax)}.\n"
           f"Definition gen_obj_defaults : list val := [{cq_val(o['name'])}; {cq_val(o['charge'])}; {cq_val(o['mult'])}; {cq_val(o['attrib'])}].\n\n")
    names = {"MolV2": "mol_v2", "EnsV2": "ens_v2", "MolV1": "mol_v1", "EnsV1": "ens_v1"}
    for c, nm in names.items():
        txt += cq_wiring(nm, W[c]) + "\n"
    txt += ("Inductive codec := MolV2 | EnsV2 | MolV1 | EnsV1.\n"
            "Definition wiring_of (c : codec) : wiring :=\n  match c with MolV2 => mol_v2 | EnsV2 => ens_v2 | MolV1 => mol_v1 | EnsV1 => ens_v1 end.\n"
            "(* correspondence check of one stored object: (codec, object written, what was read back) *)\n"
            "Definition check_case (c : codec * obj * outcome) : bool :=\n  let '(k, i, s) := c in check_with (wiring_of k) i s.\n")
    return txt


# ====================================================================== values <-> Coq / JSON
def cq_val(v):
    """python value -> Coq `val` term (IntEnum -> int; floats at single precision, see Model/Codec.v)"""
    import enum
    import numpy as np
    if v is None:
        return "VNone"
    if isinstance(v, (bool, np.bool_)):
        return f"(VBool {cq_bool(bool(v))})"
    if isinstance(v, (int, enum.IntEnum, np.integer)):
        return f"(VInt {cq_Z(int(v))})"
    if isinstance(v, (float, np.floating)):
        v = float(v)
        if is_single(v):
            return f"(VF32 {cq_Z(f32_bits(v))})"
        return f"(VDbl {cq_Z(f64_bits(v))} {cq_Z(f32_bits(v))})"
    if isinstance(v, str):
        return f"(VStr {cq_str(v)})"
    if isinstance(v, (bytes, bytearray)):
        return "(VBytes " + cq_list(cq_N(x) for x in bytes(v)) + ")"
    if isinstance(v, list):
        return "(VList " + cq_list(cq_val(x) for x in v) + ")"
    if isinstance(v, tuple):
        return "(VTup " + cq_list(cq_val(x) for x in v) + ")"
    if isinstance(v, dict):
        items = sorted(((cq_val(k), cq_val(x)) for k, x in v.items()), key=lambda kv: kv[0])
        return "(VMap " + cq_list(f"({k}, {x})" for k, x in items) + ")"
    raise TypeError(f"not a msgpack-able value: {type(v).__name__}")


def to_j(v):
    """msgpack-able python value -> JSON-able description"""
    if v is None or isinstance(v, (bool, str)):
        return v
    if isinstance(v, int):
        return int(v)
    if isinstance(v, float):
        return {"f": float(v).hex()}
    if isinstance(v, (bytes, bytearray)):
        return {"b": bytes(v).hex()}
    if isinstance(v, list):
        return [to_j(x) for x in v]
    if isinstance(v, tuple):
        return {"t": [to_j(x) for x in v]}
    if isinstance(v, dict):
        return {"m": [[to_j(k), to_j(x)] for k, x in v.items()]}
    raise TypeError(type(v).__name__)


def from_j(j):
    if j is None or isinstance(j, (bool, str, int)):
        return j
    if isinstance(j, list):
        return [from_j(x) for x in j]
    if "f" in j:
        return float.fromhex(j["f"])
    if "b" in j:
        return bytes.fromhex(j["b"])
    if "t" in j:
        return tuple(from_j(x) for x in j["t"])
    return {(_hashable(from_j(k))): from_j(x) for k, x in j["m"]}


def _hashable(k):
    return tuple(_hashable(x) for x in k) if isinstance(k, (list, tuple)) else k
