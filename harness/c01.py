"""C01 -- library round trip: what is stored in a .mlib/.clib is what is read back.

Tie T (sentinel execution, regenerated every run into coq/Gen/IoWiring.v): the four serialisers of molli/chem/io.py
are executed on a real Molecule / ConformerEnsemble in which EVERY slot holds a value that occurs nowhere else; the
position of each value in the produced tuple is the serialiser's position -> slot wiring, and the byte strings are
matched against candidate dtypes.  The four deserialisers are executed on that tuple (after the real msgpack trip) and
the resulting object is searched for the same unique values: position -> field wiring of the deserialiser; positions
that reach no field are classified by perturbation (decoding fails = shape parameter, nothing changes = unused).
`Proofs/Codec.v: roundtrip_of_wiring` is proved once for every wiring accepted by the boolean `wiring_ok`; Props/C01.v
instantiates it on the regenerated tables by kernel computation.

Tie H: generated molecules / ensembles (and every entry of the bundled libraries) are stored through
MoleculeLibrary / ConformerLibrary `writing()` sessions and read back through a FRESH handle in a `reading()`
session, for the current (v2) and the legacy (v1, magic ML10Library) encodings; the object read back is compared
with the model's `roundtrip` inside Coq (shards closed by vm_compute) and, independently, field by field by the
Python oracle below (exact, except coordinates / partial charges / weights at single precision).
"""
import os, sys, json, math, struct, itertools, copy
import vlib
from vlib import cq_list, cq_str, cq_Z, cq_N, cq_bool

GEN = os.path.join(vlib.COQ, "Gen", "IoWiring.v")
ASLOTS = {"element": "AElement", "isotope": "AIsotope", "label": "ALabel", "atype": "AAtype", "stereo": "AStereo",
          "geom": "AGeom", "formal_charge": "AFCharge", "formal_spin": "AFSpin", "attrib": "AAttrib"}
BSLOTS = {"a1": "BA1", "a2": "BA2", "label": "BLabel", "btype": "BBtype", "stereo": "BStereo", "f_order": "BFOrder",
          "attrib": "BAttrib"}
DTYPES = {">f2": "F2BE", "<f2": "F2LE", ">f4": "F4BE", "<f4": "F4LE", ">f8": "F8BE", "<f8": "F8LE"}
CODECS = {"MolV2": ("mol", 2), "EnsV2": ("ens", 2), "MolV1": ("mol", 1), "EnsV1": ("ens", 1)}
AFIELDS = list(ASLOTS)
BFIELDS = ["label", "btype", "stereo", "f_order", "attrib"]
KNOWN_LIST = "C01:attrib:list-as-tuple"
KNOWN_DBL = "C01:attrib:double-as-single-float"
KNOWN_FORDER = "C01:bond.f_order:double-as-single-float"
KNOWN_RANGE = "C01:attrib:double-beyond-single-range-refused"


# ====================================================================== floats at single precision
def f32_bits(x):
    """bit pattern of the single-precision value of x (numpy rounding; every NaN is one pattern)."""
    import numpy as np
    x = float(x)
    if x != x:
        return 0x7FC00000
    with np.errstate(all="ignore"):
        return int(np.array([x], dtype=np.float64).astype(np.float32).view(np.uint32)[0])


def f64_bits(x):
    x = float(x)
    if x != x:
        return 0x7FF8000000000000
    return struct.unpack(">Q", struct.pack(">d", x))[0]


def is_single(x):
    """x is exactly a single-precision value (so storing it as a single changes nothing)."""
    import numpy as np
    x = float(x)
    if x != x:
        return True
    with np.errstate(all="ignore"):
        return float(np.float32(x)) == x


# ====================================================================== tie T: sentinel execution
class Sentinel:
    """A real object whose every slot holds a unique value."""
    N_ATOMS, N_BONDS, N_CONF = 3, 2, 4

    def __init__(self, kind):
        import numpy as np
        import molli as ml
        from molli.chem import Atom
        self.kind = kind
        self.atoms = []
        for i in range(self.N_ATOMS):
            self.atoms.append(dict(element=31 + i, isotope=1001 + 10 * i, label=f"atom-label-{i}", atype=1002 + 10 * i,
                                   stereo=1003 + 10 * i, geom=1004 + 10 * i, formal_charge=1005 + 10 * i,
                                   formal_spin=1006 + 10 * i, attrib={"atom-attr": 1007 + 10 * i}))
        self.bonds = []
        for j, (i1, i2) in enumerate([(2, 0), (1, 2)]):
            self.bonds.append(dict(a1=i1, a2=i2, label=f"bond-label-{j}", btype=2001 + 10 * j, stereo=2002 + 10 * j,
                                   f_order=2003.5 + 10 * j, attrib={"bond-attr": 2004 + 10 * j}))
        self.name, self.charge, self.mult, self.attrib = "sentinel-name", 3001, 3002, {"obj-attr": 3003}
        nc = self.N_CONF if kind == "ens" else 1
        self.coords = [4000.0 + 0.5 * k for k in range(nc * self.N_ATOMS * 3)]
        self.charges = [5000.0 + 0.25 * k for k in range(nc * self.N_ATOMS)]
        self.weights = [6000.0 + 0.125 * k for k in range(nc)] if kind == "ens" else []
        atoms = [Atom(**a) for a in self.atoms]
        if kind == "mol":
            self.obj = ml.Molecule(atoms, name=self.name, charge=self.charge, mult=self.mult,
                                   coords=np.array(self.coords).reshape(self.N_ATOMS, 3),
                                   atomic_charges=np.array(self.charges), attrib=dict(self.attrib))
        else:
            self.obj = ml.ConformerEnsemble(atoms, n_conformers=nc, name=self.name, charge=self.charge, mult=self.mult,
                                            coords=np.array(self.coords).reshape(nc, self.N_ATOMS, 3),
                                            atomic_charges=np.array(self.charges).reshape(nc, self.N_ATOMS),
                                            weights=np.array(self.weights), attrib=dict(self.attrib))
        for b in self.bonds:
            self.obj.connect(b["a1"], b["a2"], **{k: (dict(v) if isinstance(v, dict) else v) for k, v in b.items()
                                                  if k not in ("a1", "a2")})

    def arrays(self):
        d = {"OCoords": self.coords, "OCharges": self.charges}
        if self.kind == "ens":
            d["OWeights"] = self.weights
        return d


def _same(a, b):
    """equality of two sentinel values that does not confuse 1 / 1.0 / True or list / dict kinds"""
    if isinstance(a, (dict, list, tuple)) or isinstance(b, (dict, list, tuple)):
        return type(a) is type(b) and a == b
    if isinstance(a, bool) or isinstance(b, bool):
        return a is b
    try:
        return a == b
    except Exception:
        return False


def _classify_rows(rows, descs, fields, slots):
    """rows: list of tuples (one per atom/bond); descs: the sentinel values per atom/bond.
    -> slot name per tuple position (Odd when the rows disagree or the value is unknown)."""
    if not rows or any(not isinstance(r, (tuple, list)) for r in rows) or len({len(r) for r in rows}) != 1:
        return None
    out = []
    for q in range(len(rows[0])):
        names = set()
        for r, d in zip(rows, descs):
            hit = [f for f in fields if _same(r[q], d[f])]
            names.add(hit[0] if len(hit) == 1 else None)
        nm = names.pop() if len(names) == 1 else None
        out.append(slots[nm] if nm else None)
    return out


def ser_wiring(S, ser):
    """position -> slot of a serialiser, from the values it produced for the sentinel object S."""
    import numpy as np
    out = ser(S.obj)
    oser, aser, bser, sdt = [], None, None, {}
    for v in out:
        slot = "OOdd"
        if isinstance(v, (bytes, bytearray)):
            for nm, arr in S.arrays().items():
                for dt, dn in DTYPES.items():
                    with np.errstate(all="ignore"):
                        if np.array(arr, dtype=np.float64).astype(dt).tobytes() == bytes(v) and nm not in sdt:
                            slot, sdt[nm] = nm, dn
                            break
                if slot != "OOdd":
                    break
        elif isinstance(v, (list, tuple)):
            if len(v) == S.N_ATOMS and aser is None and (r := _classify_rows(list(v), S.atoms, AFIELDS, ASLOTS)) and "AElement" in r:
                slot, aser = "OAtoms", r
            elif len(v) == S.N_BONDS and bser is None and (r := _classify_rows(list(v), S.bonds, list(BSLOTS), BSLOTS)) and "BA1" in r:
                slot, bser = "OBonds", r
        elif isinstance(v, dict):
            slot = "OAttrib" if _same(v, S.attrib) else "OOdd"
        elif isinstance(v, str):
            slot = "OName" if v == S.name else "OOdd"
        elif isinstance(v, int) and not isinstance(v, bool):
            slot = {S.N_ATOMS: "ONAtoms", S.N_BONDS: "ONBonds", S.charge: "OCharge", S.mult: "OMult"}.get(int(v), "OOdd")
            if S.kind == "ens" and int(v) == S.N_CONF:
                slot = "ONConf"
        oser.append(slot)
    return out, oser, aser or [], bser or [], sdt


def obj_fields(o, kind):
    """every observable field of a molecule / ensemble as plain python data"""
    import numpy as np
    d = {"name": o.name, "charge": o.charge, "mult": o.mult, "attrib": o.attrib,
         "atoms": [{f: getattr(a, f) for f in AFIELDS} for a in o.atoms],
         "bonds": [dict(a1=o.atoms.index(b.a1), a2=o.atoms.index(b.a2), **{f: getattr(b, f) for f in BFIELDS}) for b in o.bonds],
         "coords": np.asarray(o.coords, dtype=np.float64), "charges": np.asarray(o.atomic_charges, dtype=np.float64)}
    if kind == "ens":
        d["weights"] = np.asarray(o.weights, dtype=np.float64)
        d["nconf"] = int(o.n_conformers)
    return d


def des_wiring(S, des, packed, defaults):
    """position -> field of a deserialiser: run it on the tuple `packed` (what msgpack hands to it for the sentinel
    object) and look the unique values up in the object it builds; leftovers are classified by perturbation."""
    import numpy as np
    n = len(packed)
    all_odd = (["OOdd"] * n, ["AOdd"], ["BOdd"], {})
    try:
        R0 = obj_fields(des(packed), S.kind)
    except Exception:
        return all_odd
    odes, ades, bdes, ddt = [], None, None, {}
    covered = set()
    arr_fields = {"OCoords": "coords", "OCharges": "charges", "OWeights": "weights"}
    for p, v in enumerate(packed):
        slot = None
        if isinstance(v, (bytes, bytearray)):
            for nm, f in arr_fields.items():
                if f not in R0 or nm in ddt:
                    continue
                for dt, dn in DTYPES.items():
                    if len(v) % np.dtype(dt).itemsize:
                        continue
                    with np.errstate(all="ignore"):
                        got = np.frombuffer(bytes(v), dtype=dt).astype(np.float64)
                    if got.size == R0[f].size and got.size and np.array_equal(got, R0[f].reshape(-1)):
                        slot, ddt[nm] = nm, dn
                        break
                if slot:
                    break
        elif isinstance(v, (list, tuple)) and v and all(isinstance(r, (list, tuple)) for r in v):
            if len(v) == len(R0["atoms"]) and ades is None and (r := _classify_rows(list(v), R0["atoms"], AFIELDS, ASLOTS)) and "AElement" in r:
                slot, ades = "OAtoms", r
            elif len(v) == len(R0["bonds"]) and bdes is None and (r := _classify_rows(list(v), R0["bonds"], list(BSLOTS), BSLOTS)) and "BA1" in r:
                slot, bdes = "OBonds", r
        else:
            for nm, f in (("OName", "name"), ("OCharge", "charge"), ("OMult", "mult"), ("OAttrib", "attrib")):
                if nm not in covered and type(v) is type(R0[f]) and _same(v, R0[f]):
                    slot = nm
                    break
        if slot is None and isinstance(v, int) and not isinstance(v, bool):
            # reaches no field: shape parameter or unused?
            t2 = list(packed)
            t2[p] = v + 1
            try:
                R1 = obj_fields(des(tuple(t2)), S.kind)
                same = json.dumps(_plain(R1), sort_keys=True) == json.dumps(_plain(R0), sort_keys=True)
                slot = "OSkip" if same else "OOdd"
            except Exception:
                if v == len(R0["atoms"]) and "ONAtoms" not in covered:
                    slot = "ONAtoms"
                elif S.kind == "ens" and v == R0.get("nconf") and "ONConf" not in covered:
                    slot = "ONConf"
                else:
                    slot = "OOdd"
        slot = slot or "OOdd"
        covered.add(slot)
        odes.append(slot)
    # a field that no position feeds must hold the constructor default, otherwise the run is not a pure wiring
    ades, bdes = ades or [], bdes or []
    for a in R0["atoms"]:
        for f in AFIELDS:
            if ASLOTS[f] not in ades and not _same(_pv(a[f]), _pv(defaults["atom"][f])):
                ades = ades + ["AOdd"]
    for b in R0["bonds"]:
        for f in BFIELDS:
            if BSLOTS[f] not in bdes and not _same(_pv(b[f]), _pv(defaults["bond"][f])):
                bdes = bdes + ["BOdd"]
    for nm, f in (("OName", "name"), ("OCharge", "charge"), ("OMult", "mult"), ("OAttrib", "attrib")):
        if nm not in odes and not _same(_pv(R0[f]), _pv(defaults["obj"][f])):
            odes = odes + ["OOdd"]
    return odes, ades, bdes, ddt


def _pv(v):
    """plain value: IntEnum -> int"""
    import enum
    if isinstance(v, enum.IntEnum):
        return int(v)
    return v


def _plain(d):
    import numpy as np
    if isinstance(d, dict):
        return {str(k): _plain(v) for k, v in d.items()}
    if isinstance(d, (list, tuple)):
        return [_plain(x) for x in d]
    if isinstance(d, np.ndarray):
        return [float(x).hex() for x in d.reshape(-1)] + [list(d.shape)]
    if isinstance(d, float):
        return d.hex()
    if isinstance(d, bytes):
        return d.hex()
    return _pv(d)


def constructor_defaults():
    import molli as ml
    from molli.chem import Atom, Bond
    a = Atom()
    x, y = Atom(), Atom()
    b = Bond(x, y)
    m = ml.Molecule()
    return {"atom": {f: getattr(a, f) for f in AFIELDS}, "bond": {f: getattr(b, f) for f in BFIELDS},
            "obj": {"name": m.name, "charge": m.charge, "mult": m.mult, "attrib": m.attrib}}


def max_element():
    from molli.chem import Element
    z = -1
    while z < 400:
        try:
            Element.get(z + 1)
        except Exception:
            break
        z += 1
    return z


def observe_wirings():
    """-> {codec: dict(ens, oser, odes, aser, ades, bser, bdes, sdt, ddt)}, defaults, max element."""
    import msgpack
    import molli.chem.io as mio
    dfl = constructor_defaults()
    W = {}
    for codec, (kind, ver) in CODECS.items():
        S = Sentinel(kind)
        ser = getattr(mio, f"_serialize_{kind}_v{ver}", None)
        des = getattr(mio, f"_deserialize_{kind}_v{ver}", None)
        w = dict(ens=(kind == "ens"), oser=["OOdd"], odes=["OOdd"], aser=["AOdd"], ades=["AOdd"], bser=["BOdd"], bdes=["BOdd"],
                 sdt={}, ddt={})
        if ser is not None and des is not None:
            try:
                out, w["oser"], w["aser"], w["bser"], w["sdt"] = ser_wiring(S, ser)
                w["aser"] = [x or "AOdd" for x in w["aser"]]
                w["bser"] = [x or "BOdd" for x in w["bser"]]
                # the real msgpack trip of molli/chem/library.py
                packed = msgpack.loads(msgpack.dumps(out, use_single_float=True), use_list=False, strict_map_key=False)
                od, ad, bd, w["ddt"] = des_wiring(S, des, packed, dfl)
                w["odes"], w["ades"], w["bdes"] = od, [x or "AOdd" for x in ad], [x or "BOdd" for x in bd]
            except Exception as e:   # fail closed: an unclassifiable run is an all-Odd wiring
                w["error"] = f"{type(e).__name__}: {e}"
        W[codec] = w
    return W, dfl, max_element()


def cq_wiring(name, w):
    dts = lambda d: cq_list(f"({k}, {v})" for k, v in sorted(d.items()))
    return (f"Definition {name} : wiring :=\n  mk_wiring {cq_bool(w['ens'])}\n    {cq_list(w['oser'])}\n    {cq_list(w['odes'])}\n"
            f"    {cq_list(w['aser'])}\n    {cq_list(w['ades'])}\n    {cq_list(w['bser'])}\n    {cq_list(w['bdes'])}\n"
            f"    {dts(w['sdt'])}\n    {dts(w['ddt'])}\n    gen_adflt gen_bdflt.\n")


def gen_text(W, dfl, zmax):
    a, b, o = dfl["atom"], dfl["bond"], dfl["obj"]
    txt = ("(* REGENERATED on every run by harness/c01.py from the behaviour of molli/chem/io.py on sentinel objects\n"
           "   (position -> slot wiring of the four serialisers and the four deserialisers, array dtypes, constructor\n"
           "   defaults, largest atomic number) -- do not edit. *)\n"
           "From Coq Require Import ZArith NArith String List.\nImport ListNotations.\n"
           "From Molli Require Import Common.ParseStr Model.Codec.\nLocal Open Scope string_scope.\n\n"
           f"Definition gen_adflt : atom :=\n  mk_atom {' '.join(cq_val(a[f]) for f in AFIELDS)}.\n"
           f"Definition gen_bdflt : bond :=\n  mk_bond 0%N 0%N {' '.join(cq_val(b[f]) for f in BFIELDS)}.\n"
           f"Definition gen_max_element : Z := {cq_Z(zmax)}.\n"
           f"Definition gen_obj_defaults : list val := [{cq_val(o['name'])}; {cq_val(o['charge'])}; {cq_val(o['mult'])}; {cq_val(o['attrib'])}].\n\n")
    names = {"MolV2": "mol_v2", "EnsV2": "ens_v2", "MolV1": "mol_v1", "EnsV1": "ens_v1"}
    for c, nm in names.items():
        txt += cq_wiring(nm, W[c]) + "\n"
    txt += ("Inductive codec := MolV2 | EnsV2 | MolV1 | EnsV1.\n"
            "Definition wiring_of (c : codec) : wiring :=\n  match c with MolV2 => mol_v2 | EnsV2 => ens_v2 | MolV1 => mol_v1 | EnsV1 => ens_v1 end.\n"
            "(* correspondence check of one stored object: (codec, object written, what was read back) *)\n"
            "Definition check_case (c : codec * obj * outcome) : bool :=\n  let '(k, i, s) := c in check_with (wiring_of k) i s.\n")
    return txt


# ====================================================================== values <-> Coq / JSON
def cq_val(v):
    """python value -> Coq `val` term (IntEnum -> int; floats at single precision, see Model/Codec.v)"""
    import enum
    import numpy as np
    if v is None:
        return "VNone"
    if isinstance(v, (bool, np.bool_)):
        return f"(VBool {cq_bool(bool(v))})"
    if isinstance(v, (int, enum.IntEnum, np.integer)):
        return f"(VInt {cq_Z(int(v))})"
    if isinstance(v, (float, np.floating)):
        v = float(v)
        if is_single(v):
            return f"(VF32 {cq_Z(f32_bits(v))})"
        return f"(VDbl {cq_Z(f64_bits(v))} {cq_Z(f32_bits(v))})"
    if isinstance(v, str):
        return f"(VStr {cq_str(v)})"
    if isinstance(v, (bytes, bytearray)):
        return "(VBytes " + cq_list(cq_N(x) for x in bytes(v)) + ")"
    if isinstance(v, list):
        return "(VList " + cq_list(cq_val(x) for x in v) + ")"
    if isinstance(v, tuple):
        return "(VTup " + cq_list(cq_val(x) for x in v) + ")"
    if isinstance(v, dict):
        items = sorted(((cq_val(k), cq_val(x)) for k, x in v.items()), key=lambda kv: kv[0])
        return "(VMap " + cq_list(f"({k}, {x})" for k, x in items) + ")"
    raise TypeError(f"not a msgpack-able value: {type(v).__name__}")


def to_j(v):
    """msgpack-able python value -> JSON-able description"""
    if v is None or isinstance(v, (bool, str)):
        return v
    if isinstance(v, int):
        return int(v)
    if isinstance(v, float):
        return {"f": float(v).hex()}
    if isinstance(v, (bytes, bytearray)):
        return {"b": bytes(v).hex()}
    if isinstance(v, list):
        return [to_j(x) for x in v]
    if isinstance(v, tuple):
        return {"t": [to_j(x) for x in v]}
    if isinstance(v, dict):
        return {"m": [[to_j(k), to_j(x)] for k, x in v.items()]}
    import numpy as np
    if isinstance(v, np.ndarray):        # goes through msgpack_numpy (patched in by molli.config); oracle only
        return {"nd": v.dtype.str, "shape": list(v.shape), "hex": v.tobytes().hex()}
    raise TypeError(type(v).__name__)


def from_j(j):
    if j is None or isinstance(j, (bool, str, int)):
        return j
    if isinstance(j, list):
        return [from_j(x) for x in j]
    if "f" in j:
        return float.fromhex(j["f"])
    if "b" in j:
        return bytes.fromhex(j["b"])
    if "t" in j:
        return tuple(from_j(x) for x in j["t"])
    if "nd" in j:
        import numpy as np
        return np.frombuffer(bytes.fromhex(j["hex"]), dtype=j["nd"]).reshape(j["shape"]).copy()
    return {(_hashable(from_j(k))): from_j(x) for k, x in j["m"]}


def _hashable(k):
    return tuple(_hashable(x) for x in k) if isinstance(k, (list, tuple)) else k


# ====================================================================== objects <-> descriptions
def enum_tables():
    from molli.chem import AtomType, AtomStereo, AtomGeom, BondType, BondStereo
    return {"atype": [int(x) for x in AtomType], "astereo": [int(x) for x in AtomStereo], "geom": [int(x) for x in AtomGeom],
            "btype": [int(x) for x in BondType], "bstereo": [int(x) for x in BondStereo]}


def build(desc):
    """description (JSON-able) -> a real Molecule / ConformerEnsemble, through the public constructors only"""
    import numpy as np
    import molli as ml
    from molli.chem import Atom, Element, AtomType, AtomStereo, AtomGeom, BondType, BondStereo
    atoms = [Atom(element=Element(a["element"]), isotope=a["isotope"], label=a["label"], atype=AtomType(a["atype"]),
                  stereo=AtomStereo(a["stereo"]), geom=AtomGeom(a["geom"]), formal_charge=a["formal_charge"],
                  formal_spin=a["formal_spin"], attrib=from_j(a["attrib"])) for a in desc["atoms"]]
    n = len(atoms)
    fl = lambda xs: np.array([float.fromhex(x) for x in xs], dtype=np.float64)
    if desc["kind"] == "mol":
        o = ml.Molecule(atoms, name=desc["name"], charge=desc["charge"], mult=desc["mult"],
                        coords=fl(desc["coords"]).reshape(n, 3), atomic_charges=fl(desc["charges"]).reshape(n),
                        attrib=from_j(desc["attrib"]))
    else:
        k = desc["nconf"]
        o = ml.ConformerEnsemble(atoms if n else None, n_conformers=k, n_atoms=0, name=desc["name"], charge=desc["charge"],
                                 mult=desc["mult"], coords=fl(desc["coords"]).reshape(k, n, 3),
                                 weights=fl(desc["weights"]).reshape(k), atomic_charges=fl(desc["charges"]).reshape(k, n),
                                 attrib=from_j(desc["attrib"]))
    for b in desc["bonds"]:
        o.connect(b["a1"], b["a2"], label=b["label"], btype=BondType(b["btype"]), stereo=BondStereo(b["stereo"]),
                  f_order=float.fromhex(b["f_order"]), attrib=from_j(b["attrib"]))
    if desc.get("adopt") and n >= 2:
        # the object's Atom objects are also listed, in another order, by a second container built afterwards (the public
        # constructors adopt atoms without copying): the stored object is unchanged by that, and so must be what is read back
        other = ml.Molecule(list(reversed(o.atoms)))
        if desc["adopt"] == "kept":
            ADOPTERS.append(other)
        del other
    return o


ADOPTERS = []     # second containers kept alive for the whole run


def describe(o, kind):
    """a real object -> every field the property lists, as plain python data (enum members as ints)"""
    import numpy as np
    d = {"kind": kind, "name": o.name, "charge": _pv(o.charge), "mult": _pv(o.mult), "attrib": copy.deepcopy(o.attrib),
         "atoms": [{f: _pv(copy.deepcopy(getattr(a, f))) for f in AFIELDS} for a in o.atoms],
         "bonds": [dict(a1=o.atoms.index(b.a1), a2=o.atoms.index(b.a2),
                        **{f: _pv(copy.deepcopy(getattr(b, f))) for f in BFIELDS}) for b in o.bonds],
         "n_atoms": int(o.n_atoms), "n_bonds": int(o.n_bonds),
         "coords": [float(x) for x in np.asarray(o.coords, dtype=np.float64).reshape(-1)],
         "coords_shape": tuple(np.shape(o.coords)),
         "charges": [float(x) for x in np.asarray(o.atomic_charges, dtype=np.float64).reshape(-1)],
         "charges_shape": tuple(np.shape(o.atomic_charges))}
    if kind == "ens":
        d["nconf"] = int(o.n_conformers)
        d["weights"] = [float(x) for x in np.asarray(o.weights, dtype=np.float64).reshape(-1)]
        d["weights_shape"] = tuple(np.shape(o.weights))
    else:
        d["nconf"], d["weights"], d["weights_shape"] = 0, [], (0,)
    return d


def desc_of(d):
    """describe() output -> JSON-able description accepted by build()"""
    hx = lambda xs: [float(x).hex() for x in xs]
    return {"kind": d["kind"], "name": d["name"], "charge": d["charge"], "mult": d["mult"], "attrib": to_j(d["attrib"]),
            "atoms": [{**{f: a[f] for f in AFIELDS if f != "attrib"}, "attrib": to_j(a["attrib"])} for a in d["atoms"]],
            "bonds": [{"a1": b["a1"], "a2": b["a2"], "label": b["label"], "btype": b["btype"], "stereo": b["stereo"],
                       "f_order": float(b["f_order"]).hex(), "attrib": to_j(b["attrib"])} for b in d["bonds"]],
            "nconf": d["nconf"], "coords": hx(d["coords"]), "charges": hx(d["charges"]), "weights": hx(d["weights"])}


def cq_obj(d):
    atoms = cq_list("(mk_atom " + " ".join(cq_val(a[f]) for f in AFIELDS) + ")" for a in d["atoms"])
    bonds = cq_list(f"(mk_bond {cq_N(b['a1'])} {cq_N(b['a2'])} " + " ".join(cq_val(b[f]) for f in BFIELDS) + ")" for b in d["bonds"])
    arr = lambda xs: cq_list(cq_Z(f32_bits(x)) for x in xs)
    return (f"(mk_obj {cq_val(d['name'])} {cq_val(d['charge'])} {cq_val(d['mult'])} {cq_val(d['attrib'])} {atoms} {bonds} "
            f"{cq_N(d['nconf'])} {arr(d['coords'])} {arr(d['charges'])} {arr(d['weights'])})")


# ====================================================================== the oracle (implementation only)
def _feq(a, b):
    return a == b or (a != a and b != b)


def vdiff(a, b, path, out):
    """deep comparison of two attribute values; appends (path, kind), kind in list-as-tuple / double-as-single / other"""
    import numpy as np
    a, b = _pv(a), _pv(b)
    if isinstance(a, np.ndarray) or isinstance(b, np.ndarray):
        if not (isinstance(a, np.ndarray) and isinstance(b, np.ndarray) and a.dtype == b.dtype and a.shape == b.shape
                and a.tobytes() == b.tobytes()):
            out.append((path, "other"))
    elif isinstance(a, bool) or isinstance(b, bool):
        if not (isinstance(a, bool) and isinstance(b, bool) and a == b):
            out.append((path, "other"))
    elif isinstance(a, float) and isinstance(b, float):
        if not _feq(a, b):
            out.append((path, "double-as-single" if f64_bits(b) == f64_bits(_single(a)) else "other"))
    elif isinstance(a, (list, tuple)) and isinstance(b, (list, tuple)):
        if type(a) is not type(b):
            out.append((path, "list-as-tuple" if isinstance(a, list) and isinstance(b, tuple) else "other"))
        if len(a) != len(b):
            out.append((path, "other"))
        else:
            for i, (x, y) in enumerate(zip(a, b)):
                vdiff(x, y, path, out)
    elif isinstance(a, dict) and isinstance(b, dict):
        if set(a) != set(b) or any(type(k) is not type(k2) for k, k2 in zip(sorted(a, key=repr), sorted(b, key=repr))):
            out.append((path, "other"))
        else:
            for k in a:
                vdiff(a[k], b[k], path, out)
    elif type(a) is not type(b) or a != b:
        out.append((path, "other"))


def _single(x):
    import numpy as np
    with np.errstate(all="ignore"):
        return float(np.float32(x))


def judge(inp, back, ver):
    """inp, back: describe() of the object stored / read back.  -> list of (signature, text)."""
    kind = inp["kind"]
    tag = f"C01:v{ver}:{kind}"
    vs = []

    def other(field, text):
        vs.append((f"{tag}:{field}", f"{field}: {text}"))

    def cmp_val(field, a, b, known_dbl=KNOWN_DBL):
        out = []
        vdiff(a, b, field, out)
        for _, k in out:
            if k == "list-as-tuple":
                vs.append((KNOWN_LIST, f"{field}: a list was read back as a tuple ({a!r} -> {b!r})"[:300]))
            elif k == "double-as-single":
                vs.append((known_dbl, f"{field}: a double was read back as its single-precision rounding ({a!r} -> {b!r})"[:300]))
            else:
                other(field, f"stored {a!r}, read back {b!r}"[:300])

    for f in ("name", "charge", "mult"):
        cmp_val(f, inp[f], back[f])
    if ver == 2:
        cmp_val("attrib", inp["attrib"], back["attrib"])
    for f in ("n_atoms", "n_bonds", "nconf"):
        if inp[f] != back[f]:
            other(f, f"stored {inp[f]}, read back {back[f]}")
    afs = AFIELDS if ver == 2 else AFIELDS[:6]
    bfs = BFIELDS if ver == 2 else BFIELDS[:4]
    if len(inp["atoms"]) == len(back["atoms"]):
        for i, (a, b) in enumerate(zip(inp["atoms"], back["atoms"])):
            for f in afs:
                cmp_val(f"atom.{f}", a[f], b[f])
    if len(inp["bonds"]) == len(back["bonds"]):
        for i, (a, b) in enumerate(zip(inp["bonds"], back["bonds"])):
            if (a["a1"], a["a2"]) != (b["a1"], b["a2"]):
                other("bond.endpoints", f"bond {i}: stored {(a['a1'], a['a2'])}, read back {(b['a1'], b['a2'])}")
            for f in bfs:
                cmp_val(f"bond.{f}", a[f], b[f], KNOWN_FORDER if f == "f_order" else KNOWN_DBL)
    for f in ("coords", "charges", "weights"):
        if tuple(inp[f + "_shape"]) != tuple(back[f + "_shape"]):
            other(f + ".shape", f"stored {inp[f + '_shape']}, read back {back[f + '_shape']}")
        elif [f32_bits(x) for x in inp[f]] != [f32_bits(x) for x in back[f]]:
            k = next(i for i, (x, y) in enumerate(zip(inp[f], back[f])) if f32_bits(x) != f32_bits(y))
            other(f + ".value", f"entry {k}: stored {inp[f][k]!r}, read back {back[f][k]!r} (differs at single precision)")
    seen, res = set(), []
    for s, t in vs:
        if s not in seen:
            seen.add(s)
            res.append((s, t))
    return res


# ====================================================================== storing and reading back (public API)
def lib_class(kind):
    import molli as ml
    return ml.MoleculeLibrary if kind == "mol" else ml.ConformerLibrary


def new_library(path, kind, ver):
    """an empty library file of the wanted encoding; legacy files are recognised by their magic"""
    cls = lib_class(kind)
    if os.path.exists(path):
        os.remove(path)
    if ver == 1:
        # the legacy file is made under ANOTHER name and copied into place: when `path` is first looked at it already holds a
        # legacy library (what a user's existing .mlib is); later handles select the v1 codec
        import shutil
        seed = path + ".legacy-seed"
        if os.path.exists(seed):
            os.remove(seed)
        cls(seed, readonly=False, h1=b"ML10Library")
        shutil.copyfile(seed, path)
        for junk in (seed, seed + ".lock"):
            if os.path.exists(junk):
                os.remove(junk)
    else:
        cls(path, readonly=False)


def store_and_read(path, kind, ver, objs, batch=40):
    """objs: {key: object}.  Every object is written in a writing() session of a writable handle; afterwards a FRESH
    read-only handle reads every key in a reading() session.  -> {key: ('ok', object) | ('raised', where, exception)}"""
    cls = lib_class(kind)
    new_library(path, kind, ver)
    res = {}
    keys = list(objs)
    for s in range(0, len(keys), batch):
        w = cls(path, readonly=False)
        with w.writing():
            for k in keys[s:s + batch]:
                try:
                    w[k] = objs[k]
                except Exception as e:       # noqa
                    res[k] = ("raised", "write", e)
        del w
    r = cls(path, readonly=True)
    with r.reading():
        for k in keys:
            if k in res:
                continue
            try:
                res[k] = ("ok", r[k])
            except Exception as e:           # noqa
                res[k] = ("raised", "read", e)
        # the other ways of reading a library: items(), values(), iteration, membership, length -- "reads back, under the
        # same key" holds for each of them (they must agree with r[k]; r[k] itself is judged against what was stored)
        okk = [k for k in keys if res[k][0] == "ok"]
        if okk and all(res[k][0] == "ok" or res[k][1] == "write" for k in keys):
            canon = lambda o: json.dumps(desc_of(describe(o, kind)), sort_keys=True, default=str)
            prob = {}
            try:
                its = list(r.items())
                vals = list(r.values())
                listed = list(iter(r))
                n, ni = len(r), r.n_items
                want = {k: canon(res[k][1]) for k in okk}
                if sorted(listed) != sorted(okk) or n != len(okk) or ni != len(okk) or any((k in r) is not True for k in okk) \
                        or ("no-such-key" in r):
                    prob[okk[0]] = f"listing: iter()={len(listed)} keys, len()={n}, n_items={ni}; {len(okk)} objects were stored and are readable"
                if sorted(k for k, _ in its) != sorted(okk):
                    prob[okk[0]] = f"items() yields {len(its)} keys, {len(okk)} objects were stored"
                for k, o in its:
                    if k in want and canon(o) != want[k]:
                        prob[k] = "items() returns under this key an object that differs from library[key]"
                if sorted(canon(o) for o in vals) != sorted(want.values()):
                    prob.setdefault(okk[0], "values() is not the collection of the objects library[key] returns")
                # what a read returns belongs to the caller: spoiling it must not change what the next read of the same key
                # returns through the same handle (an object cache that hands out its own entries)
                for k in okk[:30]:
                    o1 = r[k]
                    try:
                        o1.name = "spoiled-by-the-caller"
                        if o1.n_atoms:
                            o1.atoms[0].label = "XX"; o1.atoms[0].attrib["spoiled"] = 1
                            import numpy as _np
                            _np.asarray(o1.coords)[...] = 7.25
                        o1.attrib["spoiled"] = True
                    except Exception:
                        pass
                    if canon(r[k]) != want[k]:
                        prob[k] = "a second read of the same key through the same handle returns something else after the caller changed the object the first read had returned"
            except Exception as e:           # noqa
                prob[okk[0]] = f"items()/values()/iteration raised {type(e).__name__}: {e}"[:300]
            for k, t in prob.items():
                res[k] = ("ok", res[k][1], t)
    return res


# ====================================================================== generators
def gen_value(rng, depth, risky):
    """a msgpack-able attribute value.  risky=False keeps to values msgpack returns unchanged (tuples, singles)."""
    r = rng.random()
    if r < 0.015:
        import numpy as np
        return np.array([[rng.uniform(-5, 5) for _ in range(3)] for _ in range(rng.randrange(0, 3))],
                        dtype=rng.choice(["<f8", "<f4", "<i4"])).reshape(-1, 3)
    if depth <= 0 or r < 0.55:
        c = rng.randrange(9)
        if c == 0:
            return None
        if c == 1:
            return rng.random() < 0.5
        if c == 2:
            return rng.choice([0, 1, -1, 127, 128, -33, 65536, 2 ** 40, -2 ** 40, 2 ** 63 - 1, -2 ** 63])
        if c == 3:
            return rng.choice(["", "x", "attr", "with space", "é中文", "line\nbreak", "q\"uote", "z" * 40])
        if c == 4:
            return rng.choice([b"", b"\x00\xff", b"bytes", bytes(range(33))])
        if c in (5, 6):
            if risky and rng.random() < 0.6:
                return rng.choice([0.1, -2.7, 1e-50, 1.0000000001, math.pi, 1e300])
            return rng.choice([0.0, -0.0, 0.5, -2.25, 1.5, 1e10, float("inf"), float("-inf"), float("nan"), 2.0 ** -140,
                               float(_single(rng.uniform(-100, 100)))])
        return rng.randrange(-1000, 1000)
    n = rng.randrange(0, 4)
    if r < 0.75:
        items = [gen_value(rng, depth - 1, risky) for _ in range(n)]
        return items if (risky and rng.random() < 0.7) else tuple(items)
    return gen_dict(rng, depth - 1, risky, n)


def gen_dict(rng, depth, risky, n=None):
    n = rng.randrange(0, 4) if n is None else n
    d = {}
    for _ in range(n):
        k = rng.choice(["a", "key", "k2", "é", "", "coords", "name", 3, -7, 2 ** 33]) if rng.random() < 0.85 else rng.choice([b"bk", 0])
        d[k] = gen_value(rng, depth, risky)
    return d


COORD_SPECIALS = [0.0, -0.0, float("nan"), float("inf"), float("-inf"), 1e-40, 1e-46, 1e39, -1e39, 3.4028235e38, 1.17549435e-38,
                  123456.789, 1e-7, 0.1]


def gen_float(rng, lo, hi, special=0.12):
    if rng.random() < special:
        return rng.choice(COORD_SPECIALS)
    x = rng.uniform(lo, hi)
    return _single(x) if rng.random() < 0.3 else x


def gen_desc(rng, E, kind, ver, max_atoms=8, risky=False):
    n = rng.choice([0, 0, 1, 1, 2, 3]) if rng.random() < 0.3 else rng.randrange(0, max_atoms + 1)
    atoms = []
    for i in range(n):
        t = rng.random()
        atype = rng.choice([100, 101]) if t < 0.15 else rng.choice(E["atype"])
        atoms.append({"element": 0 if (t < 0.08) else rng.randrange(0, 119),
                      "isotope": rng.choice([None, None, 0, 1, 2, 13, 235, 2 ** 33]),
                      "label": rng.choice([None, None, "", "C1", f"A{i}", "é中", "with space", "L" * 30]),
                      "atype": atype, "stereo": rng.choice(E["astereo"]), "geom": rng.choice(E["geom"]),
                      "formal_charge": rng.choice([0, 0, 1, -1, 2, -3]), "formal_spin": rng.choice([0, 0, 1, 2, 3]),
                      "attrib": to_j(gen_dict(rng, 2, risky) if rng.random() < 0.35 else {})})
    bonds = []
    if n:
        for j in range(rng.choice([0, 0, 1, n, n + 2]) if rng.random() < 0.5 else rng.randrange(0, n + 2)):
            a1, a2 = rng.randrange(n), rng.randrange(n)
            fo = rng.choice([0.1, 1.3, 2.7]) if (risky and rng.random() < 0.5) else rng.choice([1.0, 1.0, 1.5, 0.5, 2.0, 0.0, 2.5, 0.25])
            bonds.append({"a1": a1, "a2": a2, "label": rng.choice([None, None, "", "b", "é"]), "btype": rng.choice(E["btype"]),
                          "stereo": rng.choice(E["bstereo"]), "f_order": float(fo).hex(),
                          "attrib": to_j(gen_dict(rng, 2, risky) if rng.random() < 0.3 else {})})
    k = rng.choice([0, 1, 1, 2, 3, 4]) if kind == "ens" else 1
    hx = lambda xs: [float(x).hex() for x in xs]
    sp = rng.choice([0.0, 0.05, 0.3])
    d = {"kind": kind, "ver": ver, "name": rng.choice(["m", "", "unknown", "é中 name", "a b\tc", "n" * 60, "mol-%d" % rng.randrange(1000)]),
         "charge": rng.choice([0, 0, 1, -1, -2, 3, -7, 2 ** 31]), "mult": rng.choice([1, 1, 2, 3, 4, 7]),
         "attrib": to_j(gen_dict(rng, 3, risky) if rng.random() < 0.6 else {}),
         "atoms": atoms, "bonds": bonds, "nconf": k if kind == "ens" else 0,
         "coords": hx(gen_float(rng, -60, 60, sp) for _ in range(k * n * 3)),
         "charges": hx(gen_float(rng, -1.5, 1.5, sp / 2) for _ in range(k * n)),
         "weights": hx(gen_float(rng, 0, 3, sp / 2) for _ in range(k)) if kind == "ens" else []}
    r = rng.random()
    d["adopt"] = ("kept" if r < 0.12 else "dropped" if r < 0.18 else None) if n >= 2 else None
    return d


def systematic_descs(E):
    """every element, every member of every enum, in each slot at least once"""
    hx = lambda xs: [float(x).hex() for x in xs]
    out = []
    L = max(len(v) for v in E.values())
    n = 119
    atoms = [{"element": z, "isotope": None if z % 3 else z, "label": None if z % 2 else f"E{z}",
              "atype": E["atype"][z % len(E["atype"])], "stereo": E["astereo"][z % len(E["astereo"])],
              "geom": E["geom"][z % len(E["geom"])], "formal_charge": (z % 5) - 2, "formal_spin": z % 3, "attrib": to_j({})}
             for z in range(n)]
    bonds = [{"a1": j, "a2": (j * 7 + 1) % n, "label": None, "btype": E["btype"][j % len(E["btype"])],
              "stereo": E["bstereo"][j % len(E["bstereo"])], "f_order": (1.0 + 0.5 * (j % 3)).hex(), "attrib": to_j({})}
             for j in range(max(len(E["btype"]), len(E["bstereo"])) * 2)]
    for kind, ver in itertools.product(("mol", "ens"), (2, 1)):
        k = 2 if kind == "ens" else 1
        out.append({"kind": kind, "ver": ver, "name": "all-elements", "charge": -1, "mult": 2, "attrib": to_j({"n": n}),
                    "atoms": atoms, "bonds": bonds, "nconf": k if kind == "ens" else 0,
                    "coords": hx(0.25 * i - 40 for i in range(k * n * 3)), "charges": hx(0.001 * i for i in range(k * n)),
                    "weights": hx([1.0, 0.5][:k]) if kind == "ens" else []})
    return out


def gen_cases(ctx, E, n_random):
    rng = ctx.rng
    descs = systematic_descs(E)
    for i in range(n_random):
        kind = "mol" if rng.random() < 0.5 else "ens"
        ver = 2 if rng.random() < 0.65 else 1
        risky = rng.random() < 0.2
        descs.append(gen_desc(rng, E, kind, ver, max_atoms=(14 if ctx.thorough else 8), risky=risky))
    return descs


def bundled_objects(limit):
    """entries of the libraries shipped with molli (two legacy v1 files, two v2 files): (file, key, object)"""
    import molli as ml
    out, problems = [], []
    d = os.path.join(os.path.dirname(ml.__file__), "files")
    for fn in sorted(os.listdir(d)):
        p = os.path.join(d, fn)
        if not fn.endswith(".mlib") or os.path.getsize(p) == 0:
            continue
        with open(p, "rb") as f:
            ver = 1 if f.read(16).startswith(b"ML10Library") else 2
        try:
            lib = ml.MoleculeLibrary(p, readonly=True)
            with lib.reading():
                keys = sorted(lib.keys())
                for i, k in enumerate(keys):
                    try:
                        m = lib[k]
                    except Exception as e:         # noqa
                        problems.append((fn, ver, k, e))
                        continue
                    if i < limit:
                        out.append((fn, ver, k, m))
        except Exception as e:                     # noqa
            problems.append((fn, ver, None, e))
    return out, problems


# ====================================================================== store -> edit in place -> store again
def mutate_in_place(rng, o, kind, E):
    """edits that keep the atom / bond / conformer counts; -> list of edit names (at least one atom- or bond-level edit
    when the object has atoms).  Values stay msgpack-stable (tuples, single-precision floats)."""
    import numpy as np
    from molli.chem import Element, AtomType, AtomStereo, AtomGeom, BondType, BondStereo
    done = []
    n_edits = rng.randrange(1, 5)
    menu = []
    if o.n_atoms:
        menu += ["a.element", "a.label", "a.isotope", "a.atype", "a.stereo", "a.geom", "a.formal_charge", "a.formal_spin",
                 "a.attrib-inplace", "a.attrib-new"] * 2
    if o.n_bonds:
        menu += ["b.btype", "b.stereo", "b.label", "b.f_order", "b.attrib-inplace", "b.swap", "b.retarget"] * 2
    top = ["o.name", "o.charge", "o.mult", "o.attrib-inplace", "o.coords", "o.charges"] + (["o.weights"] if kind == "ens" else [])
    for e in range(n_edits):
        ed = rng.choice(menu) if (menu and (e == 0 or rng.random() < 0.75)) else rng.choice(top)
        if ed.startswith("a."):
            a = o.atoms[rng.randrange(o.n_atoms)]
            if ed == "a.element":
                a.element = Element((int(a.element) + rng.randrange(1, 118)) % 119)
            elif ed == "a.label":
                a.label = rng.choice([None, "", "edited", "E\u00e9"]) if a.label != "edited" else "edited2"
            elif ed == "a.isotope":
                a.isotope = (a.isotope or 0) + rng.randrange(1, 9)
            elif ed == "a.atype":
                a.atype = AtomType(rng.choice([x for x in E["atype"] if x != int(a.atype)]))
            elif ed == "a.stereo":
                a.stereo = AtomStereo(rng.choice([x for x in E["astereo"] if x != int(a.stereo)]))
            elif ed == "a.geom":
                a.geom = AtomGeom(rng.choice([x for x in E["geom"] if x != int(a.geom)]))
            elif ed == "a.formal_charge":
                a.formal_charge = a.formal_charge + rng.choice([-2, -1, 1, 2])
            elif ed == "a.formal_spin":
                a.formal_spin = a.formal_spin + rng.randrange(1, 3)
            elif ed == "a.attrib-inplace":
                a.attrib["edited%d" % e] = gen_value(rng, 1, False)
            else:
                a.attrib = {"fresh": (e, "x"), **gen_dict(rng, 1, False)}
        elif ed.startswith("b."):
            b = o.bonds[rng.randrange(o.n_bonds)]
            if ed == "b.btype":
                b.btype = BondType(rng.choice([x for x in E["btype"] if x != int(b.btype)]))
            elif ed == "b.stereo":
                b.stereo = BondStereo(rng.choice([x for x in E["bstereo"] if x != int(b.stereo)]))
            elif ed == "b.label":
                b.label = "bedit" if b.label != "bedit" else None
            elif ed == "b.f_order":
                b.f_order = float(b.f_order) + 0.5
            elif ed == "b.attrib-inplace":
                b.attrib["edited%d" % e] = gen_value(rng, 1, False)
            elif ed == "b.swap":
                b.a1, b.a2 = b.a2, b.a1
            else:
                b.a2 = o.atoms[rng.randrange(o.n_atoms)]
        elif ed == "o.name":
            o.name = o.name + "-edited"
        elif ed == "o.charge":
            o.charge = o.charge + rng.choice([-1, 1, 2])
        elif ed == "o.mult":
            o.mult = o.mult + 1
        elif ed == "o.attrib-inplace":
            o.attrib["edited%d" % e] = gen_value(rng, 2, False)
        elif ed == "o.coords" and np.size(o.coords):
            o.coords[...] = np.asarray(o.coords) * 0.5 + 1.25
        elif ed == "o.charges" and np.size(o.atomic_charges):
            o.atomic_charges[...] = np.asarray(o.atomic_charges) + 0.125
        elif ed == "o.weights" and np.size(o.weights):
            o.weights[...] = np.asarray(o.weights) + 0.5
        done.append(ed)
    return done


def gen_sequences(rng, E, n):
    out = []
    for i in range(n):
        kind = "mol" if i % 2 == 0 else "ens"
        ver = 2 if (i // 2) % 3 else 1
        for _ in range(20):
            d = gen_desc(rng, E, kind, ver, max_atoms=6, risky=False)
            if d["atoms"] or rng.random() < 0.05:
                break
        out.append({"desc": d, "mseed": rng.randrange(2 ** 31), "same_session": bool(rng.randrange(2)),
                    "ver_b": rng.choice([1, 2])})
    return out


def run_sequence(work, sq, E, tag):
    """One object, stored / edited in place / stored again.  -> stored items (each with the state the object had AT
    THE TIME of that store as `inp`), not yet read back; and the list of (path, kind, ver, key, item)."""
    import random
    d = sq["desc"]
    kind, ver = d["kind"], d["ver"]
    cls = lib_class(kind)
    ext = "mlib" if kind == "mol" else "clib"
    pa = os.path.join(work, f"A_{kind}_v{ver}.{ext}")
    pb = os.path.join(work, f"B_{kind}_v{sq['ver_b']}.{ext}")
    for p, v in ((pa, ver), (pb, sq["ver_b"])):
        if not os.path.exists(p):
            new_library(p, kind, v)
    rng = random.Random(sq["mseed"])
    o = build(d)
    stored = []

    def put(lib, path, v, key, obj, step, edits):
        it = {"kind": kind, "ver": v, "src": f"seq:{tag}:{step}", "inp": describe(obj, kind), "step": step, "edits": edits,
              "replay": {"kind": "seq", "seq": sq}, "path": path, "key": key}
        try:
            lib[key] = obj
        except Exception as e:       # noqa
            it["outcome"], it["where"], it["exc"] = "raised", "write", e
        stored.append(it)

    w = cls(pa, readonly=False)
    with w.writing():
        put(w, pa, ver, f"{tag}-k1", o, "first-store", [])
        if sq["same_session"]:
            ed = mutate_in_place(rng, o, kind, E)
            put(w, pa, ver, f"{tag}-k2", o, "second-store", ed)
    del w
    if not sq["same_session"]:
        ed = mutate_in_place(rng, o, kind, E)
        w = cls(pa, readonly=False)
        with w.writing():
            put(w, pa, ver, f"{tag}-k2", o, "second-store", ed)
        del w
    # the same object, edited once more, into a DIFFERENT library (possibly the other encoding)
    ed2 = mutate_in_place(rng, o, kind, E)
    wb = cls(pb, readonly=False)
    with wb.writing():
        put(wb, pb, sq["ver_b"], f"{tag}-k3", o, "other-library", ed2)
    del wb
    # a second, independent object with the content the first one had at its FIRST store
    twin = build({**desc_of(stored[0]["inp"]), "ver": ver})
    w = cls(pa, readonly=False)
    with w.writing():
        put(w, pa, ver, f"{tag}-k4", twin, "twin-of-first-state", [])
        put(w, pa, ver, f"{tag}-k5", o, "third-store-unchanged", [])
    del w
    return stored


def read_back(stored):
    """fresh read-only handles, one reading() session per library file"""
    by_path = {}
    for it in stored:
        by_path.setdefault((it["path"], it["kind"]), []).append(it)
    for (path, kind), its in by_path.items():
        r = lib_class(kind)(path, readonly=True)
        with r.reading():
            for it in its:
                if it.get("outcome") == "raised":
                    continue
                try:
                    it["back"] = describe(r[it["key"]], kind)
                    it["outcome"] = "ok"
                except Exception as e:       # noqa
                    it["outcome"], it["where"], it["exc"] = "raised", "read", e
    return stored


def run_sequences(ctx, E, seqs, sub="c01seq"):
    work = ctx.sub(sub)
    stored = []
    for i, sq in enumerate(seqs):
        stored += run_sequence(work, sq, E, f"s{i}")
    return read_back(stored)


# ====================================================================== run
HEADER = "From Coq Require Import ZArith NArith String List.\nImport ListNotations.\nFrom Molli Require Import Common.ParseStr Model.Codec Gen.IoWiring.\nLocal Open Scope string_scope.\n"
CODEC_OF = {("mol", 2): "MolV2", ("ens", 2): "EnsV2", ("mol", 1): "MolV1", ("ens", 1): "EnsV1"}


def run_cases(ctx, items):
    """items: list of dict(kind, ver, obj, src).  Stores and reads back; -> list of dict(+inp, outcome, back)."""
    groups = {}
    for i, it in enumerate(items):
        groups.setdefault((it["kind"], it["ver"]), []).append(i)
    work = ctx.sub("c01libs")
    for (kind, ver), idx in sorted(groups.items(), key=lambda g: (g[0][0], g[0][1])):      # per kind: the legacy library first, then v2
        # ONE path per kind: the legacy and the current library are created, one after the other, under the same name in the
        # same process (delete + recreate / in-place upgrade): the codec must follow the FILE, not what the path held before
        path = os.path.join(work, f"lib_{kind}." + ("mlib" if kind == "mol" else "clib"))
        res = store_and_read(path, kind, ver, {f"k{i}": items[i]["obj"] for i in idx})
        for i in idx:
            r = res[f"k{i}"]
            items[i]["inp"] = describe(items[i]["obj"], kind)
            if r[0] == "ok":
                if len(r) > 2:
                    items[i]["view_problem"] = r[2]
                try:
                    items[i]["back"] = describe(r[1], kind)
                    items[i]["outcome"] = "ok"
                except Exception as e:       # noqa
                    items[i]["outcome"], items[i]["exc"], items[i]["where"] = "raised", e, "inspect"
            else:
                items[i]["outcome"], items[i]["where"], items[i]["exc"] = "raised", r[1], r[2]
    return items


def has_unstorable(v):
    """a finite double that rounds to +-inf in single precision (msgpack use_single_float refuses it)"""
    if isinstance(v, float):
        return v == v and abs(v) != float("inf") and abs(_single(v)) == float("inf")
    if isinstance(v, (list, tuple)):
        return any(has_unstorable(x) for x in v)
    if isinstance(v, dict):
        return any(has_unstorable(k) or has_unstorable(x) for k, x in v.items())
    return False


def judge_item(it):
    tag = f"C01:v{it['ver']}:{it['kind']}"
    if it["outcome"] == "raised":
        e = it["exc"]
        d = it["inp"]
        if it["where"] == "write" and isinstance(e, OverflowError) and has_unstorable(
                [d["attrib"], [a["attrib"] for a in d["atoms"]], [[b["attrib"], b["f_order"]] for b in d["bonds"]]]):
            return [(KNOWN_RANGE, f"an attribute value beyond the single-precision range makes the write raise ({type(e).__name__}: {e})")]
        return [(f"{tag}:raises-on-{it['where']}:{type(e).__name__}",
                 f"an object stored in a {'legacy ' if it['ver'] == 1 else ''}library could not be {it['where']} ({type(e).__name__}: {e})"[:400])]
    vs = judge(it["inp"], it["back"], it["ver"])
    if it.get("view_problem"):
        vs = vs + [(f"{tag}:views-disagree", "reading the library through items()/values()/iteration/len/membership disagrees with "
                    "library[key]: " + it["view_problem"])]
    if it.get("step") and it["step"] != "first-store":
        # the value read back is not the state the object had when THIS store was made
        vs = [(s if s in (KNOWN_LIST, KNOWN_DBL, KNOWN_FORDER) else f"{s}:{it['step']}",
               t if s in (KNOWN_LIST, KNOWN_DBL, KNOWN_FORDER) else f"{it['step']} after in-place edits {it.get('edits')}: {t}") for s, t in vs]
    return vs


def case_term(it):
    seen = f"(Back {cq_obj(it['back'])})" if it["outcome"] == "ok" else "Raised"
    return f"({CODEC_OF[(it['kind'], it['ver'])]}, {cq_obj(it['inp'])}, {seen})"


def case_key(it):
    import hashlib
    return hashlib.sha1(json.dumps([it["kind"], it["ver"], desc_of(it["inp"])], sort_keys=True).encode()).hexdigest()[:16]


def run(ctx, rep):
    rep.rule = ("tie T: the four serialisers / deserialisers executed on sentinel objects (every slot a unique value), "
                "wiring regenerated and the round-trip premises decided by the kernel; tie H: generated molecules / ensembles "
                "(all elements, every enum member, None/empty/unicode labels, nested attributes, 0 atoms, 0 bonds, 0..4 conformers, "
                "NaN/inf/denormal coordinates) and the entries of the bundled libraries, stored in a writing() session and read "
                "back by a fresh handle in a reading() session, v2 and legacy v1; plus store / edit-in-place (counts unchanged) / store-again "
                "sequences of ONE object (same and new session, a second library, an equal-content twin), every stored value "
                "compared with the state at the time of its store; a case is non-trivial when the object has at "
                "least one atom; distinct by its full description")
    rep.trusted += ["T-emitter harness/c01.py (Sentinel / ser_wiring / des_wiring: CPython executing _serialize_* and "
                    "_deserialize_* of molli/chem/io.py on objects whose slots hold unique values; a (de)serialiser that "
                    "treats values non-uniformly is outside what one sentinel run shows -- the H tie covers that)",
                    "msgpack / msgpack_numpy / numpy conversions are modelled (mnorm, packed arrays with a dtype tag), not verified",
                    "single-precision rounding of floats is computed by numpy in the harness (f32_bits); NaNs are one pattern",
                    "correspondence harness: construction through the public constructors, describe() of both objects, "
                    "canonical ordering of dict entries",
                    "the storage layer (UKV file, backend, sessions) is driven through the public API only (verified in C02-C04)"]
    rep.assumptions += ["objects are well-formed (wf_obj): name a string, charge an int, mult a non-zero int (mult = 0 reads back "
                        "as 1 through `mult or 1`), attrib a dict, rectangular arrays (C05/C14), every bond endpoint an atom of the "
                        "object and no atom object listed twice (atom identity is modelled as position)",
                        "attribute values are msgpack-able python values (None, bool, int within 64 bits, str, bytes, float, list, "
                        "tuple, dict); numpy arrays inside attrib go through msgpack_numpy and are not modelled"]
    import warnings
    warnings.simplefilter("ignore")      # numpy overflow warnings of astype(">f4") on deliberately huge coordinates
    known = {k["signature"] for k in vlib.load_known() if k.get("property") == "C01" and k.get("status") == "known"}
    # ---- tie T
    W, dfl, zmax = observe_wirings()
    with vlib.CoqLock():
        vlib.write_if_changed(GEN, gen_text(W, dfl, zmax))
    for c, w in W.items():
        rep.count("wiring:" + c + (":error" if "error" in w else ""))
        rep.extra.setdefault("wiring", {})[c] = {k: v for k, v in w.items() if k != "ens"}
    ok, out, where = vlib.build_props(ctx, rep, "C01")
    # ---- tie H
    E = enum_tables()
    found = False
    items = []
    for d in gen_cases(ctx, E, 6000 if ctx.thorough else 1100):
        try:
            items.append({"kind": d["kind"], "ver": d["ver"], "obj": build(d), "src": "gen", "desc": d})
        except Exception as e:   # the public constructors refused a generated description: not a C01 matter, but say so
            rep.count("build-refused:" + type(e).__name__)
    bundled, problems = bundled_objects(400 if ctx.thorough else 12)
    for fn, ver, k, e in problems:
        if ver != 1:
            # a file written by an OLDER molli in the current format: compatibility with it is not part of this property
            # (a format change such as storing doubles is allowed); reported in the evidence only
            rep.count("bundled-v2-entry-unreadable:" + type(e).__name__)
            continue
        found = True
        rep.violate(f"C01:v{ver}:mol:bundled-unreadable:{type(e).__name__}",
                    f"entry {k!r} of the bundled library {fn} cannot be read ({type(e).__name__}: {e})"[:400],
                    {"kind": "bundled", "file": fn, "key": k})
    for fn, ver, k, m in bundled:
        for v2 in ((ver,) if not ctx.thorough else (1, 2)):
            items.append({"kind": "mol", "ver": v2, "obj": m, "src": f"{fn}:{k}"})
        rep.count("bundled:" + fn)
    items = run_cases(ctx, items)
    seq_items = run_sequences(ctx, E, gen_sequences(ctx.rng, E, 700 if ctx.thorough else 110))
    for it in seq_items:
        rep.count("seq:" + it["step"])
        for ed in it["edits"]:
            rep.count("seq-edit:" + ed)
    items += seq_items
    terms, kept = [], []
    reproduced = set()
    for it in items:
        n = it["inp"]["n_atoms"]
        key = case_key(it) if n > 0 else None
        rep.case(key=key, sample=({"codec": CODEC_OF[(it["kind"], it["ver"])], "src": it["src"], "atoms": n,
                                   "bonds": it["inp"]["n_bonds"], "nconf": it["inp"]["nconf"], "name": it["inp"]["name"][:20]}
                                  if key and it["src"] == "gen" and 2 < n < 9 else None))
        rep.count("codec:" + CODEC_OF[(it["kind"], it["ver"])])
        rep.count("atoms:0" if n == 0 else "atoms:>0")
        rep.count("bonds:0" if it["inp"]["n_bonds"] == 0 else "bonds:>0")
        if it["kind"] == "ens":
            rep.count(f"nconf:{min(it['inp']['nconf'], 4)}")
        if any(x != x for x in it["inp"]["coords"]):
            rep.count("coords:has-nan")
        rep.count("outcome:" + it["outcome"])
        if (it.get("desc") or {}).get("adopt"):
            rep.count("atoms-also-listed-by-a-second-container:" + it["desc"]["adopt"])
        vs = judge_item(it)
        for sig, what in vs:
            if sig in known:
                reproduced.add(sig)
            else:
                found = True
            rp = it["replay"] if "replay" in it else \
                {"kind": "case", "ver": it["ver"], "desc": {**desc_of(it["inp"]), "ver": it["ver"], "adopt": (it.get("desc") or {}).get("adopt")}} if it["src"] == "gen" \
                else {"kind": "bundled", "file": it["src"].split(":")[0], "key": it["src"].split(":", 1)[1], "ver": it["ver"]}
            rep.violate(sig, what, rp)
        try:
            terms.append(case_term(it))
            kept.append(it)
        except TypeError as e:    # a value outside the modelled attribute language (e.g. a numpy array in a bundled entry)
            rep.count("not-modelled:" + str(e)[:40])
    bad = vlib.run_shards(ctx, rep, "c01", HEADER, "check_case", terms, shard=max(8, (len(terms) + 15) // 16), timeout=900,
                          case_type="codec * obj * outcome") if ok else []
    if bad is None:
        vlib.broken_obligation(rep, "corr_c01", "a correspondence shard did not compile: " + str(rep.extra.get("shard_errors", ""))[-1500:], found)
    elif bad:
        # model and implementation disagree on these stored objects: the oracle has already judged each of them
        rep.extra["mismatching_cases"] = [{"src": kept[i]["src"], "codec": CODEC_OF[(kept[i]["kind"], kept[i]["ver"])]} for i in bad[:20]]
        vlib.broken_obligation(rep, "corr_c01", f"{len(bad)} stored object(s) read back differently from the model, e.g. "
                               + json.dumps(rep.extra["mismatching_cases"][:3]), found)
    if not ok:
        # a premise of the round-trip theorem no longer holds on the regenerated wiring: the oracle over the generated
        # objects (which exercise every slot with distinguishable values) is the search for a concrete input
        vlib.broken_obligation(rep, "C01_roundtrip", f"{where}\n{out[-1500:]}", found)
    return tuple(sorted(reproduced))


def replay(ctx, data):
    out = []
    if data.get("kind") == "case":
        d = data["desc"]
        it = run_cases(ctx, [{"kind": d["kind"], "ver": d.get("ver", data.get("ver", 2)), "obj": build(d), "src": "gen"}])[0]
        out += [vlib.Violation(s, t) for s, t in judge_item(it)]
    elif data.get("kind") == "seq":
        for it in run_sequences(ctx, enum_tables(), [data["seq"]], sub="c01seq_replay"):
            out += [vlib.Violation(s, t) for s, t in judge_item(it)]
    elif data.get("kind") == "bundled":
        import molli as ml
        p = os.path.join(os.path.dirname(ml.__file__), "files", data["file"])
        lib = ml.MoleculeLibrary(p, readonly=True)
        try:
            with lib.reading():
                m = lib[data["key"]]
        except Exception as e:       # noqa
            return [vlib.Violation("C01:bundled-unreadable", f"{data['file']}:{data['key']}: {type(e).__name__}: {e}")]
        it = run_cases(ctx, [{"kind": "mol", "ver": data.get("ver", 2), "obj": m, "src": "bundled"}])[0]
        out += [vlib.Violation(s, t) for s, t in judge_item(it)]
    return out
