"""C17 -- a job runs exactly what was asked and reports exactly what happened.

Tie H, two parts (Model/Job.v):
 (i)  descriptor binding: driver classes are created afresh for every case (the Job object is shared per class),
      2..3 instances with distinct settings are created / reassigned / used in every order, what the prep function
      sees as self.executable/nprocs/memory/envars and the JobInput it returns are observed and replayed in Coq;
      the shipped XTBDriver is put through the same orders and judged by the oracle.  Obtaining the bound job
      (`h = d.job`, kept in a variable / captured by the lazy generator of a vectorised prepare) and using a kept one
      (`h.prepare(..)`) are separate events (BGet/BGetCls/BPrep): several jobs of several live drivers are held side by side.
 (ii) run_local: REAL executions (the run_local function of molli/pipeline/runner.py in a forked process per case, and
      the installed `_molli_run` entry point for a sample) of JobInputs whose commands are `sh -c '...'` renderings of
      the script language of Model/Job.v: exit status, output file, external trace and scratch residue are compared with
      `run_local script sh_exec` inside Coq (check_rcase) and judged by an independent oracle written from the
      property text.
"""
import os, sys, re, json, itertools, subprocess, shutil, signal, time, traceback

if __name__ != "__main__":
    import vlib
    from vlib import cq_list

HEADER = "From Coq Require Import List ZArith NArith String.\nImport ListNotations.\nFrom Molli Require Import Model.Job.\nLocal Open Scope string_scope.\n"

# ------------------------------------------------------------------ Coq literals
def cq_s(b):
    """Coq `string` for a byte string / ASCII str."""
    if isinstance(b, str):
        b = b.encode("utf-8", "surrogateescape")
    if all(32 <= c < 127 and c != 34 for c in b):
        return '"' + b.decode("ascii") + '"'
    return "(bytes [" + ";".join(str(c) for c in b) + "]%N)"


def cq_o(x, f=cq_s):
    return "None" if x is None else f"(Some {f(x)})"


def cq_l(xs, f=cq_s):
    return "[" + "; ".join(f(x) for x in xs) + "]"


def cq_d(d):
    return "[" + "; ".join(f"({cq_s(k)}, {cq_s(v)})" for k, v in d) + "]"


def cq_z(z):
    return f"({z})%Z"


# ------------------------------------------------------------------ script language (mirror of `prim` in Model/Job.v)
def render_prim(p):
    k = p[0]
    if k == "POut": return f'printf %s "{p[1]}"'          # texts come from WORDS: no quote, $, backslash or backquote
    if k == "PErr": return f'printf %s "{p[1]}" >&2'
    if k == "PWrite": return f'printf %s "{p[2]}" > {p[1]}'
    if k == "PAppend": return f'printf %s "{p[2]}" >> {p[1]}'
    if k == "PCopy": return f"cat {p[1]} > {p[2]} 2>/dev/null"
    if k == "PCat": return f"cat {p[1]} 2>/dev/null"
    if k == "PEnv": return f'printf %s "${p[1]}"'
    if k == "PRm": return f"rm -f {p[1]}"
    if k == "PExists": return f"test -e {p[1]} && printf 1 || printf 0"
    if k == "PPwd": return "pwd"
    if k == "PMark": return f'echo {p[1]} >> "$C17_TRACE"'
    raise ValueError(k)


def render_script(sc):
    prims, code = sc
    tail = f"exit {code}" if code >= 0 else f"kill {code} $$"
    return "sh -c '" + "; ".join([render_prim(p) for p in prims] + [tail]) + "'"


def cq_prim(p):
    k = p[0]
    if k == "PPwd":
        return "PPwd"
    return "(" + k + " " + " ".join(cq_s(a) for a in p[1:]) + ")"


def cq_script(sc):
    return f"({cq_l(sc[0], cq_prim)}, {cq_z(sc[1])})"


def sim_script(sc, env, fs):
    """What the rendered shell script does (semantics of sh, not of run_local): -> (code, out, err, marks); fs updated."""
    out, err, marks = b"", b"", []
    for p in sc[0]:
        k = p[0]
        a = [x.encode() if isinstance(x, str) else x for x in p[1:]]
        if k == "POut": out += a[0]
        elif k == "PErr": err += a[0]
        elif k == "PWrite": fs[p[1]] = a[1]
        elif k == "PAppend": fs[p[1]] = fs.get(p[1], b"") + a[1]
        elif k == "PCopy": fs[p[2]] = fs.get(p[1], b"")
        elif k == "PCat": out += fs.get(p[1], b"")
        elif k == "PEnv": out += env.get(p[1], "").encode()
        elif k == "PRm": fs.pop(p[1], None)
        elif k == "PExists": out += b"1" if p[1] in fs else b"0"
        elif k == "PPwd": out += b"<cwd>\n"
        elif k == "PMark": marks.append(p[1])
    return sc[1], out, err, marks


# ------------------------------------------------------------------ run_local cases
BASE_ENV = {"C17_A": "base-a", "C17_B": "base-b"}
ENV_NAMES = ["C17_A", "C17_B", "C17_C"]
TEXTS = ["plain text\n", "héllo wörld ✓\nline 2\n", "", "no newline at end"]
BINS = [bytes([0, 255, 10, 13, 10, 128, 7]), bytes(range(256)), b"", b"\r\n\x00tail"]
WORDS = ["alpha", "beta 2", "x=1,y=2", "r/s:t", "Q_q-q.", "line\nbreak"]


def mk_case(jid, cmds, files, ret, envars, note):
    """cmds: [(script, name|None)], files: {name: str|bytes}|None, ret: [names]|None, envars: {..}|None"""
    return {"jid": jid, "cmds": cmds, "files": files, "ret": ret, "envars": envars, "note": note}


def systematic_cases(rng, thorough):
    """command lists of length 1..4 x each first-failure position x each subset of the requested files missing;
    input kinds and environment overrides rotate."""
    out = []
    k = 0
    for n in range(1, 5):
        for failpos in [None] + list(range(n)):
            for nreq in range(0, 4):
                for missing in itertools.product([False, True], repeat=nreq):
                    out.append(planned_case(rng, k, n, failpos, list(missing)))
                    k += 1
    return out


def planned_case(rng, k, n, failpos, missing):
    """Build a job realising the plan: n commands, command `failpos` exits non-zero, requested file j exists at the end
    iff not missing[j]."""
    text_in = TEXTS[k % len(TEXTS)]
    bin_in = BINS[(k // 2) % len(BINS)]
    files = {"in_t.txt": text_in, "in_b.bin": bin_in}
    if k % 7 == 3:
        files = {} if k % 2 else None
    envars = [None, {"C17_A": "over-a"}, {"C17_C": "new-c", "C17_B": ""}, {}][k % 4]
    last = n - 1 if failpos is None else failpos
    cmds_prims = [[("PMark", f"m{i}"), ("POut", f"o{i}:"), ("PErr", f"e{i}:")] for i in range(n)]
    ret = []
    for j, miss in enumerate(missing):
        name = f"r{j}.dat"
        how = (k + j) % 5
        if not miss:
            i = rng.randint(0, last)
            if how == 0 and files:
                name = "in_b.bin"                                     # an input file returned as is
            elif how == 1 and files:
                cmds_prims[i].append(("PCopy", "in_b.bin", name))       # binary copy made by a command
            elif how == 2 and files:
                cmds_prims[i].append(("PCopy", "in_t.txt", name))
            else:
                cmds_prims[i].append(("PWrite", name, rng.choice(WORDS)))
                if how == 4:
                    cmds_prims[rng.randint(i, last)].append(("PAppend", name, "+more"))
        else:
            if how == 0 and last + 1 < n:
                cmds_prims[rng.randint(last + 1, n - 1)].append(("PWrite", name, "too late"))   # only after the failure
            elif how == 1:
                i = rng.randint(0, last)
                cmds_prims[i].append(("PWrite", name, "gone"))
                cmds_prims[rng.randint(i, last)].append(("PRm", name))
            # else: never produced
        if name in ret:
            name = f"r{j}.dat"
            if not miss:
                cmds_prims[0].append(("PWrite", name, "dup-avoid"))
        ret.append(name)
    for i in range(n):
        extra = (k + i) % 6
        if extra == 0: cmds_prims[i].append(("PEnv", ENV_NAMES[(k + i) % 3]))
        elif extra == 1: cmds_prims[i].append(("PCat", "in_t.txt"))
        elif extra == 2: cmds_prims[i].append(("PPwd",))
        elif extra == 3: cmds_prims[i].append(("PExists", rng.choice(["in_b.bin", "nothing_here", "r0.dat"])))
        elif extra == 4: cmds_prims[i].append(("POut", rng.choice(WORDS)))
    cmds = []
    for i in range(n):
        code = 0
        if failpos is not None and i == failpos:
            code = [1, 2, 3, 127, 255, -9][(k + i) % 6]
        elif failpos is not None and i > failpos:
            code = [0, 1][(k + i) % 2]
        named = (k + i) % 3 != 2
        cmds.append(((cmds_prims[i], code), f"c{i}" if named else None))
    return mk_case(f"job{k % 5}", cmds, files, ret if not (not ret and k % 3 == 1) else None, envars,
                   {"n": n, "failpos": failpos, "missing": missing})


def random_case(rng, k):
    n = rng.randint(1, 4)
    names_pool = ["f1", "f2.txt", "in_t.txt", "in_b.bin", "deep.dat"]
    files = {}
    if rng.random() < 0.8:
        files["in_t.txt"] = rng.choice(TEXTS)
    if rng.random() < 0.8:
        files["in_b.bin"] = rng.choice(BINS)
    if rng.random() < 0.1:
        files = None
    cmds = []
    for i in range(n):
        prims = [("PMark", f"m{i}")]
        for _ in range(rng.randint(0, 5)):
            t = rng.choice(["POut", "PErr", "PWrite", "PAppend", "PCopy", "PCat", "PEnv", "PRm", "PExists", "PPwd"])
            if t in ("POut", "PErr"): prims.append((t, rng.choice(WORDS)))
            elif t in ("PWrite", "PAppend"): prims.append((t, rng.choice(names_pool), rng.choice(WORDS)))
            elif t == "PCopy":
                a, b = rng.sample(names_pool, 2)
                if a in ("in_b.bin", "deep.dat") and b not in ("in_b.bin", "deep.dat"):
                    a, b = b, a          # bytes never flow into a file that is printed: captures are text (assumption)
                prims.append((t, a, b))
            elif t == "PCat": prims.append((t, rng.choice(["in_t.txt", "f1", "f2.txt"])))
            elif t == "PEnv": prims.append((t, rng.choice(ENV_NAMES)))
            elif t in ("PRm", "PExists"): prims.append((t, rng.choice(names_pool)))
            else: prims.append(("PPwd",))
        code = 0 if rng.random() < 0.7 else rng.choice([1, 2, 42, 255, -15])
        cmds.append(((prims, code), f"n{i}" if rng.random() < 0.7 else None))
    ret = rng.sample(names_pool, rng.randint(0, 3))
    if rng.random() < 0.1:
        ret = ret + ret[:1]
    envars = rng.choice([None, {}, {"C17_A": "ov"}, {"C17_B": "b2", "C17_C": "c2"}, {"C17_C": ""}])
    return mk_case(rng.choice(["j", "job_x", "a.b"]), cmds, files, ret if rng.random() < 0.9 else None, envars, {"random": k})


def edge_cases():
    """paths outside the quantifier of the property, kept to pin the crash paths of the model (scratch must still be clean)"""
    return [mk_case("edge", [], {"in_t.txt": "x"}, [], None, {"edge": "no-commands"}),
            mk_case("edge", [(([("PMark", "m0"), ("POut", "a")], 0), "c0"), (([("PMark", "m1"), ("PRm", "c0.out")], 0), None)],
                    None, [], None, {"edge": "capture-file-removed"})]


def build_jobinput(ml_pipeline, c):
    cmds = [(render_script(sc), nm) for sc, nm in c["cmds"]]
    return ml_pipeline.JobInput(c["jid"], commands=cmds, files=c["files"],
                                return_files=None if c["ret"] is None else tuple(c["ret"]), envars=c["envars"])


def cq_rcase(c, obs):
    files = None if c["files"] is None else [(k, v) for k, v in c["files"].items()]
    inp = (f"(mk_ji {cq_s(c['jid'])} {cq_l(c['cmds'], lambda x: '(' + cq_script(x[0]) + ', ' + cq_o(x[1]) + ')')} "
           f"{cq_o(files, cq_d)} {cq_o(c['ret'], cq_l)} {cq_o(None if c['envars'] is None else list(c['envars'].items()), cq_d)})")
    o = obs["out"]
    out = "None" if o is None else (f"(Some (mk_jo {cq_d(o['stdouts'])} {cq_d(o['stderrs'])} {cq_z(o['exitcode'])} "
                                    f"{cq_d(o['files'])} {cq_s(o['hash'])}))")
    return (f"(mk_rcase {cq_d(list(BASE_ENV.items()))} {inp} {cq_s(obs['inp_hash'])} {cq_z(obs['status'])} {out} "
            f"{cq_l(obs['trace'])} {cq_l(obs['residue'])})")


def spec_judge(c, obs):
    """The property, written from its text, judged on what the implementation did. -> [(signature, text)]"""
    v = []
    n = len(c["cmds"])
    if n == 0 or c["note"].get("edge"):
        if obs["residue"]:
            v.append(("C17:run:scratch-residue", f"scratch directory not removed: {obs['residue']}"))
        return v
    env = dict(BASE_ENV)
    env.update(c["envars"] or {})
    fs = {k: (x.encode() if isinstance(x, str) else x) for k, x in (c["files"] or {}).items()}
    exp_out, exp_err, exp_marks, allok = {}, {}, [], True
    for sc, nm in c["cmds"]:
        code, so, se, marks = sim_script(sc, env, fs)
        exp_marks += marks
        if nm is not None:
            exp_out[nm], exp_err[nm] = so, se
        if code != 0:
            allok = False
            break
    req = list(c["ret"] or [])
    exp_files = {f: fs[f] for f in req if f in fs}
    complete = all(f in fs for f in req)
    tag = f"n={n}"
    if obs["trace"] != exp_marks:
        sig = "C17:run:continued-after-failure" if len(obs["trace"]) > len(exp_marks) else "C17:run:commands-not-run"
        v.append((sig, f"executed commands {obs['trace']} but the prefix up to the first failure is {exp_marks} ({tag})"))
    if (obs["status"] == 0) != (allok and complete):
        v.append(("C17:run:exit-status", f"exit status {obs['status']} but all-commands-ok={allok}, all-requested-files-exist={complete}"))
    if obs["residue"]:
        v.append(("C17:run:scratch-residue", f"scratch directory not removed: {obs['residue']}"))
    o = obs["out"]
    if o is None:
        v.append(("C17:run:no-output", f"no JobOutput was written (exit status {obs['status']})"))
        return v
    if dict(o["stdouts"]) != exp_out:
        sig = "C17:run:capture-names" if set(dict(o["stdouts"])) != set(exp_out) else "C17:run:capture-stdout"
        v.append((sig, f"stdouts {dict(o['stdouts'])!r} expected {exp_out!r}"))
    if dict(o["stderrs"]) != exp_err:
        sig = "C17:run:capture-names" if set(dict(o["stderrs"])) != set(exp_err) else "C17:run:capture-stderr"
        v.append((sig, f"stderrs {dict(o['stderrs'])!r} expected {exp_err!r}"))
    if dict(o["files"]) != exp_files:
        v.append(("C17:run:returned-files", f"returned files {sorted(dict(o['files']))} expected {sorted(exp_files)} (byte-for-byte comparison)"))
    if o["hash"] != obs["inp_hash"]:
        v.append(("C17:run:input-hash", "output does not carry the hash of the input"))
    if (o["exitcode"] == 0) != (allok and complete):
        v.append(("C17:run:recorded-exitcode", f"JobOutput.exitcode={o['exitcode']} but all-commands-ok={allok}, all-requested-files-exist={complete}"))
    if "cwd_ok" in obs and not obs["cwd_ok"]:
        v.append(("C17:run:not-in-private-scratch", "a command did not run in a fresh directory jid__* under the scratch directory"))
    return v


# ---- execution of cases on the real run_local
def prepare_dirs(work, idx):
    d = os.path.join(work, f"case{idx}")
    shutil.rmtree(d, ignore_errors=True)
    os.makedirs(os.path.join(d, "cwd"))
    return d


def child_env(d):
    e = dict(BASE_ENV)
    e.update({"PATH": "/usr/local/bin:/usr/bin:/bin", "C17_TRACE": os.path.join(d, "trace"), "HOME": d, "LC_ALL": "C.UTF-8",
              "PYTHONPATH": os.environ.get("PYTHONPATH", ""), "PYTHONHASHSEED": "0", "PYTHONWARNINGS": "ignore",
              "MOLLI_HOME": os.environ.get("MOLLI_HOME", d)})
    return e


def worker_main(jobs_fn, res_fn):
    """Forked executions of the real run_local (molli imported once)."""
    import warnings
    warnings.filterwarnings("ignore")
    import molli.pipeline.runner as runner
    jobs = json.load(open(jobs_fn))
    res = {}
    for j in jobs:
        d = j["dir"]
        pid = os.fork()
        if pid == 0:
            code = 1
            try:
                os.chdir(os.path.join(d, "cwd"))
                os.environ.clear()
                os.environ.update(child_env(d))
                sys.argv = ["_molli_run", os.path.join(d, "job.inp"), "-o", os.path.join(d, "out"), "-s", os.path.join(d, "scr")]
                log = os.open(os.path.join(d, "runner.log"), os.O_WRONLY | os.O_CREAT | os.O_TRUNC)
                os.dup2(log, 1); os.dup2(log, 2)
                signal.alarm(60)
                r = runner.run_local()
                code = 0 if r is None else int(r)
            except SystemExit as e:
                code = e.code if isinstance(e.code, int) else (0 if e.code is None else 1)
            except BaseException:
                traceback.print_exc()
                code = 1
            finally:
                try:
                    sys.stdout.flush(); sys.stderr.flush()
                except Exception:
                    pass
                os._exit(code & 255)
        _, st = os.waitpid(pid, 0)
        res[str(j["idx"])] = os.waitstatus_to_exitcode(st)
    json.dump(res, open(res_fn, "w"))


def execute(ctx, P, cases, tag, via_entry_point=()):
    """Run every case on the implementation.  -> list of observations"""
    work = ctx.sub("run_" + tag)
    dirs, hashes = [], []
    for i, c in enumerate(cases):
        d = prepare_dirs(work, i)
        inp = build_jobinput(P, c)
        inp.dump(os.path.join(d, "job.inp"))
        h = inp.hash
        hashes.append(h if isinstance(h, bytes) else str(h).encode())
        dirs.append(d)
    status = {}
    fork_idx = [i for i in range(len(cases)) if i not in via_entry_point]
    nw = 14
    procs = []
    for w in range(nw):
        mine = fork_idx[w::nw]
        if not mine:
            continue
        jf, rf = os.path.join(work, f"jobs{w}.json"), os.path.join(work, f"res{w}.json")
        json.dump([{"idx": i, "dir": dirs[i]} for i in mine], open(jf, "w"))
        procs.append((subprocess.Popen([vlib.PY, os.path.abspath(__file__), "--worker", jf, rf],
                                       stdout=subprocess.PIPE, stderr=subprocess.STDOUT, text=True), rf, mine))
    from concurrent.futures import ThreadPoolExecutor

    def entry(i):
        d = dirs[i]
        p = subprocess.run([os.path.join(os.path.dirname(vlib.PY), "_molli_run"), os.path.join(d, "job.inp"), "-o", os.path.join(d, "out"),
                            "-s", os.path.join(d, "scr")], cwd=os.path.join(d, "cwd"), env=child_env(d), capture_output=True, timeout=120)
        open(os.path.join(d, "runner.log"), "wb").write(p.stdout + p.stderr)
        return i, p.returncode
    with ThreadPoolExecutor(8) as ex:
        for i, rc in ex.map(entry, list(via_entry_point)):
            status[i] = rc
    for p, rf, mine in procs:
        try:
            out, _ = p.communicate(timeout=600)
        except subprocess.TimeoutExpired:
            p.kill()
            raise RuntimeError("run_local worker timed out")
        if p.returncode != 0 or not os.path.exists(rf):
            raise RuntimeError("run_local worker failed:\n" + (out or "")[-2000:])
        for k, v in json.load(open(rf)).items():
            status[int(k)] = v
    obs = []
    for i, c in enumerate(cases):
        d = dirs[i]
        scr = os.path.join(d, "scr")
        residue = sorted(os.listdir(scr)) if os.path.isdir(scr) else []
        trace = open(os.path.join(d, "trace")).read().split() if os.path.exists(os.path.join(d, "trace")) else []
        ofn = os.path.join(d, "out", "job.out")
        o, cwd_ok = None, True
        if os.path.exists(ofn):
            jo = P.JobOutput.load(ofn)
            real_scr = os.path.realpath(scr)

            def canon(s):
                nonlocal cwd_ok
                b = s.encode("utf-8", "surrogateescape") if isinstance(s, str) else bytes(s)
                pat = re.compile(re.escape(real_scr.encode()) + rb"/" + re.escape(c["jid"].encode()) + rb"__[A-Za-z0-9_]+(?=\n)")
                b2 = pat.sub(b"<cwd>", b)
                if os.path.realpath(work).encode() in b2 or (b"/" + c["jid"].encode() + b"__") in b2:
                    cwd_ok = False      # a command printed a working directory that is not scratch_dir/jid__*
                return b2
            tob = lambda x: x if isinstance(x, bytes) else str(x).encode("utf-8", "surrogateescape")
            o = {"stdouts": [(k, canon(v)) for k, v in (jo.stdouts or {}).items()],
                 "stderrs": [(k, canon(v)) for k, v in (jo.stderrs or {}).items()],
                 "exitcode": int(jo.exitcode), "files": [(k, tob(v)) for k, v in (jo.files or {}).items()],
                 "hash": tob(jo.input_hash)}
        obs.append({"status": status[i], "out": o, "trace": trace, "residue": residue, "inp_hash": hashes[i], "cwd_ok": cwd_ok})
    shutil.rmtree(work, ignore_errors=True)
    return obs


# ------------------------------------------------------------------ binding cases
SETTINGS_POOL = [
    dict(exe="sh", nprocs=4, mem=None, env={"A": "1"}),
    dict(exe="bash", nprocs=8, mem=2000, env={"B": "2", "A": "two"}),
    dict(exe="dash", nprocs=1, mem=300, env=None),
    dict(exe="ksh", nprocs=0, mem=0, env={}),
]
DECLS = [dict(), dict(env={"J": "job", "A": "from-job"}), dict(nprocs=16), dict(exe="declared-exe", mem=512)]
CLS_ATTRS = [dict(), dict(env={"K": "cls", "B": "from-cls"}), dict(nprocs=2, exe="cls-exe")]


def cq_settings(s):
    return (f"(mk_settings {cq_o(s.get('exe'))} {cq_o(s.get('nprocs'), lambda n: str(n) + '%N')} "
            f"{cq_o(s.get('mem'), lambda n: str(n) + '%N')} {cq_o(None if s.get('env') is None else list(s['env'].items()), cq_d)})")


def binding_orders(nd):
    """every order of creating and using nd drivers (each created once, used once, created before used)"""
    evs = [("C", i) for i in range(nd)] + [("U", i) for i in range(nd)]
    for perm in itertools.permutations(evs):
        pos = {e: k for k, e in enumerate(perm)}
        if all(pos[("C", i)] < pos[("U", i)] for i in range(nd)):
            yield list(perm)


def make_driver_class(P, decl, cls_attrs, vectorized, seen, default_exe="default-exe"):
    from molli.pipeline.driver import DriverBase
    kw = {}
    if "exe" in decl: kw["executable"] = decl["exe"]
    if "nprocs" in decl: kw["nprocs"] = decl["nprocs"]
    if "mem" in decl: kw["memory"] = decl["mem"]
    if "env" in decl: kw["envars"] = dict(decl["env"])

    def prep(self, arg, **kwargs):
        seen.append((self.executable, self.nprocs, self.memory, None if self.envars is None else dict(self.envars)))
        return P.JobInput(str(arg), commands=[(f"{self.executable} -P {self.nprocs} -M {self.memory} {arg}", "c")],
                          envars=self.envars, return_files=self.return_files)

    def post(self, out, arg, **kwargs):
        return (self.executable, out)
    job = P.Job(return_files=("o.txt",), **kw).prep(prep)
    job.post(post)
    ns = {"job": job}
    if default_exe is not None:
        ns["default_executable"] = default_exe
    if vectorized:
        vj = P.Job.vectorize(job)
        vj.reduce(lambda self, outs, inp, *a, **k: (self.executable, list(outs)))
        ns["job"] = vj
    base = type("CaseDriver", (DriverBase,), ns)
    return base


def effective_decl(decl, vectorized):
    """Job.vectorize copies prep/post/return_files/executable/nprocs/envars/name into the vectorised job but not
    `memory`: the settings DECLARED by a vectorised job are the declared ones minus memory (the driver's memory is then
    what is bound).  The property names executable, processor count and environment, not memory, so this is modelled
    as the code has it (side observation in DESIGN.md), not judged."""
    return {k: v for k, v in decl.items() if not (vectorized and k == "mem")}


def expected_bound(decl, vectorized, ca, s):
    """From the property text: the settings of THIS driver (declared job settings and class attributes take
    precedence as documented by the `or` chains)."""
    decl = effective_decl(decl, vectorized)
    return (decl.get("exe") or ca.get("exe") or s["exe"],
            decl.get("nprocs") or ca.get("nprocs") or s["nprocs"] or 1,
            decl.get("mem") or s["mem"] or 1000,
            {**(ca.get("env") or {}), **(s["env"] or {}), **(decl.get("env") or {})})


NO_INST = dict(exe=None, nprocs=None, mem=None, env=None)
FIELDS = ("executable", "nprocs", "memory", "envars")


def run_binding_case(P, decl, events, vectorized, same_class=False, lazy=False, cdecls=None, world=None):
    """events: ("C", i, cls_attrs, settings) | ("S", i, settings) | ("U", i) | ("K", i)      create / reassign / use at once
               ("G", i, h) | ("GK", i, h) | ("P", h)      h = d_i.job / h = type(d_i).job kept in a variable; h.prepare(..)
               ("N", i, k, args)     d_i = Class_k(**args) through the REAL constructor (lookup in `world`, see ctor_cases);
                                     cdecls[k] = (default_executable | None, class attributes)
    same_class: drivers created with equal class attributes are instances of ONE class (otherwise each driver has a
    subclass of its own); lazy (vectorised jobs): the kept thing is the generator returned by prepare, consumed at P.
    -> (observations per event, violations)"""
    seen = []
    base = make_driver_class(P, decl, {}, vectorized, seen, "default-exe" if cdecls is None else None)
    drivers, classes, cur, held, shared_cls, ctor_cls = {}, {}, {}, {}, {}, {}
    obs, viol = [], []
    brief = lambda evs_: [e[:3] if e[0] in ("G", "GK", "N") else e[:2] for e in evs_]

    def prepare_and_look(j, arg, gen=None):
        """call prepare on a bound job (or consume the generator it returned earlier): what prep saw as self.*"""
        del seen[:]
        inp = gen if gen is not None else j.prepare([arg, arg + "b"] if vectorized else arg)
        inps = list(inp) if vectorized else [inp]
        if not seen or any(x != seen[0] for x in seen) or len(inps) != (2 if vectorized else 1):
            viol.append(("C17:bind:prepare-inconsistent", f"prepare produced {len(inps)} inputs / settings {seen}"))
            if not seen:
                return None
        exe, npr, mem, envd = seen[0]
        for n_in, ji in enumerate(inps):
            want_arg = (arg + "b" if n_in else arg)           # the caller's argument reaches the JobInput
            if ji.commands[0][0] != f"{exe} -P {npr} -M {mem} {want_arg}" or ji.jid != want_arg or (ji.envars or {}) != (envd or {}) \
                    or tuple(ji.return_files) != ("o.txt",):
                viol.append(("C17:bind:jobinput-differs-from-bound-job", f"{ji} vs bound {seen[0]}"))
        return (exe, npr, mem, envd)

    def diff(got, *accepted):
        """fields of `got` that agree with none of the accepted settings"""
        g = (got[0], got[1], got[2], got[3] or {})
        return [n for k, n in enumerate(FIELDS) if all(g[k] != w[k] for w in accepted)]

    for ev in events:
        if ev[0] in ("S", "U", "K", "G", "GK") and ev[1] not in drivers:
            obs.append(None)                                    # the variable d_i was never bound (its constructor refused)
            continue
        if ev[0] == "N":
            _, i, k, a = ev
            dflt, ca = cdecls[k]
            if k not in ctor_cls:
                attrs = {}
                if "exe" in ca: attrs["executable"] = ca["exe"]
                if "nprocs" in ca: attrs["nprocs"] = ca["nprocs"]
                if "env" in ca: attrs["envars"] = dict(ca["env"])
                if dflt is not None: attrs["default_executable"] = world.real(dflt)
                ctor_cls[k] = type(f"Cls{k}", (base,), attrs)
            kw = {}
            if a.get("exe") is not None: kw["executable"] = world.real(a["exe"])
            if a.get("nprocs") is not None: kw["nprocs"] = a["nprocs"]
            if a.get("mem") is not None: kw["memory"] = a["mem"]
            if a.get("env") is not None: kw["envars"] = dict(a["env"])
            if a["mode"] != "default":
                kw["check_exe"], kw["find"] = a["mode"][0] == "T", a["mode"][1] == "T"
            raised = "FileNotFoundError"
            try:
                d = ctor_cls[k](**kw)
            except FileNotFoundError:
                d = None
            except Exception as e:                           # any other refusal is judged like a refusal
                d, raised = None, type(e).__name__
            # oracle, from the property text: the instance carries the executable, processor count and environment IT
            # was given -- the name as given or the place where THAT name is found -- whatever was constructed before
            req = a.get("exe") or dflt
            req_real, loc = world.real(req), world.loc(req)
            if d is None:
                obs.append(("refused",))
                if loc is not None:
                    viol.append(("C17:construct:refused-although-its-executable-is-reachable",
                                 f"driver {i} = Cls{k}({kw}) was refused ({raised}); {req!r} is at {world.canon(loc)}; events {brief(events)}"))
                continue
            got = (d.executable, d.nprocs, d.memory, None if d.envars is None else dict(d.envars))
            obs.append(("new",) + got)
            want_np = a["nprocs"] if a.get("nprocs") is not None else 1
            what = []
            if d.executable not in {req_real, loc or req_real}: what.append("executable")
            if d.nprocs != want_np: what.append("nprocs")
            if d.memory != a.get("mem"): what.append("memory")
            if (d.envars or {}) != (a.get("env") or {}): what.append("envars")
            if what:
                viol.append(("C17:construct:instance-differs-from-its-arguments:" + "+".join(what),
                             f"driver {i} = Cls{k}({ {x: (world.canon(y) if isinstance(y, str) else y) for x, y in kw.items()} }) holds executable="
                             f"{world.canon(str(d.executable))!r} nprocs={d.nprocs} memory={d.memory} envars={d.envars}; {req!r} leads to "
                             f"{world.canon(str(loc))}; events {brief(events)}"))
            drivers[i], classes[i] = d, ctor_cls[k]
            cur[i] = (ca, dict(exe=d.executable if "executable" not in what else (loc or req_real), nprocs=want_np,
                               mem=a.get("mem"), env=a.get("env")))
            continue
        if ev[0] == "C":
            _, i, ca, s = ev
            attrs = {}
            if "exe" in ca: attrs["executable"] = ca["exe"]
            if "nprocs" in ca: attrs["nprocs"] = ca["nprocs"]
            if "env" in ca: attrs["envars"] = dict(ca["env"])
            ck = json.dumps(ca, sort_keys=True)
            if same_class and ck in shared_cls:
                classes[i] = shared_cls[ck]                    # several live instances of the SAME class
            else:
                classes[i] = shared_cls[ck] = type(f"Sub{i}", (base,), attrs)   # subclasses share the parent's Job object
            drivers[i] = classes[i](s["exe"], nprocs=s["nprocs"], memory=s["mem"],
                                    envars=None if s["env"] is None else dict(s["env"]), check_exe=False, find=False)
            cur[i] = (ca, s)
            obs.append(None)
        elif ev[0] == "S":
            _, i, s = ev
            d = drivers[i]
            d.executable, d.nprocs, d.memory, d.envars = s["exe"], s["nprocs"], s["mem"], (None if s["env"] is None else dict(s["env"]))
            cur[i] = (cur[i][0], s)
            obs.append(None)
        elif ev[0] in ("U", "K"):
            _, i = ev
            j = drivers[i].job if ev[0] == "U" else classes[i].job
            got = prepare_and_look(j, f"arg{i}")
            del j
            obs.append(got)
            if got is None:
                continue
            # oracle, from the property text: the JobInput reflects THIS driver's settings, whatever happened before
            ca, s = cur[i] if ev[0] == "U" else (cur[i][0], NO_INST)
            what = diff(got, expected_bound(decl, vectorized, ca, s))
            if what:
                viol.append(("C17:bind:settings-of-another-driver:" + "+".join(what),
                             f"driver {i} ({s}) was bound with executable={got[0]!r} nprocs={got[1]} memory={got[2]} envars={got[3]} "
                             f"after events {brief(events)}"))
        elif ev[0] in ("G", "GK"):
            _, i, h = ev
            j = drivers[i].job if ev[0] == "G" else classes[i].job
            ca, s = cur[i] if ev[0] == "G" else (cur[i][0], NO_INST)
            got = (j.executable, j.nprocs, j.memory, None if j.envars is None else dict(j.envars))
            gen = j.prepare([f"held{h}", f"held{h}b"]) if (vectorized and lazy) else None
            held[h] = dict(job=j, gen=gen, i=i, ca=ca, s=s, kind=ev[0])     # replaces (drops) whatever h held before
            del j
            obs.append(got)
            what = diff(got, expected_bound(decl, vectorized, ca, s))
            if what:
                viol.append(("C17:bind:settings-of-another-driver:" + "+".join(what),
                             f"the job obtained through driver {i} ({s}) carries executable={got[0]!r} nprocs={got[1]} memory={got[2]} "
                             f"envars={got[3]} after events {brief(events)}"))
        else:
            _, h = ev
            r = held.get(h)
            if r is None:
                obs.append(None)
                continue
            got = prepare_and_look(r["job"], f"held{h}", r["gen"])
            r["gen"] = None
            obs.append(got)
            if got is None:
                continue
            # oracle: the job object was obtained through driver i.  The property text does not say whether a
            # reassignment of driver i's OWN attributes between obtaining and using must show (molli: it does not, the
            # model states that); so each field may be driver i's at the moment of obtaining or now -- never anything else
            i = r["i"]
            at_obtain = expected_bound(decl, vectorized, r["ca"], r["s"])
            now = expected_bound(decl, vectorized, cur[i][0], cur[i][1] if r["kind"] == "G" else NO_INST)
            what = diff(got, at_obtain, now)
            if what:
                viol.append(("C17:bind:held-job-settings-of-another-driver:" + "+".join(what),
                             f"the job obtained through driver {i} ({r['s']}) and kept in a variable built its input with "
                             f"executable={got[0]!r} nprocs={got[1]} memory={got[2]} envars={got[3]}; events "
                             f"{brief(events)}"))
    if world is not None:
        viol = [(sig, world.canon(text)) for sig, text in viol]      # messages do not depend on the scratch location
    return obs, viol


def cq_bound(o):
    exe, npr, mem, envd = o
    return f"(mk_bound {cq_o(exe)} {int(npr)}%N {int(mem)}%N {cq_d(list((envd or {}).items()))})"


def cq_bevent(ev):
    if ev[0] == "C": return f"BCreate {ev[1]}%N {cq_settings(ev[2])} {cq_settings(ev[3])}"
    if ev[0] == "S": return f"BSet {ev[1]}%N {cq_settings(ev[2])}"
    if ev[0] == "U": return f"BUse {ev[1]}%N"
    if ev[0] == "K": return f"BUseCls {ev[1]}%N"
    if ev[0] == "G": return f"BGet {ev[1]}%N {ev[2]}%N"
    if ev[0] == "GK": return f"BGetCls {ev[1]}%N {ev[2]}%N"
    if ev[0] == "P": return f"BPrep {ev[1]}%N"
    raise ValueError(ev)


def cq_bcase(decl, events, obs):
    return f"(mk_bcase {cq_settings(decl)} [{'; '.join(cq_bevent(ev) for ev in events)}] {cq_l(obs, lambda o: cq_o(o, cq_bound))})"


def binding_cases(rng, thorough):
    out = []
    k = 0
    for nd in (2, 3):
        for order in binding_orders(nd):
            for variant in range(4 if thorough else (2 if nd == 3 else 4)):
                decl = DECLS[1 + (k // 2 + variant) % (len(DECLS) - 1)] if variant else {}   # every declared-settings kind recurs
                sets = rng.sample(SETTINGS_POOL, nd) if variant else SETTINGS_POOL[:nd]
                evs = []
                for kind, i in order:
                    if kind == "C":
                        evs.append(("C", i, CLS_ATTRS[(k + i) % 3] if variant >= 2 else {}, sets[i]))
                    else:
                        evs.append(("U", i))
                if variant == 3:      # reassigned attributes, class-level access, repeated use
                    evs.append(("S", 0, SETTINGS_POOL[3]))
                    evs.append(("K", nd - 1))
                    evs += [("U", 0), ("U", nd - 1), ("U", 0)]
                out.append((decl, evs, (k + variant) % 5 == 4))
                k += 1
    # directed: a job that DECLARES settings of its own (the dict/object held by the shared descriptor) used through
    # drivers whose own settings differ, in both orders and repeatedly -- state that sticks to the descriptor shows
    # up as another driver's setting in a later binding
    for decl in DECLS[1:] + [dict(env={"LC": "C"}), dict(env={"LC": "C"}, nprocs=3)]:
        for ca in CLS_ATTRS:
            for a, b in itertools.permutations(range(len(SETTINGS_POOL)), 2):
                if (a + 2 * b + len(out)) % (1 if thorough else 3):
                    continue
                evs = [("C", 0, ca, SETTINGS_POOL[a]), ("C", 1, {}, SETTINGS_POOL[b]),
                       ("U", 0), ("U", 1), ("U", 0), ("K", 1), ("U", 1), ("U", 0)]
                out.append((decl, evs, len(out) % 4 == 3))
    return out


def held_orders(nd, interleave_create):
    """every order of obtaining the bound job through each of nd drivers (G i: h_i = d_i.job, kept) and using the kept
    objects (P i: h_i.prepare(..)), each G before its P; with interleave_create the creations take part as well
    (C i before G i), otherwise all drivers are created first (all LIVE while the jobs are held)."""
    evs = [("G", i) for i in range(nd)] + [("P", i) for i in range(nd)]
    if interleave_create:
        evs = [("C", i) for i in range(nd)] + evs
    for perm in itertools.permutations(evs):
        pos = {e: k for k, e in enumerate(perm)}
        if all(pos[("G", i)] < pos[("P", i)] for i in range(nd)) and \
                (not interleave_create or all(pos[("C", i)] < pos[("G", i)] for i in range(nd))):
            yield ([] if interleave_create else [("C", i) for i in range(nd)]) + list(perm)


def max_held_between(evs):
    """largest number of bound jobs obtained through DISTINCT drivers that are held at the moment one of them is used"""
    held, best = {}, 0
    for e in evs:
        if e[0] in ("G", "GK"):
            held[e[2]] = e[1]
        elif e[0] == "P" and e[1] in held:
            best = max(best, len(set(held.values())))
    return best


def held_cases(rng, thorough):
    """Histories in which OBTAINING the bound job through a driver and USING a previously obtained one are separate
    events.  -> [(decl, events, vectorized, same_class, lazy, family)]"""
    out = []
    k = 0
    # (a) systematic: every interleaving of obtain/use over 2..3 live drivers (2 drivers: creations interleaved too)
    for nd, inter in ((2, True), (2, False), (3, False)):
        for order in held_orders(nd, inter):
            nvar = (4 if nd == 2 else 1) if not thorough else 4
            for variant in range(nvar):
                v = (k + variant) if nd == 3 else variant
                decl = DECLS[(k // 3 + v) % len(DECLS)] if v % 2 else {}
                same = v % 4 in (0, 3)                        # several instances of ONE class / a subclass per driver
                ca = CLS_ATTRS[(k + v) % 3] if v % 4 >= 2 else {}
                sets = rng.sample(SETTINGS_POOL, nd) if v % 2 else SETTINGS_POOL[:nd]
                evs = []
                for kind, i in order:
                    if kind == "C": evs.append(("C", i, ca if same else (CLS_ATTRS[(k + i) % 3] if v % 4 >= 2 else {}), sets[i]))
                    elif kind == "G": evs.append(("G", i, i))
                    else: evs.append(("P", i))
                vec = (k + variant) % 3 == 2
                out.append((decl, evs, vec, same, vec and (k + variant) % 2 == 0, f"held-orders-{nd}"))
                k += 1
    # (b) directed: repeated obtains through the same driver, reassignment between obtain and use, class-level obtains,
    # a variable re-bound to another driver's job, immediate uses in between
    for decl in [dict()] + DECLS[1:] + [dict(env={"LC": "C"}, nprocs=3)]:
        for ca in CLS_ATTRS:
            for a, b in itertools.permutations(range(len(SETTINGS_POOL)), 2):
                if (a + 2 * b + len(out)) % (1 if thorough else 3):
                    continue
                c = next(x for x in range(len(SETTINGS_POOL)) if x not in (a, b))
                same = (a + b + len(out)) % 2 == 0
                evs = [("C", 0, ca, SETTINGS_POOL[a]), ("C", 1, ca if same else {}, SETTINGS_POOL[b]),
                       ("G", 0, 0), ("G", 0, 1), ("S", 0, SETTINGS_POOL[c]), ("G", 0, 2), ("G", 1, 3),
                       ("P", 0), ("P", 1), ("P", 2), ("P", 3), ("U", 0), ("P", 0), ("GK", 1, 4), ("P", 3), ("P", 4),
                       ("K", 0), ("P", 2), ("G", 1, 0), ("P", 0), ("P", 2), ("U", 1), ("P", 1)]
                vec = len(out) % 4 == 3
                out.append((decl, evs, vec, same, vec and len(out) % 8 == 3, "held-directed"))
    # (c) seeded random histories over all event kinds, up to 4 variables holding jobs
    for r in range(800 if thorough else 120):
        nd = rng.choice((2, 3))
        same = rng.random() < 0.5
        ca_all = rng.choice(CLS_ATTRS)
        decl = rng.choice(DECLS) if rng.random() < 0.5 else {}
        evs = [("C", i, ca_all if same else rng.choice(CLS_ATTRS), rng.choice(SETTINGS_POOL)) for i in range(nd)]
        have = []
        for _ in range(rng.randint(8, 14)):
            t = rng.choice("GGGPPPPUKSC" if have else "GGGUS") if rng.random() < 0.9 else "GK"
            i = rng.randrange(nd)
            if t == "G": h = rng.randrange(4); evs.append(("G", i, h)); have.append(h)
            elif t == "GK": h = rng.randrange(4); evs.append(("GK", i, h)); have.append(h)
            elif t == "P": evs.append(("P", rng.choice(have)))
            elif t in "UK": evs.append((t, i))
            elif t == "S": evs.append(("S", i, rng.choice(SETTINGS_POOL)))
            else: evs.append(("C", i, ca_all if same else rng.choice(CLS_ATTRS), rng.choice(SETTINGS_POOL)))
        for h in sorted(set(have)):
            evs.append(("P", h))
        vec = r % 3 == 1
        out.append((decl, evs, vec, same, vec and r % 2 == 1, "held-random"))
    return out


# ------------------------------------------------------------------ constructor cases (Model/JobCtor.v)
HEADER_C = HEADER.replace("Model.Job.", "Model.Job Model.JobCtor.")
# The world the executable lookup sees: small real shell scripts in a scratch directory.  d1, d2 are on PATH in this
# order, d3 is not.  (relative path, executable?)
WORLD_PATH = ["d1", "d2"]
WORLD_FILES = [("d1/tool", True), ("d2/tool", True), ("d3/tool", True), ("d1/alpha", True), ("d2/beta", True),
               ("d1/plain", False), ("d2/plain", True), ("d3/gamma", True), ("d1/xtb", True), ("d3/xtb", True),
               ("d2/deflt", True), ("d1/data.txt", False)]
# Where each name a driver may be given leads ("@x" = the absolute path of x) -- WRITTEN DOWN from the layout, not
# computed the way the model or shutil.which computes it.  None: unreachable.
LOC = {"tool": "d1/tool", "alpha": "d1/alpha", "beta": "d2/beta", "plain": "d2/plain", "xtb": "d1/xtb", "deflt": "d2/deflt",
       "@d1/tool": "d1/tool", "@d2/tool": "d2/tool", "@d3/tool": "d3/tool", "@d3/gamma": "d3/gamma", "@d3/xtb": "d3/xtb",
       "@d2/beta": "d2/beta",
       "gamma": None, "nothing": None, "data.txt": None, "@d1/plain": None, "@d3/missing": None, "@d1": None}
EXE_KIND = {"tool": "bare-name-first-of-two-on-PATH", "alpha": "bare-name-on-PATH", "beta": "bare-name-on-PATH",
            "plain": "bare-name-behind-a-non-executable-namesake", "xtb": "bare-name-on-PATH", "deflt": "bare-name-on-PATH",
            "@d1/tool": "absolute-in-a-PATH-directory", "@d2/tool": "absolute-shadowed-on-PATH", "@d2/beta": "absolute-in-a-PATH-directory",
            "@d3/tool": "absolute-off-PATH", "@d3/gamma": "absolute-off-PATH", "@d3/xtb": "absolute-off-PATH",
            "gamma": "unreachable-bare-name", "nothing": "unreachable-bare-name", "data.txt": "unreachable-not-executable",
            "@d1/plain": "unreachable-not-executable", "@d3/missing": "unreachable-absolute", "@d1": "unreachable-a-directory"}
REACHABLE = [x for x in LOC if LOC[x] is not None and x not in ("xtb", "deflt", "@d3/xtb")]
UNREACHABLE = [x for x in LOC if LOC[x] is None]
# driver classes of the constructor cases: (default_executable | None = no such attribute, class attributes)
CDECLS = [("deflt", {}), (None, {}), ("nothing", CLS_ATTRS[1]), ("deflt", CLS_ATTRS[2]), ("@d3/gamma", {})]
MODES = ["default", "TT", "TF", "FF"]        # check_exe/find omitted (True, True) | given.  (False, True) is not generated:
                                             # the constructor then reads an unbound local (outside the property and the model)


class World:
    def __init__(self, root):
        self.root = os.path.realpath(root)
        for rel, x in WORLD_FILES:
            fn = os.path.join(self.root, rel)
            os.makedirs(os.path.dirname(fn), exist_ok=True)
            with open(fn, "w") as f:
                f.write(f"#!/bin/sh\necho {rel}\n")
            os.chmod(fn, 0o755 if x else 0o644)
        os.makedirs(os.path.join(self.root, "d3"), exist_ok=True)

    def real(self, spec):
        """the string handed to the driver"""
        return None if spec is None else (os.path.join(self.root, spec[1:]) if spec.startswith("@") else spec)

    def loc(self, spec):
        r = None if spec is None else LOC[spec]
        return None if r is None else os.path.join(self.root, r)

    def canon(self, x):
        return x.replace(self.root, "/W") if isinstance(x, str) else x

    def __enter__(self):
        self.saved = os.environ.get("PATH")
        os.environ["PATH"] = ":".join(os.path.join(self.root, d) for d in WORLD_PATH)
        return self

    def __exit__(self, *a):
        if self.saved is None:
            os.environ.pop("PATH", None)
        else:
            os.environ["PATH"] = self.saved

    def cq(self):
        return (f"(mk_world {cq_l(['/W/' + d for d in WORLD_PATH])} "
                f"{cq_l(['/W/' + rel for rel, x in WORLD_FILES if x])})")


def cq_ccase(world, decl, cdecls, events, obs):
    cls = "; ".join(f"({k}%N, ({cq_o(world.canon(world.real(d)))}, {cq_settings(ca)}))" for k, (d, ca) in enumerate(cdecls))
    evs, os_ = [], []
    for ev, o in zip(events, obs):
        if ev[0] == "N":
            a = ev[3]
            chk, fnd = ("true", "true") if a["mode"] == "default" else ("true" if a["mode"][0] == "T" else "false", "true" if a["mode"][1] == "T" else "false")
            n_ = lambda n: str(n) + "%N"
            evs.append(f"CNew {ev[1]}%N {ev[2]}%N (mk_cargs {cq_o(world.canon(world.real(a.get('exe'))))} {cq_o(a.get('nprocs'), n_)} "
                       f"{cq_o(a.get('mem'), n_)} {cq_o(None if a.get('env') is None else list(a['env'].items()), cq_d)} {chk} {fnd})")
            if o == ("refused",):
                os_.append("ONew CRefused")
            else:
                os_.append("ONew (COk " + cq_settings(dict(exe=world.canon(o[1]), nprocs=o[2], mem=o[3], env=o[4])) + ")")
        else:
            evs.append("CEv (" + cq_bevent(ev) + ")")
            os_.append("OB " + cq_o(None if o is None else (world.canon(o[0]),) + tuple(o[1:]), cq_bound))
    return f"(mk_ccase {world.cq()} [{cls}] {cq_settings(decl)} [{'; '.join(evs)}] [{'; '.join(os_)}])"


def ctor_args(spec, j, mode="default"):
    """constructor arguments number j around an executable spec: distinct processor counts / memory / environments"""
    return dict(exe=spec, nprocs=[4, None, 7, 2, 0][j % 5], mem=[None, 2000, None, 300][j % 4],
                env=[{"A": str(j)}, None, {"B": "2", "A": "two"}, {}][j % 4], mode=mode)


def ctor_cases(rng, thorough):
    """Histories in which drivers are built by the REAL constructor (executable looked up in the scratch world).
    -> [(decl, cdecls, events, vectorized, family)]"""
    out = []
    k = 0
    with_default = [c for c, (d, _) in enumerate(CDECLS) if d is not None]

    def pick_class(spec, pref):
        return pref if (spec is not None or CDECLS[pref][0] is not None) else with_default[pref % len(with_default)]
    # (a) every order of creating and using 2..3 drivers x class assignment (instances of ONE class / a class each /
    #     mixed) x distinct executables (names on PATH, absolute paths, the class default, now and then an unreachable one)
    for nd in (2, 3):
        for order in binding_orders(nd):
            for variant in range((8 if nd == 2 else 2) * (3 if thorough else 1)):
                v = k + variant
                specs = rng.sample(REACHABLE + [None], nd)
                if v % 4 == 3:
                    specs[rng.randrange(nd)] = rng.choice(UNREACHABLE)
                base_k = v % 2                                     # class 0 (default "deflt") or 1 (no default)
                how = v % 3                                        # 0: one class, 1: a class each, 2: first two share
                ks = [base_k if how == 0 else ((base_k + i) % len(CDECLS) if how == 1 else (base_k if i < 2 else 3)) for i in range(nd)]
                mode = "default" if v % 5 < 3 else MODES[1 + v % 3]
                decl = DECLS[(v // 3) % len(DECLS)] if v % 7 == 6 else {}
                evs = []
                for kind, i in order:
                    if kind == "C":
                        evs.append(("N", i, pick_class(specs[i], ks[i]), ctor_args(specs[i], i + v, mode)))
                    else:
                        evs.append(("U", i))
                evs += [("U", i) for i in range(nd)]
                out.append((decl, CDECLS, evs, v % 6 == 5, f"ctor-orders-{nd}"))
                k += 1
    # (b) directed: EVERY ordered pair of executables (reachable or not) given to two instances of one class (and of two
    #     classes in the thorough tier), used at once, obtained-and-kept, and a third instance repeating the first name
    allspecs = list(LOC) + [None]
    for a, b in itertools.permutations(allspecs, 2):
        for same in ((True,) if not thorough else (True, False)):
            ka = pick_class(a, len(out) % 2)
            kb = ka if same else pick_class(b, (ka + 1 + len(out) % 3) % len(CDECLS))
            kb = pick_class(b, kb)
            if same and kb != ka:
                ka = kb = pick_class(None, 0)
            if a is None or b is None:          # both names are given to instances of both classes: each needs a default
                ka, kb = pick_class(None, ka), pick_class(None, kb)
            mode2 = "default" if len(out) % 4 else "TF"
            evs = [("N", 0, ka, ctor_args(a, 0)), ("N", 1, kb, ctor_args(b, 1, mode2)), ("U", 0), ("U", 1),
                   ("G", 1, 0), ("G", 0, 1), ("N", 2, ka, ctor_args(b, 2)), ("P", 0), ("P", 1), ("U", 2),
                   ("N", 1, kb, ctor_args(a, 3, "TT")), ("U", 1), ("P", 0), ("U", 0)]
            out.append(({}, CDECLS, evs, len(out) % 5 == 4, "ctor-pairs-one-class" if same else "ctor-pairs-two-classes"))
    # (c) seeded random histories over all event kinds: constructor calls in every mode, drivers made with the lookup off,
    #     reassignment, immediate / class-level / kept uses
    for r in range(700 if thorough else 110):
        nd = rng.choice((2, 3, 4))
        decl = rng.choice(DECLS) if rng.random() < 0.3 else {}
        one = rng.choice(range(len(CDECLS))) if rng.random() < 0.5 else None
        evs, have = [], []

        def new(i):
            spec = rng.choice(REACHABLE + [None]) if rng.random() < 0.8 else rng.choice(UNREACHABLE)
            kk = pick_class(spec, one if one is not None else rng.randrange(len(CDECLS)))
            a = ctor_args(spec, rng.randrange(20), rng.choice(MODES) if rng.random() < 0.5 else "default")
            return ("N", i, kk, a)
        for i in range(nd):
            evs.append(new(i))
        for _ in range(rng.randint(6, 12)):
            t = rng.choice("NNNGGPPUUUKSC" if have else "NNNGGUUUSC")
            i = rng.randrange(nd)
            if t == "N": evs.append(new(i))
            elif t == "G":
                h = rng.randrange(4); evs.append((rng.choice(["G", "G", "GK"]), i, h)); have.append(h)
            elif t == "P": evs.append(("P", rng.choice(have)))
            elif t in "UK": evs.append((t, i))
            elif t == "S": evs.append(("S", i, rng.choice(SETTINGS_POOL)))
            else: evs.append(("C", i, {}, rng.choice(SETTINGS_POOL)))
        evs += [("U", i) for i in range(nd)] + [("P", h) for h in sorted(set(have))]
        out.append((decl, CDECLS, evs, r % 4 == 1, "ctor-random"))
    return out


def ctor_stats(evs, obs):
    """(number of pairs of live instances of one class built with different located executables, ...) for the evidence"""
    per_class = {}
    for ev, o in zip(evs, obs):
        if ev[0] == "N" and o and o[0] == "new":
            per_class.setdefault(ev[2], set()).add(o[1])
    return max([len(x) for x in per_class.values()] or [0])


XTB_JOBS = ("optimize_m", "energy_m", "atom_properties_m")


def xtb_ctor_oracle(world, thorough):
    """The shipped XTBDriver built with its DEFAULT constructor options (executable checked and located) around real
    executables: 2..3 instances with distinct programs / processor counts, every order of creating and using."""
    import molli as ml
    from molli.pipeline.xtb import XTBDriver
    mol = ml.Molecule.load_mol2(str(ml.files.dendrobine_mol2))
    sets = [("@d3/xtb", 4), (None, 16), ("@d2/tool", 1), ("alpha", 3), ("@d3/missing", 5), ("nothing", 2)]
    viol, n = [], 0
    combos = [c for nd in (2, 3) for c in itertools.permutations(range(len(sets)), nd)]
    for ci, combo in enumerate(combos):
        nd = len(combo)
        orders = list(binding_orders(nd))
        if nd == 3 and not thorough:
            orders = orders[ci % 9::9]
        for order in orders:
            ds = {}
            for kind, i in order:
                spec, npr = sets[combo[i]]
                req = spec or "xtb"
                if kind == "C":
                    try:
                        ds[i] = XTBDriver(world.real(spec), nprocs=npr) if spec is not None else XTBDriver(nprocs=npr)
                    except FileNotFoundError:
                        if world.loc(req) is not None:
                            viol.append(("C17:construct:refused-although-its-executable-is-reachable:XTBDriver",
                                         f"XTBDriver({spec!r}, nprocs={npr}) refused after creating/using {[sets[combo[j]][0] for _, j in order]} in order {order}"))
                    continue
                if i not in ds:
                    continue
                accepted = {world.real(req), world.loc(req) or world.real(req)}
                for jobname in XTB_JOBS:
                    cmd = getattr(ds[i], jobname).prepare(mol).commands[0][0]
                    n += 1
                    words = cmd.split()
                    if words[0] not in accepted or words[words.index("-P") + 1] != str(npr):
                        viol.append((f"C17:construct:instance-differs-from-its-arguments:XTBDriver.{jobname}",
                                     f"XTBDriver({spec!r}, nprocs={npr}) (executable at {world.canon(str(world.loc(req)))}) produced the command "
                                     f"{world.canon(cmd)!r}; drivers {[sets[combo[j]] for j in range(nd)]} created/used in order {order}"))
    return n, viol


def xtb_oracle(rng):
    """The shipped XTBDriver through every create/use order of 2..3 instances."""
    import molli as ml
    from molli.pipeline.xtb import XTBDriver
    mol = ml.Molecule.load_mol2(str(ml.files.dendrobine_mol2))
    viol = []
    sets = [("xtb-a", 4, {"OMP_STACKSIZE": "1G"}), ("/opt/xtb-b", 16, {"X": "y"}), ("xtb-c", 1, None)]
    n = 0
    for nd in (2, 3):
        for order in binding_orders(nd):
            ds = {}
            for kind, i in order:
                if kind == "C":
                    ds[i] = XTBDriver(sets[i][0], nprocs=sets[i][1], envars=sets[i][2], check_exe=False, find=False)
                    continue
                for jobname in ("optimize_m", "energy_m"):
                    inp = getattr(ds[i], jobname).prepare(mol)
                    n += 1
                    cmd = inp.commands[0][0]
                    if not cmd.startswith(sets[i][0] + " ") or f" -P {sets[i][1]} " not in cmd + " ":
                        viol.append((f"C17:bind:settings-of-another-driver:XTBDriver.{jobname}",
                                     f"XTBDriver({sets[i][0]!r}, nprocs={sets[i][1]}) produced command {cmd!r} after {order}"))
                    if sets[i][2] and not all((inp.envars or {}).get(a) == b for a, b in sets[i][2].items()):
                        viol.append(("C17:bind:driver-envars-not-forwarded:XTBDriver",
                                     f"XTBDriver(envars={sets[i][2]}).{jobname}.prepare(mol).envars == {inp.envars!r}"))
    # the jobs of 2..3 live drivers obtained first (every order) and used afterwards (every order)
    for nd in (2, 3):
        ds = [XTBDriver(sets[i][0], nprocs=sets[i][1], envars=sets[i][2], check_exe=False, find=False) for i in range(nd)]
        for jobname in ("optimize_m", "energy_m"):
            for get_order in itertools.permutations(range(nd)):
                for use_order in itertools.permutations(range(nd)):
                    jobs = {i: getattr(ds[i], jobname) for i in get_order}       # all held at the same time
                    for i in use_order:
                        cmd = jobs[i].prepare(mol).commands[0][0]
                        n += 1
                        if not cmd.startswith(sets[i][0] + " ") or f" -P {sets[i][1]} " not in cmd + " ":
                            viol.append((f"C17:bind:held-job-settings-of-another-driver:XTBDriver.{jobname}",
                                         f"jobs obtained in order {get_order} and kept; the one of XTBDriver({sets[i][0]!r}, "
                                         f"nprocs={sets[i][1]}) produced command {cmd!r} (use order {use_order})"))
    return n, viol


# ------------------------------------------------------------------ check
def run(ctx, rep):
    import molli.pipeline as P
    rep.rule = ("(ii) run_local: command lists of length 1..4 x each first-failure position (or none) x each subset of 0..3 "
                "requested files missing x rotating input kinds (utf-8 text, binary incl. NUL/CR/0xFF, none) x "
                "environment overrides, plus seeded random scripts over 11 primitives; every case is a real run_local "
                "execution with `sh -c` commands; non-trivial = at least one command executed; distinct by the case term. "
                "(i) binding: every order of creating/using 2..3 driver instances x declared job settings x class attributes "
                "x single/vectorised, fresh driver class per case; plus histories in which OBTAINING the bound job through a "
                "driver (h = d.job, kept) and USING a kept one (h.prepare) are separate events: every interleaving of "
                "obtain/use over 2..3 live drivers (2 drivers: creations interleaved too), directed histories with repeated "
                "obtains through one driver / reassignment between obtain and use / class-level obtains / re-bound variables, "
                "seeded random histories over all event kinds with up to 4 kept jobs; drivers as instances of ONE class or a "
                "subclass each; vectorised jobs also kept as the lazy generator prepare returned; the shipped XTBDriver with "
                "all obtain orders x all use orders; distinct by the history. "
                "(i') drivers built by the REAL constructor around real executables (shell scripts in a scratch world: two PATH "
                "directories with a shadowed name, a non-executable namesake, a directory off PATH): 2..4 instances of one class / "
                "of several classes (with / without default_executable, class attributes) given distinct executables (bare name on "
                "PATH, absolute path on/off PATH or shadowed, class default, unreachable in 6 ways) x check_exe/find omitted or "
                "given x distinct nprocs/memory/envars, in every order of creating and using 2..3, every ordered pair of "
                "executables in one class, seeded random histories with all event kinds; the shipped XTBDriver with its default "
                "constructor options over the same world; paths canonicalised to /W")
    rep.trusted += ["harness/c17.py (script renderer `sh -c`, forked run_local worker, canonicalisation of the private directory name to <cwd>, Coq literal emission)",
                    "CPython subprocess/tempfile/shlex, /bin/sh, msgpack (modelled: commands as the oracle sh_exec; TemporaryDirectory as create/remove around the body)"]
    rep.trusted += ["shutil.which / os.access (modelled: Model/JobCtor.v `which` over the PATH directories and the executable files of the scratch world)"]
    rep.assumptions += ["constructor calls with check_exe=False and find=True are not generated (the constructor reads an unbound local there)",
                        "the PATH and the executable files do not change within a process (one world for all constructor histories)"]
    rep.assumptions += ["commands do not touch the capture files <name>.out/.err and command names are distinct (hypotheses of C17_capture)",
                        "requested file names are plain relative names (str(Path(f)) == f)",
                        "commands can be spawned (a missing program makes run_local raise: outside the model)",
                        "stdout/stderr are read back in text mode: CR/CRLF would be normalised, generated output contains none"]
    ok, out, where = vlib.build_props(ctx, rep, "C17")
    rng = ctx.rng
    # ---- (ii) run_local
    cases = systematic_cases(rng, ctx.thorough)
    nsys = len(cases)
    cases += [random_case(rng, k) for k in range(2500 if ctx.thorough else 300)]
    cases += edge_cases()
    via_ep = list(range(0, nsys, max(1, nsys // (48 if ctx.thorough else 12))))
    obs = execute(ctx, P, cases, "rl", via_entry_point=via_ep)
    terms = []
    for i, (c, o) in enumerate(zip(cases, obs)):
        t = cq_rcase(c, o)
        terms.append(t)
        rep.case(key=t if o["trace"] else None,
                 sample={"note": c["note"], "status": o["status"], "trace": o["trace"]} if i % 97 == 11 else None)
        rep.count(f"ncmds:{len(c['cmds'])}")
        rep.count("status:" + str(o["status"]))
        rep.count("outcome:" + ("crashed" if o["out"] is None else "done"))
        rep.count("via:" + ("_molli_run" if i in via_ep else "forked run_local"))
        for sig, text in spec_judge(c, o):
            rep.violate(sig, text, {"kind": "run", "case": _ser_case(c)})
    bad = vlib.run_shards(ctx, rep, "c17r", HEADER, "check_rcase", terms, shard=40, case_type="rcase")
    # ---- (i) binding
    bterms, bmeta = [], []
    allb = [(d, e, v, False, False, "create-use") for d, e, v in binding_cases(rng, ctx.thorough)] + held_cases(rng, ctx.thorough)
    for decl, evs, vec, same, lazy, fam in allb:
        o, viol = run_binding_case(P, decl, evs, vec, same, lazy)
        t = cq_bcase(effective_decl(decl, vec), evs, o)
        bterms.append(t); bmeta.append((decl, evs, vec, same, lazy))
        rep.case(key=t + ("/same" if same else "") + ("/lazy" if lazy else "") + ("/vec" if vec else ""),
                 sample={"decl": decl, "events": [e[:3] if e[0] in ("G", "GK") else e[:2] for e in evs], "obs": o, "family": fam}
                 if len(bterms) % 61 == 7 else None)
        rep.count("bind:family:" + fam)
        rep.count("bind:vectorized" if vec else "bind:single")
        rep.count(f"bind:ndrivers:{len({e[1] for e in evs if e[0] == 'C'})}")
        rep.count("bind:declared:" + ("+".join(sorted(decl)) or "nothing"))
        rep.count("bind:class-attrs:" + ("+".join(sorted({k_ for e in evs if e[0] == "C" for k_ in e[2]})) or "none"))
        rep.count("bind:classes:" + ("instances-of-one-class" if same else "subclass-per-driver"))
        rep.count(f"bind:jobs-of-distinct-drivers-held-at-a-use:{max_held_between(evs)}")
        rep.count("bind:events:obtain-and-keep", sum(e[0] in ("G", "GK") for e in evs))
        rep.count("bind:events:use-kept-job", sum(e[0] == "P" for e in evs))
        rep.count("bind:events:use-at-once", sum(e[0] in ("U", "K") for e in evs))
        if lazy:
            rep.count("bind:kept-as-lazy-generator-of-vectorised-prepare")
        for sig, text in viol:
            rep.violate(sig, text, {"kind": "bind", "decl": decl, "events": evs, "vec": vec, "same_class": same, "lazy": lazy})
    nx, xviol = xtb_oracle(rng)
    rep.count("bind:xtb-prepare-calls", nx)
    for sig, text in xviol:
        rep.violate(sig, text, {"kind": "xtb"})
    bbad = vlib.run_shards(ctx, rep, "c17b", HEADER, "check_bcase", bterms, shard=60, case_type="bcase")
    # ---- (i') drivers built by the real constructor around real executables
    cterms, cmeta = [], []
    with World(ctx.sub("c17_world")) as world:
        for decl, cdecls, evs, vec, fam in ctor_cases(rng, ctx.thorough):
            o, viol = run_binding_case(P, decl, evs, vec, cdecls=cdecls, world=world)
            t = cq_ccase(world, effective_decl(decl, vec), cdecls, evs, o)
            cterms.append(t); cmeta.append((decl, evs, vec))
            rep.case(key=t + ("/vec" if vec else ""),
                     sample={"decl": decl, "events": [list(e[:4]) for e in evs], "family": fam,
                             "obs": [[world.canon(x) for x in ob] if ob else ob for ob in o]} if len(cterms) % 53 == 5 else None)
            rep.count("ctor:family:" + fam)
            rep.count("ctor:vectorized" if vec else "ctor:single")
            rep.count(f"ctor:most-distinct-located-executables-among-instances-of-one-class:{ctor_stats(evs, o)}")
            for ev, ob in zip(evs, o):
                if ev[0] != "N":
                    continue
                spec = ev[3]["exe"]
                rep.count("ctor:executable:" + (EXE_KIND[spec] if spec is not None else "class-default:" + EXE_KIND[cdecls[ev[2]][0]]))
                rep.count("ctor:check_exe/find:" + ev[3]["mode"])
                rep.count("ctor:outcome:" + ("refused" if ob == ("refused",) else "created"))
                rep.count("ctor:nprocs:" + ("omitted" if ev[3]["nprocs"] is None else "given"))
                rep.count("ctor:envars:" + ("none" if ev[3]["env"] is None else ("empty" if not ev[3]["env"] else "given")))
            rep.count("ctor:events:use-at-once", sum(e[0] in ("U", "K") for e in evs))
            rep.count("ctor:events:obtain-and-keep", sum(e[0] in ("G", "GK") for e in evs))
            rep.count("ctor:events:use-kept-job", sum(e[0] == "P" for e in evs))
            rep.count("ctor:events:created-with-the-lookup-off-or-reassigned", sum(e[0] in ("C", "S") for e in evs))
            for sig, text in viol:
                rep.violate(sig, text, {"kind": "ctor", "decl": decl, "cdecls": cdecls, "events": evs, "vec": vec})
        nxc, xcviol = xtb_ctor_oracle(world, ctx.thorough)
    rep.count("ctor:xtb-prepare-calls", nxc)
    for sig, text in xcviol:
        rep.violate(sig, text, {"kind": "xtb-ctor"})
    cbad = vlib.run_shards(ctx, rep, "c17c", HEADER_C, "check_ccase", cterms, shard=60, case_type="ccase")
    # ---- verdict on broken obligations
    known = {k["signature"] for k in vlib.load_known() if k["property"] == "C17" and k.get("status") == "known"}
    found = bool([v for v in rep.violations if v.sig not in known])
    if not ok:
        vlib.broken_obligation(rep, "C17_props", f"{where}\n{out[-1500:]}", found)
    for name, b, metas in (("corr_c17r", bad, cases), ("corr_c17b", bbad, bmeta), ("corr_c17c", cbad, cmeta)):
        if b is None:
            vlib.broken_obligation(rep, name, "a correspondence shard did not compile: " + str(rep.extra.get("shard_errors"))[-1500:], found)
        elif b:
            rep.extra[name + "_mismatching"] = len(b)
            if not found:
                first = metas[b[0]]
                detail = json.dumps(_ser_case(first) if isinstance(first, dict) else [first[0], [list(e) for e in first[1]]] + list(first[2:]), default=str)[:1500]
                rep.violate("broken:" + name, f"model and implementation disagree on {len(b)} case(s) (first: {detail}) but the "
                            "oracle finds no property violation on them", {"obligation": name, "first": detail}, no_input=True)
    return tuple(sorted({v.sig for v in rep.violations if v.sig.startswith("C17:bind:driver-envars-not-forwarded")}))


def _ser_case(c):
    def b(x):
        return {"b64": __import__("base64").b64encode(x).decode()} if isinstance(x, bytes) else x
    return {"jid": c["jid"], "cmds": [[[list(p) for p in sc[0]], sc[1], nm] for sc, nm in c["cmds"]],
            "files": None if c["files"] is None else {k: b(v) for k, v in c["files"].items()},
            "ret": c["ret"], "envars": c["envars"], "note": c.get("note")}


def _deser_case(d):
    def b(x):
        return __import__("base64").b64decode(x["b64"]) if isinstance(x, dict) else x
    return mk_case(d["jid"], [((tuple(tuple(p) for p in prims), code), nm) for prims, code, nm in d["cmds"]],
                   None if d["files"] is None else {k: b(v) for k, v in d["files"].items()}, d["ret"], d["envars"], d.get("note"))


def replay(ctx, data):
    import molli.pipeline as P
    out = []
    if data.get("kind") == "run":
        c = _deser_case(data["case"])
        o = execute(ctx, P, [c], "replay", via_entry_point=[0])[0]
        out += [vlib.Violation(s, t) for s, t in spec_judge(c, o)]
    elif data.get("kind") == "bind":
        evs = [tuple(e) for e in data["events"]]
        _, viol = run_binding_case(P, data["decl"], evs, data["vec"], data.get("same_class", False), data.get("lazy", False))
        out += [vlib.Violation(s, t) for s, t in viol]
    elif data.get("kind") == "xtb":
        out += [vlib.Violation(s, t) for s, t in xtb_oracle(ctx.rng)[1]]
    elif data.get("kind") == "ctor":
        evs = [tuple(e) for e in data["events"]]
        with World(ctx.sub("c17_world_replay")) as world:
            _, viol = run_binding_case(P, data["decl"], evs, data["vec"], cdecls=[tuple(c) for c in data["cdecls"]], world=world)
        out += [vlib.Violation(s, t) for s, t in viol]
    elif data.get("kind") == "xtb-ctor":
        with World(ctx.sub("c17_world_replay")) as world:
            out += [vlib.Violation(s, t) for s, t in xtb_ctor_oracle(world, False)[1]]
    return out


if __name__ == "__main__":
    if len(sys.argv) == 4 and sys.argv[1] == "--worker":
        worker_main(sys.argv[2], sys.argv[3])
