"""C15 -- graph queries agree with graph theory.

Tie H (differential correspondence, kernel-checked): the real `Connectivity` methods of molli/chem/bond.py
(yield_bfsd, yield_bfs, is_bond_in_ring, bonds_with_atom, connected_atoms, n_bonds_with_atom, bonded_valence,
match/get_substr_indices) are driven on
  * EVERY labelled simple graph on <= 5 atoms (thorough: <= 6), every start atom, every direction (bonded or not),
    every bond, every atom -- in canonical bond order and in one shuffled/re-oriented variant,
  * random graphs up to 40 atoms with random elements and bond types (plus a stream with parallel bonds/self loops),
  * random host/pattern pairs for substructure matching,
and the exact answers (the yielded sequence of (atom index, distance), ...) are compared INSIDE Coq with the
executable models of coq/Model/Graph.v and coq/Model/Match.v -- the definitions the theorems of Props/C15.v are about.
Tie T: `Bond.order`, `_node_match`, `_edge_match` are tabulated from the code into coq/Gen/MatchPreds.v on every run
and proved equal to the model predicates on the whole table.
Oracle: an independent Python reference (level-set BFS, bridge test by edge deletion, brute-force embedding search)
judges the implementation alone and turns any disagreement into a concrete failing input.
Sessions (Model/GraphSession.v): the same queries asked of ONE live object before and after in-place edits of host and
pattern (count-preserving and not) -- "any molecular graph" is the graph the object holds now, whatever was asked before.
"""
import os, sys, json, itertools, math
from fractions import Fraction
import vlib
from vlib import cq_list, cq_bool, cq_Q

HEADER = ("From Coq Require Import List NArith QArith.\nImport ListNotations.\n"
          "From Molli Require Import Model.Graph.\nOpen Scope nat_scope.\n")


# ------------------------------------------------------------------ building molecules
def build(ml, n, bonds, elements=None, btypes=None, cls=None, atoms_kw=None, bonds_kw=None):
    """bonds: list of (a1, a2) in the order and orientation they are stored."""
    import numpy as np
    els = elements or ["C"] * n
    m = ml.Molecule(els, coords=np.zeros((n, 3)))
    if atoms_kw:
        for a, kw in zip(m.atoms, atoms_kw):
            for k, v in kw.items():
                setattr(a, k, v)
    for i, (a, b) in enumerate(bonds):
        kw = dict(bonds_kw[i]) if bonds_kw else {}
        if btypes:
            bt, fo = btypes[i]
            kw["btype"] = ml.BondType(bt)
            kw["f_order"] = float(fo)
        m.connect(a, b, **kw)
    if cls == "ensemble":
        m = ml.ConformerEnsemble(m, n_conformers=1)
    elif cls == "connectivity":
        m = ml.Connectivity(m)
    return m


def cq_bres(x, f):
    if x == "assert":
        return "BAssert"
    if isinstance(x, str):
        return "BFuel"          # any other exception: never equal to a model answer
    return "(BOk " + cq_list(f(e) for e in x) + ")"


def observe_graph(ml, n, bonds, btypes=None, queries=None, cls=None, elements=None):
    """Runs every requested query on the implementation; returns list of (kind, args, observed)."""
    m = build(ml, n, bonds, btypes=btypes, cls=cls, elements=elements)
    return observe_on(m, queries)


def observe_on(m, queries):
    """the queries answered by the object m as it is now"""
    idx = {id(a): i for i, a in enumerate(m.atoms)}
    bidx = {id(b): i for i, b in enumerate(m.bonds)}
    out = []

    def guarded(fn):
        try:
            return fn()
        except AssertionError:
            return "assert"
        except Exception as e:  # noqa
            return "exc:" + type(e).__name__

    for q in queries:
        kind = q[0]
        if kind == "bfsd":
            _, s, d = q
            r = guarded(lambda: [(idx[id(a)], int(k)) for a, k in m.yield_bfsd(s, d)])
        elif kind == "bfs":
            _, s, d = q
            r = guarded(lambda: [idx[id(a)] for a in m.yield_bfs(s, d)])
        elif kind == "ring":
            r = guarded(lambda: bool(m.is_bond_in_ring(m.bonds[q[1]])))
        elif kind == "bonds":
            r = guarded(lambda: [bidx[id(b)] for b in m.bonds_with_atom(q[1])])
        elif kind == "conn":
            r = guarded(lambda: [idx[id(a)] for a in m.connected_atoms(q[1])])
        elif kind == "nb":
            r = guarded(lambda: int(m.n_bonds_with_atom(q[1])))
        elif kind == "val":
            r = guarded(lambda: Fraction(float(m.bonded_valence(q[1]))))
        else:
            raise ValueError(kind)
        out.append((q, r))
    orders = [Fraction(float(b.order)) for b in m.bonds]
    return out, orders


def query_term(q, r):
    kind = q[0]
    opt = lambda d: "None" if d is None else f"(Some {d})"
    if kind == "bfsd":
        return f"QBfsd {q[1]} {opt(q[2])} {cq_bres(r, lambda e: f'({e[0]},{e[1]})')}"
    if kind == "bfs":
        return f"QBfs {q[1]} {opt(q[2])} {cq_bres(r, str)}"
    if kind == "ring":
        return f"QRing {q[1]} {'None' if isinstance(r, str) else '(Some ' + cq_bool(r) + ')'}"
    if kind == "bonds":
        return f"QBonds {q[1]} {cq_list(map(str, r)) if not isinstance(r, str) else '[99999]'}"
    if kind == "conn":
        return f"QConn {q[1]} {cq_list(map(str, r)) if not isinstance(r, str) else '[99999]'}"
    if kind == "nb":
        return f"QNb {q[1]} {r if not isinstance(r, str) else 99999}"
    if kind == "val":
        return f"QVal {q[1]} {cq_Q(r) if not isinstance(r, str) else cq_Q(-1)}"
    raise ValueError(kind)


def gcase_term(bonds, btypes, obs):
    bt = cq_list(f"({t}%N,{cq_Q(Fraction(f))})" for t, f in btypes) if btypes else "[]"
    return ("mk_gcase " + cq_list(f"({a},{b})" for a, b in bonds) + " " + bt + " "
            + cq_list(query_term(q, r) for q, r in obs))


def full_queries(n, bonds, starts=None, dirs="all", adjacency=True, ring=True, val=True, rng=None):
    """every start; every direction (bonded or not); every bond; every atom"""
    qs = []
    nb = {i: set() for i in range(n)}
    for a, b in bonds:
        nb[a].add(b); nb[b].add(a)
    ss = list(range(n)) if starts is None else list(starts)
    for s in ss:
        qs.append(("bfsd", s, None))
        qs.append(("bfs", s, None))
        if dirs == "all":
            ds = [d for d in range(n) if d != s or s in nb[s]]
        else:  # bonded ones + one that is not bonded
            ds = sorted(nb[s])
            non = [d for d in range(n) if d not in nb[s] and d != s]
            if non and rng is not None:
                ds.append(rng.choice(non))
        for d in ds:
            qs.append(("bfsd", s, d))
            qs.append(("bfs", s, d))
    if ring:
        for i in range(len(bonds)):
            qs.append(("ring", i))
    if adjacency:
        for a in (range(n) if starts is None or n <= 8 else ss):
            qs.append(("bonds", a)); qs.append(("conn", a)); qs.append(("nb", a))
            if val:
                qs.append(("val", a))
    return qs


# ------------------------------------------------------------------ independent reference (oracle)
def ref_dist(n, bonds, s, removed=None):
    """level-set BFS on an adjacency dict (no queue): {atom: distance}"""
    nb = {i: set() for i in range(n)}
    for a, b in bonds:
        if removed is not None and (a == removed or b == removed):
            continue
        nb[a].add(b); nb[b].add(a)
    dist = {s: 0}
    frontier = {s}
    k = 0
    while frontier:
        k += 1
        nxt = set()
        for u in frontier:
            for v in nb[u]:
                if v not in dist:
                    nxt.add(v)
        for v in nxt:
            dist[v] = k
        frontier = nxt
    return dist


def is_simple(bonds):
    seen = set()
    for a, b in bonds:
        if a == b or frozenset((a, b)) in seen:
            return False
        seen.add(frozenset((a, b)))
    return True


def judge_query(n, bonds, orders, q, r):
    """Property C15 on the implementation's answer alone.  Returns list of (signature, text)."""
    kind = q[0]
    bad = []
    simple = is_simple(bonds)
    nbset = {i: set() for i in range(n)}
    for a, b in bonds:
        nbset[a].add(b); nbset[b].add(a)
    if isinstance(r, str) and r.startswith("exc:"):
        return [(f"C15:{kind}:raises-{r[4:]}", f"{kind}{q[1:]} raised {r[4:]}")]
    if kind in ("bfsd", "bfs"):
        _, s, d = q
        if d is None:
            if r == "assert":
                return [(f"C15:{kind}:assert-without-direction", f"{kind}({s}) raised AssertionError")]
            atoms = [e[0] for e in r] if kind == "bfsd" else list(r)
            dist = ref_dist(n, bonds, s)
            want = set(dist) - {s}
            if len(set(atoms)) != len(atoms):
                bad.append((f"C15:{kind}:duplicate", f"{kind}({s}) yields an atom twice: {r}"))
            if set(atoms) != want:
                bad.append((f"C15:{kind}:component", f"{kind}({s}) yields {sorted(set(atoms))}, component minus start is {sorted(want)}"))
            elif kind == "bfsd" and any(dist[a] != k for a, k in r):
                bad.append((f"C15:{kind}:distance", f"{kind}({s}) labels {r}, true distances {sorted(dist.items())}"))
            if set(atoms) <= set(dist):
                ds = [dist[a] for a in atoms]
                if ds != sorted(ds):
                    bad.append((f"C15:{kind}:order", f"{kind}({s}) not in non-decreasing distance: {r}"))
        else:
            if d not in nbset[s] or d == s:
                return []          # not a neighbour: the property says nothing (the code asserts)
            if r == "assert":
                return [(f"C15:{kind}:dir-assert", f"{kind}({s},{d}) refused a bonded direction")]
            atoms = [e[0] for e in r] if kind == "bfsd" else list(r)
            want = set(ref_dist(n, bonds, d, removed=s))
            if len(set(atoms)) != len(atoms):
                bad.append((f"C15:{kind}:dir-duplicate", f"{kind}({s},{d}) yields an atom twice: {r}"))
            if set(atoms) != want:
                bad.append((f"C15:{kind}:dir-set", f"{kind}({s},{d}) yields {sorted(set(atoms))}, reachable through {d} without {s}: {sorted(want)}"))
    elif kind == "ring":
        if not simple:
            return []
        a, b = bonds[q[1]]
        rest = [e for i, e in enumerate(bonds) if i != q[1]]
        bridge = b not in ref_dist(n, rest, a)
        if r == bridge:
            bad.append(("C15:ring:wrong", f"is_bond_in_ring(bond {q[1]}={a}-{b}) = {r} but the bond is {'a bridge' if bridge else 'on a cycle'}"))
    elif kind == "bonds":
        want = [i for i, (a, b) in enumerate(bonds) if q[1] in (a, b)]
        if sorted(r) != want:
            bad.append(("C15:adj:bonds_with_atom", f"bonds_with_atom({q[1]}) = {r}, bond list says {want}"))
    elif kind == "conn":
        want = sorted((b if a == q[1] else a) for a, b in bonds if q[1] in (a, b))
        if sorted(r) != want:
            bad.append(("C15:adj:connected_atoms", f"connected_atoms({q[1]}) = {r}, bond list says {want}"))
    elif kind == "nb":
        want = sum(1 for a, b in bonds if q[1] in (a, b))
        if r != want:
            bad.append(("C15:adj:n_bonds_with_atom", f"n_bonds_with_atom({q[1]}) = {r}, bond list says {want}"))
    elif kind == "val":
        want = sum((orders[i] for i, (a, b) in enumerate(bonds) if q[1] in (a, b)), Fraction(0))
        if r != want:
            bad.append(("C15:adj:bonded_valence", f"bonded_valence({q[1]}) = {float(r)}, sum of incident bond orders is {float(want)}"))
    return bad


# ------------------------------------------------------------------ generators
def small_graphs(nmax):
    for n in range(1, nmax + 1):
        pairs = list(itertools.combinations(range(n), 2))
        for mask in range(1 << len(pairs)):
            yield n, [p for i, p in enumerate(pairs) if mask >> i & 1]


BT_POOL = [(1, 1.0), (1, 1.0), (2, 1.0), (3, 1.0), (20, 1.0), (21, 1.0), (0, 1.0), (4, 1.0), (5, 1.0), (6, 1.0), (10, 1.0),
           (11, 1.0), (98, 1.0), (99, 0.25), (99, 1.75), (99, 2.5), (100, 1.0), (101, 1.0)]
EL_POOL = ["C", "C", "C", "H", "H", "N", "O", "S", "Cl", "P", "F", "Br", "Si", "B"]


def random_graph(rng, nmax=40, simple=True):
    n = rng.randint(2, nmax)
    bonds = []
    style = rng.random()
    # forest / tree skeleton
    for v in range(1, n):
        if rng.random() < (0.9 if style < 0.8 else 0.6):
            bonds.append((rng.randrange(v), v))
    extra = rng.choice([0, 0, 1, 2, 3, n // 4, n // 2])
    have = {frozenset(b) for b in bonds}
    for _ in range(extra):
        a, b = rng.randrange(n), rng.randrange(n)
        if simple:
            if a == b or frozenset((a, b)) in have:
                continue
        have.add(frozenset((a, b)))
        bonds.append((a, b))
    if not simple and bonds and rng.random() < 0.7:
        bonds.append(rng.choice(bonds))
    rng.shuffle(bonds)
    bonds = [(b, a) if rng.random() < 0.5 else (a, b) for a, b in bonds]
    # relabel atoms by a random permutation so indices carry no structure
    perm = list(range(n)); rng.shuffle(perm)
    bonds = [(perm[a], perm[b]) for a, b in bonds]
    btypes = [rng.choice(BT_POOL) for _ in bonds]
    elements = [rng.choice(EL_POOL) for _ in range(n)]
    return n, bonds, btypes, elements


def variant(rng, bonds):
    b2 = [(b, a) if rng.random() < 0.5 else (a, b) for a, b in bonds]
    rng.shuffle(b2)
    return b2


# ------------------------------------------------------------------ the run
def graph_part(ctx, rep):
    import molli as ml
    rng = ctx.rng
    cases, metas = [], []          # Coq terms / (tag, n, bonds, btypes, obs, orders)
    found = []

    def add(tag, n, bonds, btypes, queries, cls=None, elements=None):
        obs, orders = observe_graph(ml, n, bonds, btypes=btypes, queries=queries, cls=cls, elements=elements)
        cases.append(gcase_term(bonds, btypes or [(1, 1.0)] * len(bonds), obs))
        metas.append((tag, n, bonds, btypes, cls, elements))
        key_g = f"{n}:{bonds}"
        for q, r in obs:
            nontrivial = bool(bonds)
            rep.case(key=(f"{key_g}:{q}" if nontrivial else None))
            rep.count("query:" + q[0] + ("" if len(q) < 3 or q[2] is None else ":dir"))
            for sig, text in judge_query(n, bonds, orders, q, r):
                found.append(sig)
                rep.violate(sig, f"atoms={n} bonds={bonds}: {text}",
                            {"kind": "graph", "n": n, "bonds": [list(b) for b in bonds], "btypes": btypes,
                             "cls": cls, "query": list(q)})
        if len(rep.samples) < 3 and len(bonds) >= 4:
            rep.samples.append(f"atoms={n} bonds={bonds} {obs[0][0]} -> {obs[0][1]}")

    nmax = 6 if ctx.thorough else 5
    for n, bonds in small_graphs(nmax):
        add("small", n, bonds, None, full_queries(n, bonds))
        rep.count("graphs:small")
        if bonds and (n <= 5 or rng.random() < 0.15):
            add("small-variant", n, variant(rng, bonds), None, full_queries(n, bonds, val=False))
    n_rand = 1500 if ctx.thorough else 160
    for k in range(n_rand):
        n, bonds, btypes, elements = random_graph(rng, 40, simple=True)
        starts = list(range(n)) if n <= 10 else rng.sample(range(n), 6)
        cls = [None, None, "ensemble", "connectivity"][k % 4]
        add("random", n, bonds, btypes, full_queries(n, bonds, starts=starts, dirs="bonded", rng=rng), cls=cls, elements=elements)
        rep.count("graphs:random")
        rep.count("atoms:%02d-%02d" % (n // 10 * 10, n // 10 * 10 + 9))
    for k in range(n_rand // 4):
        n, bonds, btypes, elements = random_graph(rng, 14, simple=False)
        add("random-multigraph", n, bonds, btypes, full_queries(n, bonds, dirs="bonded", rng=rng), elements=elements)
        rep.count("graphs:multigraph")
    shard = max(20, math.ceil(len(cases) / 32))
    bad = vlib.run_shards(ctx, rep, "graph", HEADER, "check_gcase", cases, shard=shard, timeout=900, case_type="gcase")
    return bad, metas, found


# ================================================================== tie T: tabulated predicates
EL_AXIS = [0, 1, 6]
ISO_AXIS = [None, 1, 2]
AST_AXIS = [0, 1, 10, 11]
ATY_AXIS = [0, 1, 2]
BST_AXIS = [0, 1, 10]
LAB_AXIS = [None, "a", "b"]
LAB_CODE = {None: None, "a": 1, "b": 2}
ORDER_F = [Fraction(1, 4), Fraction(1), Fraction(5, 2)]


def optN(x):
    return "None" if x is None else f"Some {x}"


def chunked_defs(name, ty, items, size=3000):
    parts, names = [], []
    for k in range(0, max(len(items), 1), size):
        nm = f"{name}_{k // size}"
        names.append(nm)
        parts.append(f"Definition {nm} : list {ty} := [" + "; ".join(items[k:k + size]) + "].")
    parts.append(f"Definition {name} : list {ty} := " + " ++ ".join(names) + ".")
    return "\n".join(parts) + "\n"


def gen_tables(ctx):
    """Evaluate the real _node_match/_edge_match/Bond.order on the whole grid; write Gen/MatchPreds.v.
    Returns the raw tables for the search."""
    import molli as ml
    C = ml.Connectivity
    atoms = [ml.Atom(ml.Element(e), isotope=i, stereo=ml.chem.AtomStereo(s), atype=ml.chem.AtomType(t))
             for e, i, s, t in itertools.product(EL_AXIS, ISO_AXIS, AST_AXIS, ATY_AXIS)]
    adicts = [a.as_dict() for a in atoms]
    node = []
    for d1 in adicts:
        for d2 in adicts:
            try:
                node.append(bool(C._node_match(d1, d2)))
            except Exception:   # noqa
                node.append(None)
    bts = [int(b) for b in ml.BondType]
    x, y = ml.Atom("C"), ml.Atom("C")
    bonds = [ml.Bond(x, y, label=l, btype=ml.BondType(b), stereo=ml.chem.BondStereo(s))
             for b, s, l in itertools.product(bts, BST_AXIS, LAB_AXIS)]
    bdicts = [b.as_dict() for b in bonds]
    edge = []
    for d1 in bdicts:
        for d2 in bdicts:
            try:
                edge.append(1 if C._edge_match(d1, d2) else 0)
            except NotImplementedError:
                edge.append(2)
            except Exception:   # noqa
                edge.append(3)
    orders = []
    for b in bts:
        for f in ORDER_F:
            try:
                o = Fraction(float(ml.Bond(x, y, btype=ml.BondType(b), f_order=float(f)).order))
            except Exception:  # noqa
                o = Fraction(-1)
            orders.append((b, f, o))
    txt = ("(* REGENERATED on every run by harness/c15.py: Connectivity._node_match, Connectivity._edge_match and\n"
           "   Bond.order of molli/chem/bond.py evaluated on the whole grid below -- do not edit. *)\n"
           "From Coq Require Import List NArith QArith.\nImport ListNotations.\nOpen Scope N_scope.\n\n"
           f"Definition el_axis : list N := {cq_list(map(str, EL_AXIS))}.\n"
           f"Definition iso_axis : list (option N) := {cq_list(map(optN, ISO_AXIS))}.\n"
           f"Definition ast_axis : list N := {cq_list(map(str, AST_AXIS))}.\n"
           f"Definition aty_axis : list N := {cq_list(map(str, ATY_AXIS))}.\n"
           f"Definition bt_axis : list N := {cq_list(map(str, bts))}.\n"
           f"Definition bst_axis : list N := {cq_list(map(str, BST_AXIS))}.\n"
           f"Definition lab_axis : list (option N) := {cq_list(optN(LAB_CODE[l]) for l in LAB_AXIS)}.\n\n"
           "(* _node_match(a1, a2) for a1 (outer) and a2 (inner) over the atom grid; an exception is recorded as the\n"
           "   negation of nothing: the row is then emitted as a pair that cannot match (see harness) *)\n"
           + chunked_defs("node_obs", "bool", ["true" if v else "false" for v in node])
           + "\n(* _edge_match(e1, e2): 0 False, 1 True, 2 NotImplementedError, 3 any other exception *)\n"
           + chunked_defs("edge_obs", "N", [str(v) for v in edge])
           + "\n(* (btype value, f_order, Bond.order) *)\n"
           + "Definition order_rows : list (N * Q * Q) := "
           + cq_list(f"({b}, {cq_Q(f)}, {cq_Q(o)})" for b, f, o in orders) + ".\n")
    node_exc = any(v is None for v in node)
    vlib.write_if_changed(os.path.join(vlib.COQ, "Gen", "MatchPreds.v"), txt)
    return dict(node=node, edge=edge, orders=orders, bts=bts, node_exc=node_exc)


# ---- reference predicates written from the property text and the documented refinement (NOT from the code)
def ref_node(h, p):
    """h, p: (element, isotope, stereo, atype) of the molecule's atom and of the pattern's atom"""
    if p[0] != 0 and h[0] != p[0]:
        return False                       # elements respected, Unknown matches any
    if p[1] is not None and h[1] != p[1]:
        return False                       # an isotope asked for by the pattern
    if p[2] != 0 and h[2] != p[2]:
        return False                       # a stereo label asked for by the pattern
    return True                            # atom types are not compared


def ref_edge(h, p):
    """h, p: (btype, stereo, label); pattern order 1..3 is a lower bound, aromatic/amide exact, NotConnected never"""
    bt = p[0]
    if bt == 0:
        pass
    elif bt in (1, 2, 3):
        if h[0] < bt:
            return False
    elif bt in (20, 21):
        if h[0] != bt:
            return False
    elif bt == 11:
        return False
    else:
        return None                        # outside the supported pattern vocabulary
    if p[1] != 0 and h[1] != p[1]:
        return False
    if p[2] is not None and h[2] != p[2]:
        return False
    return True


def ref_embeddings(host, pat):
    """all induced embeddings by plain backtracking; host/pat = (atoms, bonds) with bonds (a1, a2, btype, stereo, label)"""
    ha, hb = host
    pa, pb = pat
    hmap = {frozenset((b[0], b[1])): b[2:] for b in hb}
    pmap = {frozenset((b[0], b[1])): b[2:] for b in pb}
    out = []

    def rec(f):
        k = len(f)
        if k == len(pa):
            out.append(tuple(f))
            return
        for h in range(len(ha)):
            if h in f or not ref_node(ha[h], pa[k]):
                continue
            good = True
            for i in range(k):
                pe = pmap.get(frozenset((i, k)))
                he = hmap.get(frozenset((f[i], h)))
                if (pe is None) != (he is None) or (pe is not None and not ref_edge(he, pe)):
                    good = False
                    break
            if good:
                rec(f + [h])
    rec([])
    return out


# ================================================================== matching: generators, observation, cases
M_EL = [6, 6, 6, 6, 7, 8, 1, 1, 16]
M_BT = [1, 1, 1, 1, 2, 2, 3, 20, 20, 21, 0, 4, 10]
M_PBT = [0, 1, 2, 3, 20, 21, 11]


def random_host(rng, nmax):
    n = rng.randint(2, nmax)
    bonds = set()
    for v in range(1, n):
        if rng.random() < 0.92:
            bonds.add(frozenset((rng.randrange(v), v)))
    for _ in range(rng.choice([0, 1, 1, 2, 3, n // 2])):
        a, b = rng.randrange(n), rng.randrange(n)
        if a != b:
            bonds.add(frozenset((a, b)))
    bl = []
    for e in bonds:
        a, b = sorted(e)
        if rng.random() < 0.5:
            a, b = b, a
        bl.append((a, b, rng.choice(M_BT), rng.choice([0, 0, 0, 1, 10, 11]), rng.choice([None, None, None, "a", "b"])))
    rng.shuffle(bl)
    few = rng.random() < 0.5       # few distinct elements => many embeddings
    atoms = [(6 if few and rng.random() < 0.8 else rng.choice(M_EL), rng.choice([None, None, None, None, 2, 13]),
              rng.choice([0, 0, 0, 1, 10, 11]), rng.choice([1, 1, 1, 0, 2, 31])) for _ in range(n)]
    return atoms, bl


def random_pattern(rng, host):
    ha, hb = host
    n = len(ha)
    nb = {i: set() for i in range(n)}
    for b in hb:
        nb[b[0]].add(b[1]); nb[b[1]].add(b[0])
    style = rng.choice(["induced", "induced", "induced", "dropbond", "disconnected", "foreign", "constrained", "single"])
    k = 1 if style == "single" else rng.randint(1, min(5, n))
    sel = [rng.randrange(n)]
    while len(sel) < k:
        if style == "disconnected" and rng.random() < 0.5:
            cand = [v for v in range(n) if v not in sel]
        else:
            cand = sorted({w for v in sel for w in nb[v]} - set(sel)) or [v for v in range(n) if v not in sel]
        if not cand:
            break
        sel.append(rng.choice(cand))
    rng.shuffle(sel)
    pos = {v: i for i, v in enumerate(sel)}
    pa = []
    for v in sel:
        e, iso, st, at = ha[v]
        if rng.random() < 0.25:
            e = 0
        if style != "constrained" or rng.random() < 0.5:
            iso = None if rng.random() < 0.8 else iso
            st = 0 if rng.random() < 0.8 else st
        at = rng.choice([at, 0, 1, 2, 31])
        pa.append((e, iso, st, at))
    pb = []
    for b in hb:
        if b[0] in pos and b[1] in pos:
            bt, st, lab = b[2], b[3], b[4]
            r = rng.random()
            if bt not in M_PBT or r < 0.3:
                bt = rng.choice([0, 1]) if bt >= 1 else 0
            elif r < 0.4 and bt in (2, 3):
                bt -= 1
            if style != "constrained":
                st = 0 if rng.random() < 0.8 else st
                lab = None if rng.random() < 0.8 else lab
            x, y = pos[b[0]], pos[b[1]]
            if rng.random() < 0.5:
                x, y = y, x
            pb.append((x, y, bt, st, lab))
    if style == "dropbond" and pb:
        pb.pop(rng.randrange(len(pb)))
    if style == "foreign":
        if rng.random() < 0.5 and pa:
            i = rng.randrange(len(pa)); pa[i] = (9,) + pa[i][1:]                # an element the host does not have
        elif pb:
            i = rng.randrange(len(pb)); pb[i] = pb[i][:2] + (rng.choice([11, 21, 3]),) + pb[i][3:]
    if style == "constrained" and pb and rng.random() < 0.3:
        i = rng.randrange(len(pb)); pb[i] = pb[i][:4] + (rng.choice(["a", "b"]),)
    rng.shuffle(pb)
    return (pa, pb), style


def build_typed(ml, g, cls=None):
    atoms, bonds = g
    import numpy as np
    m = ml.Molecule([ml.Element(e) for e, _, _, _ in atoms], coords=np.zeros((len(atoms), 3)))
    for a, (e, iso, st, at) in zip(m.atoms, atoms):
        a.isotope = iso
        a.stereo = ml.chem.AtomStereo(st)
        a.atype = ml.chem.AtomType(at)
    for (x, y, bt, st, lab) in bonds:
        m.connect(x, y, btype=ml.BondType(bt), stereo=ml.chem.BondStereo(st), label=lab)
    if cls == "ensemble":
        m = ml.ConformerEnsemble(m, n_conformers=1)
    return m


def observe_match(ml, host, pat, how):
    """how: 'mol' (Molecule.get_substr_indices) | 'ens' (ConformerEnsemble.get_substr_indices) | 'match' (Connectivity.match)"""
    H = build_typed(ml, host, "ensemble" if how == "ens" else None)
    P = build_typed(ml, pat)
    try:
        if how == "match":
            idx = {id(a): i for i, a in enumerate(H.atoms)}
            return [tuple(idx[id(mp[a])] for a in P.atoms) for mp in H.match(P)]
        return [tuple(int(i) for i in f) for f in H.get_substr_indices(P)]
    except Exception as e:  # noqa
        return "exc:" + type(e).__name__


def mgraph_term(g):
    atoms, bonds = g
    return ("(mk_mgraph " + cq_list(f"mk_matom {e} ({optN(i)}%N) {s} {t}" if i is not None else f"mk_matom {e} None {s} {t}"
                                    for e, i, s, t in atoms)
            + " " + cq_list(f"mk_mbond {x} {y} {bt} {st} " + ("None" if lab is None else f"(Some {LAB_CODE[lab]}%N)")
                            for x, y, bt, st, lab in bonds) + ")")


def judge_match(host, pat, obs):
    if isinstance(obs, str):
        return [(f"C15:match:raises-{obs[4:]}", f"matching raised {obs[4:]}")]
    bad = []
    want = set(ref_embeddings(host, pat))
    got = list(obs)
    if len(set(got)) != len(got):
        bad.append(("C15:match:duplicate", f"an embedding is reported twice: {sorted(got)[:6]}"))
    inv = sorted(set(got) - want)
    mis = sorted(want - set(got))
    if inv:
        bad.append(("C15:match:invalid", f"reported {inv[:4]}, which is not an induced embedding ({len(inv)} such)"))
    if mis:
        bad.append(("C15:match:missed", f"induced embedding(s) {mis[:4]} not reported ({len(mis)} missed of {len(want)})"))
    return bad


MHEADER = ("From Coq Require Import List NArith.\nImport ListNotations.\n"
           "From Molli Require Import Model.Graph Model.Match.\nOpen Scope nat_scope.\n")


def match_cases(ctx, n_cases, nmax):
    rng = ctx.rng
    for k in range(n_cases):
        host = random_host(rng, nmax)
        pat, style = random_pattern(rng, host)
        yield host, pat, style, ["mol", "ens", "match"][k % 3]
    # fixed corner cases
    tri = ([(6, None, 0, 1)] * 3, [(0, 1, 1, 0, None), (1, 2, 1, 0, None), (2, 0, 1, 0, None)])
    path3 = ([(6, None, 0, 1)] * 3, [(0, 1, 1, 0, None), (1, 2, 1, 0, None)])
    yield tri, path3, "fixed:path-in-triangle", "mol"            # not induced: no embedding
    yield path3, tri, "fixed:triangle-in-path", "mol"
    yield tri, tri, "fixed:automorphisms", "match"                # 6 embeddings
    yield path3, ([(0, None, 0, 0)] * 4, []), "fixed:pattern-larger", "mol"
    yield tri, ([(0, None, 0, 0)], []), "fixed:wildcard-atom", "ens"


def match_part(ctx, rep):
    import molli as ml
    cases, metas, found = [], [], []
    n_cases = 4000 if ctx.thorough else 360
    nmax = 11 if ctx.thorough else 9
    for host, pat, style, how in match_cases(ctx, n_cases, nmax):
        obs = observe_match(ml, host, pat, how)
        terms_obs = cq_list(cq_list(map(str, f)) for f in obs) if not isinstance(obs, str) else "[[99999]]"
        cases.append(f"mk_mcase {mgraph_term(host)} {mgraph_term(pat)} {terms_obs}")
        metas.append((host, pat, style, how))
        rep.case(key=("match:" + json.dumps([host, pat])) if (pat[0] and not isinstance(obs, str)) else None,
                 sample=(f"match host={host} pattern={pat} -> {obs}" if len(pat[0]) == 3 and obs and len(rep.samples) < 5 else None))
        rep.count("match:" + style.split(":")[0])
        rep.count("match:embeddings:" + ("exc" if isinstance(obs, str) else "0" if not obs else "1" if len(obs) == 1 else "2-9" if len(obs) < 10 else "10+"))
        for sig, text in judge_match(host, pat, obs):
            found.append(sig)
            rep.violate(sig, f"host={host} pattern={pat} via {how}: {text}",
                        {"kind": "match", "host": host, "pattern": pat, "how": how})
    shard = max(10, math.ceil(len(cases) / 32))
    bad = vlib.run_shards(ctx, rep, "match", MHEADER, "check_mcase", cases, shard=shard, timeout=900, case_type="mcase")
    return bad, metas, found


# ================================================================== sessions: query -> edit in place -> query again
# "On any molecular graph" means the graph the object holds NOW.  A session keeps ONE host object (Molecule /
# ConformerEnsemble / Connectivity) and a few pattern objects alive, asks every query of the property, edits host or
# pattern IN PLACE -- edits that keep (n_atoms, n_bonds): element / isotope / stereo of an atom, type / stereo / label /
# f_order of a bond, del_bond + connect (a substituent moved), del_atom + add atom + connect (an atom replaced); and
# edits that do not: connect, del_bond, del_atom, add atom -- and asks again on the SAME objects.  Every answer is judged
# against the atoms and bonds read back from the object at that moment, and the whole history is replayed in Coq
# (Model/GraphSession.v: check_scase) on the edit model.
SHEADER = ("From Coq Require Import List NArith QArith.\nImport ListNotations.\n"
           "From Molli Require Import Model.Graph Model.Match Model.GraphSession.\nOpen Scope nat_scope.\n")
S_EL = [6, 6, 6, 7, 8, 1, 16, 17, 35, 9, 0]
S_HBT = M_BT + [99, 5]
S_F = [0.25, 1.75, 2.5]
PRESERVING = ("el", "atomattr", "bt", "bondattr", "move", "swap")
H_KINDS = ["el"] * 4 + ["bt"] * 3 + ["move"] * 4 + ["swap"] * 2 + ["atomattr", "bondattr", "connect", "connect", "del_bond",
                                                                 "del_bond", "del_atom", "add_atom", "none"]
P_KINDS = ["el"] * 4 + ["bt"] * 3 + ["move"] * 2 + ["connect", "del_bond", "add_atom"]


def ref_order(bt, f):
    """bond order by type as documented for BondType (FractionalOrder carries its own); NOT read from the object"""
    if bt == 99:
        return Fraction(f)
    return Fraction({0: 0, 1: 1, 2: 2, 3: 3, 4: 4, 5: 5, 6: 6, 20: Fraction(3, 2), 101: 0, 10: 0, 98: 0, 11: 0}.get(bt, 1))


def st_norm(state):
    return [tuple(a) for a in state[0]], [tuple(b) for b in state[1]]


def st_apply(state, e):
    """the edit on the tracked state -- written from the documentation of the editing calls, independent of molli"""
    atoms, bonds = list(state[0]), list(state[1])
    k = e[0]
    if k == "connect":
        bonds.append(tuple(e[1:]))
    elif k == "del_bond":
        del bonds[e[1]]
    elif k == "add_atom":
        atoms.append(tuple(e[1]))
    elif k == "del_atom":
        a = e[1]
        del atoms[a]
        sh = lambda x: x - 1 if x > a else x
        bonds = [(sh(b[0]), sh(b[1])) + tuple(b[2:]) for b in bonds if a not in (b[0], b[1])]
    elif k == "set_atom":
        atoms[e[1]] = tuple(e[2])
    elif k == "set_bond":
        b = bonds[e[1]]
        bonds[e[1]] = (b[0], b[1]) + tuple(e[2:])
    else:
        raise ValueError(k)
    return atoms, bonds


def real_atom(ml, t):
    return ml.Atom(ml.Element(t[0]), isotope=t[1], stereo=ml.chem.AtomStereo(t[2]), atype=ml.chem.AtomType(t[3]))


def real_apply(ml, m, cls, e):
    """the same edit on the live object, through the public editing calls / attribute assignment"""
    k = e[0]
    if k == "connect":
        _, x, y, bt, st, lab, f = e
        m.connect(x, y, btype=ml.BondType(bt), stereo=ml.chem.BondStereo(st), label=lab, f_order=float(f))
    elif k == "del_bond":
        m.del_bond(m.bonds[e[1]])
    elif k == "add_atom":
        if cls == "connectivity":
            m.append_atom(real_atom(ml, e[1]))
        else:
            m.add_atom(real_atom(ml, e[1]), [0.0, 0.0, 0.0])
    elif k == "del_atom":
        m.del_atom(e[1])
    elif k == "set_atom":
        a = m.atoms[e[1]]
        el, iso, st, at = e[2]
        a.element = ml.Element(el)
        a.isotope = iso
        a.stereo = ml.chem.AtomStereo(st)
        a.atype = ml.chem.AtomType(at)
    elif k == "set_bond":
        b = m.bonds[e[1]]
        _, _, bt, st, lab, f = e
        b.btype = ml.BondType(bt)
        b.stereo = ml.chem.BondStereo(st)
        b.label = lab
        b.f_order = float(f)
    else:
        raise ValueError(k)


def build_state(ml, state, cls):
    import numpy as np
    atoms, bonds = state
    m = ml.Molecule([ml.Element(a[0]) for a in atoms], coords=np.zeros((len(atoms), 3)))
    for a, (e, iso, st, at) in zip(m.atoms, atoms):
        a.isotope = iso
        a.stereo = ml.chem.AtomStereo(st)
        a.atype = ml.chem.AtomType(at)
    for (x, y, bt, st, lab, f) in bonds:
        m.connect(x, y, btype=ml.BondType(bt), stereo=ml.chem.BondStereo(st), label=lab, f_order=float(f))
    if cls == "ensemble":
        m = ml.ConformerEnsemble(m, n_conformers=1)
    elif cls == "connectivity":
        m = ml.Connectivity(m)
    return m


def readback(m):
    """atoms and bonds of the object as it is now, in the tracked-state format"""
    idx = {id(a): i for i, a in enumerate(m.atoms)}
    atoms = [(int(a.element.z), a.isotope, int(a.stereo), int(a.atype)) for a in m.atoms]
    bonds = [(idx.get(id(b.a1), -1), idx.get(id(b.a2), -1), int(b.btype), int(b.stereo), b.label, float(b.f_order)) for b in m.bonds]
    return atoms, bonds


# ---- planning
def plan_edit(rng, state, kind, can_resize, els, bts, nmax):
    """-> (list of edits, touched atom indices (in the state AFTER the edits)) or None when the kind is impossible here"""
    atoms, bonds = state
    n = len(atoms)
    bonded = {frozenset((b[0], b[1])) for b in bonds}
    free = lambda bd, nn: [(x, y) for x in range(nn) for y in range(x + 1, nn) if frozenset((x, y)) not in bd]
    orient = lambda x, y: (y, x) if rng.random() < 0.5 else (x, y)
    newbond = lambda x, y: ("connect",) + orient(x, y) + (rng.choice(bts), rng.choice([0, 0, 0, 1, 10]), rng.choice([None, None, "a"]), 1.0)
    if kind == "none":
        return [], []
    if kind == "el":
        i = rng.randrange(n)
        cand = [e for e in els if e != atoms[i][0]]
        if not cand:
            return None
        return [("set_atom", i, (rng.choice(cand),) + tuple(atoms[i][1:]))], [i]
    if kind == "atomattr":
        i = rng.randrange(n)
        e, iso, st, at = atoms[i]
        iso2 = rng.choice([x for x in (None, 2, 13) if x != iso])
        st2 = rng.choice([0, 1, 10, 11]) if rng.random() < 0.5 else st
        return [("set_atom", i, (e, iso2, st2, rng.choice([at, 0, 1, 2])))], [i]
    if kind in ("bt", "bondattr"):
        if not bonds:
            return None
        i = rng.randrange(len(bonds))
        x, y, bt, st, lab, f = bonds[i]
        if kind == "bt":
            bt = rng.choice([b for b in bts if b != bt])
            f = rng.choice(S_F) if bt == 99 else 1.0
        else:
            st = rng.choice([s for s in (0, 1, 10) if s != st])
            lab = rng.choice([None, "a", "b"])
            f = rng.choice(S_F) if bt == 99 else f
        return [("set_bond", i, bt, st, lab, f)], [x, y]
    if kind == "move":
        if not bonds:
            return None
        i = rng.randrange(len(bonds))
        x, y = bonds[i][0], bonds[i][1]
        cand = free(bonded - {frozenset((x, y))}, n)
        if not cand:
            return None
        u, v = rng.choice(cand)
        return [("del_bond", i), newbond(u, v)], [x, y, u, v]
    if kind == "connect":
        cand = free(bonded, n)
        if not cand:
            return None
        u, v = rng.choice(cand)
        return [newbond(u, v)], [u, v]
    if kind == "del_bond":
        if not bonds:
            return None
        i = rng.randrange(len(bonds))
        return [("del_bond", i)], [bonds[i][0], bonds[i][1]]
    if kind == "del_atom":
        if not can_resize or n < 3:
            return None
        a = rng.randrange(n)
        nb = [b[1] if b[0] == a else b[0] for b in bonds if a in (b[0], b[1])]
        return [("del_atom", a)], [x - 1 if x > a else x for x in nb]
    if kind == "add_atom":
        if not can_resize or n >= nmax + 1:
            return None
        at = (rng.choice([e for e in els]), None, 0, 1)
        eds = [("add_atom", at)]
        if rng.random() < 0.75:
            eds.append(newbond(rng.randrange(n), n))
        return eds, [n]
    if kind == "swap":          # an atom replaced by another one with as many bonds: both counts come back
        if not can_resize or n < 3:
            return None
        a = rng.randrange(n)
        d = sum(1 for b in bonds if a in (b[0], b[1]))
        tg = rng.sample(range(n - 1), min(d, n - 1))
        eds = [("del_atom", a), ("add_atom", (rng.choice(els), None, 0, 1))] + [newbond(t, n - 1) for t in tg]
        return eds, [n - 1] + tg
    raise ValueError(kind)


def session_queries(rng, state, touched):
    atoms, bonds = state
    n = len(atoms)
    pairs = [(b[0], b[1]) for b in bonds]
    starts = sorted({a for a in touched[:3] if 0 <= a < n} | set(rng.sample(range(n), min(2, n))))
    qs = full_queries(n, pairs, starts=starts, dirs="bonded", adjacency=False, rng=rng)
    for a in starts:
        qs += [("bonds", a), ("conn", a), ("nb", a), ("val", a)]
    return qs


def plan_session(rng, cls, nmax=8, rounds=None):
    ha, hb = random_host(rng, nmax)
    host0 = (ha, [b + (rng.choice(S_F) if b[2] == 99 else 1.0,) for b in hb])
    rounds = rounds or rng.randint(3, 5)
    pcls = [rng.choice([None, "connectivity"]) for _ in range(3)]
    targets = [("host" if rng.random() < 0.68 else rng.randrange(3)) for _ in range(rounds)]
    # host history first: the patterns are cut out of the host as it is at the start, half way and at the end, so
    # that an answer computed on an out-of-date graph is wrong in both directions (invalid and missed embeddings)
    hstates, hrounds = [host0], []
    for tg in targets:
        cur = hstates[-1]
        if tg != "host":
            hrounds.append(None)
            hstates.append(cur)
            continue
        kind = rng.choice(H_KINDS)
        pl = plan_edit(rng, cur, kind, cls != "ensemble", S_EL, S_HBT, nmax)
        if pl is None:
            kind = "el"
            pl = plan_edit(rng, cur, kind, False, S_EL, S_HBT, nmax)
        for e in pl[0]:
            cur = st_apply(cur, e)
        hrounds.append((kind, pl[0], pl[1]))
        hstates.append(cur)
    strip = lambda st: (st[0], [b[:5] for b in st[1]])
    pats = []
    for src in (hstates[0], hstates[-1], hstates[len(hstates) // 2]):
        (pa, pb), _style = random_pattern(rng, strip(src))
        pats.append((pa, [b + (1.0,) for b in pb]))
    pstate = list(pats)
    steps, kinds = [], []

    def battery(hstate, touched, r):
        steps.append(("query", session_queries(rng, hstate, touched)))
        for k in range(3):
            steps.append(("match", k, ["idx", "match"][(r + k) % 2]))

    battery(host0, [], 0)
    for r, tg in enumerate(targets):
        if tg == "host":
            kind, eds, touched = hrounds[r]
            steps.extend(("host", e) for e in eds)
            kinds.append(("host", kind))
        else:
            cur = pstate[tg]
            hel = sorted({a[0] for a in hstates[r + 1][0]} | {0})
            kind = rng.choice(P_KINDS)
            pl = plan_edit(rng, cur, kind, True, hel, M_PBT, 5)
            if pl is None:
                kind = "el"
                pl = plan_edit(rng, cur, kind, True, hel + [9], M_PBT, 5)
            for e in pl[0]:
                cur = st_apply(cur, e)
            pstate[tg] = cur
            steps.extend(("pat", tg, e) for e in pl[0])
            touched = []
            kinds.append(("pattern", kind))
        battery(hstates[r + 1], touched, r + 1)
    return {"kind": "session", "cls": cls, "pcls": pcls, "host": host0, "pats": pats, "steps": steps}, kinds


def fixed_sessions():
    """halogen exchange, a hydroxyl moved, ring closure / opening, a bond order raised, an edited pattern -- on each class"""
    C, O, CL, X = (6, None, 0, 1), (8, None, 0, 1), (17, None, 0, 1), (0, None, 0, 1)
    sb = lambda x, y, bt=1: (x, y, bt, 0, None, 1.0)
    host = ([CL, C, C, C, C, O], [sb(0, 1), sb(1, 2), sb(2, 3), sb(3, 4), sb(4, 5)])
    pats = [([C, CL], [sb(0, 1)]), ([C, C, O], [sb(0, 1), sb(1, 2)]), ([C, C, C, X], [sb(0, 1), sb(0, 2), sb(0, 3)])]
    qs = [q for a in (1, 2, 4, 5) for q in (("bfsd", a, None), ("bfs", a, None), ("conn", a), ("bonds", a), ("nb", a), ("val", a))]
    qs += [("bfsd", 2, 1), ("bfs", 2, 3)] + [("ring", i) for i in range(5)]
    bat = lambda r: [("query", list(qs))] + [("match", k, ["idx", "match"][(r + k) % 2]) for k in range(3)]
    steps = bat(0)
    steps += [("host", ("set_atom", 0, (35, None, 0, 1)))] + bat(1)                                  # Cl -> Br
    steps += [("host", ("del_bond", 4)), ("host", ("connect", 2, 5, 1, 0, None, 1.0))] + bat(2)       # OH moved C4 -> C2
    steps += [("host", ("connect", 1, 4, 1, 0, None, 1.0))] + bat(3)                                  # ring closure
    steps += [("host", ("del_bond", 2))] + bat(4)                                                     # ring opened at C2-C3
    steps += [("host", ("set_bond", 3, 2, 0, None, 1.0))] + bat(5)                                    # C2=O
    steps += [("pat", 1, ("set_atom", 2, (35, None, 0, 1)))] + bat(6)                                 # pattern C-C-O -> C-C-Br
    steps += [("pat", 0, ("set_bond", 0, 2, 0, None, 1.0))] + bat(7)                                  # pattern C-Cl -> C=Cl
    for cls in (None, "ensemble", "connectivity"):
        yield ({"kind": "session", "cls": cls, "pcls": [None, "connectivity", None], "host": host, "pats": pats, "steps": list(steps)},
               [("host", "el"), ("host", "move"), ("host", "connect"), ("host", "del_bond"), ("host", "bt"), ("pattern", "el"), ("pattern", "bt")])


# ---- running one session on the implementation, judging every answer on the object's own atoms/bonds at that moment
def run_session(ml, sess, upto=None):
    """-> (records, violations, aborted).  records[i] = observation of step i (None for an edit);
    violations = [(signature, text, index of the step)]"""
    cls, pcls = sess["cls"], sess["pcls"]
    H = build_state(ml, st_norm(sess["host"]), cls)
    Ps = [build_state(ml, st_norm(p), pc) for p, pc in zip(sess["pats"], pcls)]
    recs, viol = [], []
    n_edits, last = 0, "none"
    for i, step in enumerate(sess["steps"] if upto is None else sess["steps"][:upto]):
        step = tuple(step)
        if step[0] in ("host", "pat"):
            e = tuple(step[-1])
            e = e[:2] + (tuple(e[2]),) if e[0] == "set_atom" else (e[0], tuple(e[1])) if e[0] == "add_atom" else e
            try:
                if step[0] == "host":
                    real_apply(ml, H, cls, e)
                else:
                    real_apply(ml, Ps[step[1]], pcls[step[1]], e)
            except Exception as ex:  # noqa -- the editing calls are C05's subject; the session stops here
                return recs, viol, f"step {i} {step[0]} {e[0]}: {type(ex).__name__}: {ex}"
            n_edits += 1
            last = ("pattern " if step[0] == "pat" else "") + e[0]
            recs.append(None)
            continue
        now = readback(H)
        pre = "C15:" if n_edits == 0 else "C15:after-edit:"
        ctx_txt = (f"{cls or 'molecule'} object after {n_edits} in-place edit(s) (last: {last}), now atoms={[a[0] for a in now[0]]} "
                   f"bonds={[(b[0], b[1], b[2]) for b in now[1]]}")
        if step[0] == "query":
            obs = observe_on(H, [tuple(q) for q in step[1]])[0]
            n = len(now[0])
            pairs = [(b[0], b[1]) for b in now[1]]
            orders = [ref_order(b[2], b[5]) for b in now[1]]
            for q, r in obs:
                for sig, text in judge_query(n, pairs, orders, q, r):
                    fresh = observe_on(build_state(ml, now, cls), [q])[0][0][1]
                    viol.append((pre + sig[4:], f"{ctx_txt}: {text}" + (f"; a freshly built object with these atoms and bonds answers {fresh}"
                                                                     if n_edits else ""), i))
            recs.append(obs)
        else:
            _, k, how = step
            P = Ps[k]
            pnow = readback(P)
            try:
                if how == "match":
                    idx = {id(a): j for j, a in enumerate(H.atoms)}
                    obs = [tuple(idx[id(mp[a])] for a in P.atoms) for mp in H.match(P)]
                else:
                    obs = [tuple(int(j) for j in f) for f in H.get_substr_indices(P)]
            except Exception as ex:  # noqa
                obs = "exc:" + type(ex).__name__
            strip = lambda st: (st[0], [b[:5] for b in st[1]])
            for sig, text in judge_match(strip(now), strip(pnow), obs):
                viol.append((pre + sig[4:], f"{ctx_txt}; pattern {k} now atoms={[a[0] for a in pnow[0]]} bonds={[(b[0], b[1], b[2]) for b in pnow[1]]} "
                                            f"via {'match' if how == 'match' else 'get_substr_indices'}: {text}", i))
            recs.append(obs)
    return recs, viol, None


# ---- Coq terms
def matom_term(a):
    e, i, s, t = a
    return f"mk_matom {e} " + ("None" if i is None else f"(Some {i}%N)") + f" {s} {t}"


def mbond_term(b):
    x, y, bt, st, lab = b[:5]
    return f"mk_mbond {x} {y} {bt} {st} " + ("None" if lab is None else f"(Some {LAB_CODE[lab]}%N)")


def sstate_term(st):
    return ("(mk_sstate " + cq_list(matom_term(a) for a in st[0]) + " "
            + cq_list(f"({mbond_term(b)}, {cq_Q(Fraction(b[5]))})" for b in st[1]) + ")")


def edit_term(e):
    k = e[0]
    if k == "connect":
        return f"(EConnect ({mbond_term(e[1:6])}) {cq_Q(Fraction(e[6]))})"
    if k == "del_bond":
        return f"(EDelBond {e[1]})"
    if k == "add_atom":
        return f"(EAddAtom ({matom_term(e[1])}))"
    if k == "del_atom":
        return f"(EDelAtom {e[1]})"
    if k == "set_atom":
        return f"(ESetAtom {e[1]} ({matom_term(e[2])}))"
    if k == "set_bond":
        _, i, bt, st, lab, f = e
        return f"(ESetBond {i} {bt} {st} " + ("None" if lab is None else f"(Some {LAB_CODE[lab]}%N)") + f" {cq_Q(Fraction(f))})"
    raise ValueError(k)


def scase_term(sess, recs):
    terms = []
    for step, obs in zip(sess["steps"], recs):
        if step[0] == "host":
            terms.append("SHost " + edit_term(step[1]))
        elif step[0] == "pat":
            terms.append(f"SPat {step[1]} " + edit_term(step[2]))
        elif step[0] == "query":
            terms.append("SQuery " + cq_list(query_term(q, r) for q, r in obs))
        else:
            terms.append(f"SMatch {step[1]} " + (cq_list(cq_list(map(str, f)) for f in obs) if not isinstance(obs, str) else "[[99999]]"))
    return ("mk_scase " + sstate_term(sess["host"]) + " " + cq_list(sstate_term(p) for p in sess["pats"]) + " " + cq_list(terms))


def jsonable(sess, upto):
    d = dict(sess)
    d["steps"] = [list(s) for s in sess["steps"][:upto]]
    return json.loads(json.dumps(d))


def session_part(ctx, rep):
    import molli as ml
    rng = ctx.rng
    cases, metas, found = [], [], []
    n_rand = 600 if ctx.thorough else 36
    plans = [plan_session(rng, [None, "ensemble", "connectivity"][k % 3]) for k in range(n_rand)] + list(fixed_sessions())
    for sid, (sess, kinds) in enumerate(plans):
        recs, viol, aborted = run_session(ml, sess)
        if aborted:
            rep.count("session:aborted-by-an-editing-call")
            rep.extra.setdefault("session_aborted", []).append(aborted)
            sess = dict(sess, steps=sess["steps"][:len(recs)])
        cases.append(scase_term(sess, recs))
        metas.append(sess)
        rep.count("session:host-class:" + (sess["cls"] or "molecule"))
        for tg, kind in kinds:
            rep.count(f"session:edit:{tg}:{kind}")
            rep.count("session:round:" + ("no-edit" if kind == "none" else "count-preserving" if kind in PRESERVING else "count-changing"))
        n_edits, prev = 0, {}
        for i, (step, obs) in enumerate(zip(sess["steps"], recs)):
            if obs is None:
                n_edits += 1
                continue
            when = "fresh" if n_edits == 0 else "after-edit"
            if step[0] == "query":
                for q, r in obs:
                    rep.case(key=f"session:{sid}:{i}:{q}")
                    rep.count(f"session:query:{when}:{q[0]}" + ("" if len(q) < 3 or q[2] is None else ":dir"))
            else:
                rep.case(key=f"session:{sid}:{i}:match{step[1]}",
                         sample=(f"session {sess['cls'] or 'molecule'} step {i} after {n_edits} edits: pattern {step[1]} -> {obs}"
                                 if n_edits >= 3 and obs and not isinstance(obs, str) and sid % 7 == 0 else None))
                rep.count(f"session:match:{when}:" + ("idx" if step[2] == "idx" else "match"))
                if step[1] in prev:
                    rep.count("session:match:answer-" + ("changed" if sorted(prev[step[1]]) != sorted(obs) else "same") + "-since-last-asked")
                prev[step[1]] = obs if not isinstance(obs, str) else []
        for sig, text, i in viol:
            found.append(sig)
            rep.violate(sig, text, jsonable(sess, i + 1))
    shard = max(4, math.ceil(len(cases) / 16))
    bad = vlib.run_shards(ctx, rep, "session", SHEADER, "check_scase", cases, shard=shard, timeout=900, case_type="scase")
    return bad, metas, found


KNOWN_SIG = "C15:match:raises-NotImplementedError"
UNSUPPORTED_PATTERN_BT = [4, 5, 6, 10, 98, 99, 100, 101]


def known_part(ctx, rep):
    """Recorded finding: a pattern bond of type Quadruple/Quintuple/Sextuple/Dummy/Ligand/FractionalOrder/H_Donor/
    H_Acceptor makes _edge_match raise NotImplementedError, so a molecule does not even match itself.  Replayed on
    every run; the random pattern generator stays inside the supported vocabulary."""
    import molli as ml
    repro = False
    for bt in UNSUPPORTED_PATTERN_BT:
        g = ([(6, None, 0, 1), (6, None, 0, 1)], [(0, 1, bt, 0, None)])
        obs = observe_match(ml, g, g, "mol")
        rep.case(key=f"match:self:{bt}")
        rep.count("match:unsupported-pattern-bond")
        rp = {"kind": "match-self", "btype": bt}
        if isinstance(obs, str):
            sig = f"C15:match:raises-{obs[4:]}"
            repro = repro or sig == KNOWN_SIG
            rep.violate(sig, f"a C-C molecule with bond type {ml.BondType(bt).name} matched against itself raises "
                             f"{obs[4:]} instead of returning its embeddings", rp)
        elif (0, 1) not in obs:
            rep.violate("C15:match:missed", f"a C-C molecule with bond type {ml.BondType(bt).name} does not match itself: {obs}", rp)
    if repro:
        # optional Coq obligation over the table regenerated on this run: some cell still raises NotImplementedError
        d = ctx.sub("known")
        pth = os.path.join(d, "C15_known.v")
        open(pth, "w").write("From Coq Require Import List NArith.\nFrom Molli Require Import Gen.MatchPreds.\n"
                             "Example known_C15_unsupported_btype : existsb (N.eqb 2) edge_obs = true.\n"
                             "Proof. vm_compute. reflexivity. Qed.\n")
        rc, out = vlib.coqc(pth, 300)
        if rc == 0:
            rep.oblig("known_C15_unsupported_btype", True)
    return [KNOWN_SIG] if repro else []


def table_search(ctx, rep, tabs):
    """A table theorem no longer holds: name the grid cells where code and specification differ and try to turn
    them into a concrete matching query that violates the property."""
    import molli as ml
    found = False
    atoms = list(itertools.product(EL_AXIS, ISO_AXIS, AST_AXIS, ATY_AXIS))
    k = 0
    for h in atoms:
        for p in atoms:
            if tabs["node"][k] is None or tabs["node"][k] != ref_node(h, p):
                host = ([h, (6, None, 0, 1)], [(0, 1, 1, 0, None)])
                pat = ([p], [])
                obs = observe_match(ml, host, pat, "mol")
                for sig, text in judge_match(host, pat, obs):
                    found = True
                    rep.violate(sig, f"host={host} pattern={pat}: {text}", {"kind": "match", "host": host, "pattern": pat, "how": "mol"})
                if found:
                    break
            k += 1
        if found:
            break
    bonds = list(itertools.product(tabs["bts"], BST_AXIS, LAB_AXIS))
    k = 0
    hit = False
    for h in bonds:
        for p in bonds:
            want = ref_edge(h, p)
            got = tabs["edge"][k]
            k += 1
            if want is None or got == (1 if want else 0):
                continue
            host = ([(6, None, 0, 1), (7, None, 0, 1)], [(0, 1) + h])
            pat = ([(6, None, 0, 1), (7, None, 0, 1)], [(0, 1) + p])
            obs = observe_match(ml, host, pat, "mol")
            for sig, text in judge_match(host, pat, obs):
                hit = True
                rep.violate(sig, f"host={host} pattern={pat}: {text}", {"kind": "match", "host": host, "pattern": pat, "how": "mol"})
            if hit:
                break
        if hit:
            break
    for b, f, o in tabs["orders"]:
        want = {0: 0, 1: 1, 2: 2, 3: 3, 4: 4, 5: 5, 6: 6, 20: Fraction(3, 2), 99: f, 101: 0, 10: 0, 98: 0, 11: 0}.get(b, 1)
        if o != want:
            # bonded_valence then disagrees with the documented bond orders; the bond list itself is still summed
            # correctly, so this is reported through the table obligation only
            rep.extra.setdefault("bond_order_changed", []).append([b, float(f), float(o)])
    return found or hit


def run(ctx, rep):
    rep.rule = ("exhaustive: every labelled simple graph on <= 5 (thorough: 6) atoms x every start x every direction x "
                "every bond x every atom, in canonical and one shuffled/re-oriented bond order; random graphs <= 40 atoms "
                "with random elements/bond types, as Molecule, ConformerEnsemble and Connectivity; a stream with parallel "
                "bonds and self loops (model fidelity only); random typed host/pattern pairs for matching (induced, "
                "bond-dropped, disconnected, foreign, constrained patterns) through Molecule.get_substr_indices, "
                "ConformerEnsemble.get_substr_indices and Connectivity.match; SESSIONS on one live host object (each class) "
                "and three live pattern objects: every query asked, then host or pattern edited in place (count-preserving: "
                "element/isotope/stereo, bond type/stereo/label/f_order, del_bond+connect, del_atom+add+connect; "
                "count-changing: connect, del_bond, del_atom, add atom), then every query asked again on the same objects, "
                "3-5 rounds, judged against the atoms/bonds read back from the object at that moment.  One evaluation = one query answered by the "
                "implementation and compared with the model inside Coq; non-trivial = the graph has a bond / the pattern "
                "has an atom; distinct by (graph, query) / (host, pattern)")
    rep.trusted += ["harness/c15.py: drives molli.Connectivity, canonicalises atoms/bonds to list positions, emits Coq case terms",
                    "T-emitter in harness/c15.py: CPython evaluating Connectivity._node_match/_edge_match/Bond.order on the whole grid",
                    "CPython 3.12 (set/deque/generator semantics) executing molli/chem/bond.py",
                    "networkx (to_nxgraph storage + VF2 GraphMatcher.subgraph_isomorphisms_iter) is external: specified by "
                    "the proved reference enumerator and compared differentially, not verified (matching is PARTIAL)"]
    rep.assumptions += ["_node_match/_edge_match only test attribute values for equality with each other / with the "
                        "Unknown/None constants (and order bond types): a grid holding the constants and >= 2 other "
                        "values per attribute (all 15 BondType values) is behaviourally complete",
                        "pattern bond types outside {Unknown, Single, Double, Triple, Aromatic, Amide, NotConnected} make "
                        "_edge_match raise NotImplementedError: outside the domain of the matching statement",
                        "molecular graph = simple graph for ring perception and matching (networkx.Graph collapses parallel bonds)"]
    tabs = gen_tables(ctx)
    ok, out, where = vlib.build_props(ctx, rep, "C15")
    rep.count("table:node_match_rows", len(tabs["node"]))
    rep.count("table:edge_match_rows", len(tabs["edge"]))
    rep.count("table:bond_order_rows", len(tabs["orders"]))
    bad_g, metas_g, found_g = graph_part(ctx, rep)
    bad_m, metas_m, found_m = match_part(ctx, rep)
    bad_s, metas_s, found_s = session_part(ctx, rep)
    rep.exhaustive = True
    any_found = bool(found_g or found_m or found_s)
    if bad_g is None or bad_m is None or bad_s is None:
        vlib.broken_obligation(rep, "corr_shards", "a correspondence shard did not compile: "
                               + json.dumps(rep.extra.get("shard_errors", ""))[-1500:], any_found)
    failed = lambda pre: any(n.startswith(pre) and not ok_ for n, ok_ in rep.obligations)
    if (bad_g or failed("corr_graph")) and bad_g is not None:
        bad_g = bad_g or []
        rep.extra["graph_mismatch_cases"] = [dict(zip(("tag", "n", "bonds", "btypes", "cls"), metas_g[i][:5])) for i in bad_g[:10]]
        if not found_g:
            any_found = widened_search(ctx, rep) or any_found
        vlib.broken_obligation(rep, "corr_graph", f"model and implementation disagree on {len(bad_g)} graph case(s), first: "
                               + json.dumps(rep.extra["graph_mismatch_cases"][:2]), any_found)
    if (bad_m or failed("corr_match")) and bad_m is not None:
        bad_m = bad_m or []
        rep.extra["match_mismatch_cases"] = [dict(zip(("host", "pattern", "style", "how"), metas_m[i])) for i in bad_m[:10]]
        vlib.broken_obligation(rep, "corr_match", f"reference enumerator and molli disagree on {len(bad_m)} matching case(s), first: "
                               + json.dumps(rep.extra["match_mismatch_cases"][:1]), any_found)
    if (bad_s or failed("corr_session")) and bad_s is not None:
        bad_s = bad_s or []
        rep.extra["session_mismatch_cases"] = [jsonable(metas_s[i], None) for i in bad_s[:3]]
        vlib.broken_obligation(rep, "corr_session", f"edit/query model and molli disagree on {len(bad_s)} session(s), first: "
                               + json.dumps(rep.extra["session_mismatch_cases"][:1])[:1500], any_found)
    if not ok:
        if not any_found:
            any_found = table_search(ctx, rep, tabs)
        vlib.broken_obligation(rep, "C15_props", f"{where}\n{out[-1500:]}", any_found)
    return known_part(ctx, rep)


def widened_search(ctx, rep):
    """model and implementation disagree but no sampled query violates the property: look wider."""
    import molli as ml
    rng = ctx.rng
    hit = False
    gens = itertools.chain(((n, b, None, None) for n, b in small_graphs(6)),
                           (random_graph(rng, 40) for _ in range(400)))
    for n, bonds, btypes, elements in gens:
        obs, orders = observe_graph(ml, n, bonds, btypes=btypes, queries=full_queries(n, bonds, dirs="bonded", rng=rng), elements=elements)
        for q, r in obs:
            for sig, text in judge_query(n, bonds, orders, q, r):
                hit = True
                rep.violate(sig, f"atoms={n} bonds={bonds}: {text}",
                            {"kind": "graph", "n": n, "bonds": [list(b) for b in bonds], "btypes": btypes, "cls": None, "query": list(q)})
        if hit:
            break
    return hit


def replay(ctx, data):
    import molli as ml
    out = []
    if data.get("kind") == "graph":
        n, bonds = data["n"], [tuple(b) for b in data["bonds"]]
        bt = [tuple(x) for x in data["btypes"]] if data.get("btypes") else None
        q = tuple(data["query"])
        obs, orders = observe_graph(ml, n, bonds, btypes=bt, queries=[q], cls=data.get("cls"))
        for sig, text in judge_query(n, bonds, orders, q, obs[0][1]):
            out.append(vlib.Violation(sig, f"atoms={n} bonds={bonds}: {text}"))
    elif data.get("kind") == "session":
        recs, viol, aborted = run_session(ml, data)
        for sig, text, i in viol:
            out.append(vlib.Violation(sig, f"step {i}: {text}"))
    elif data.get("kind") == "match-self":
        bt = data["btype"]
        g = ([(6, None, 0, 1), (6, None, 0, 1)], [(0, 1, bt, 0, None)])
        obs = observe_match(ml, g, g, "mol")
        if isinstance(obs, str):
            out.append(vlib.Violation(f"C15:match:raises-{obs[4:]}", f"C-C with bond type {bt} matched against itself raises {obs[4:]}"))
        elif (0, 1) not in obs:
            out.append(vlib.Violation("C15:match:missed", f"C-C with bond type {bt} does not match itself: {obs}"))
    elif data.get("kind") == "match":
        tup = lambda g: ([tuple(a) for a in g[0]], [tuple(b) for b in g[1]])
        host, pat = tup(data["host"]), tup(data["pattern"])
        obs = observe_match(ml, host, pat, data.get("how", "mol"))
        for sig, text in judge_match(host, pat, obs):
            out.append(vlib.Violation(sig, f"host={host} pattern={pat}: {text}"))
    return out
