"""C03 -- a crash while appending never damages committed records or shows a torn one.
Tie H: for sessions of 1..4 puts the byte stream written by the real UKVFile is cut at EVERY byte offset;
each crash image is reopened by the real implementation (r; then a + put; then r again -- through three handle
objects or through one long-lived object reopened) and by Model/UKV.v
inside Coq.  Random histories with Crash ops add second crashes and long-lived handles."""
import os, struct
import vlib, ukv_common as U


def sessions(ctx, n):
    rng = ctx.rng
    out = []
    keys = [b"", b"a", b"b", b"ab", bytes([0, 255, 10]), b"k" * 255, b"c", b"dd"]
    for s in range(n):
        nc = rng.randint(0, 2)
        npt = rng.randint(1, 4)
        ks = rng.sample(keys, nc + npt)
        vl = lambda: rng.choice([0, 1, 2, 5, 17, 40] + ([300] if rng.random() < 0.2 else []) +
                                ([70000] if ctx.thorough and rng.random() < 0.05 else []))
        sd = lambda: rng.randrange(256) if rng.random() < 0.7 else -1
        committed = [(k, U.Val(sd(), vl())) for k in ks[:nc]]
        puts = [(k, U.Val(sd(), vl())) for k in ks[nc:]]
        out.append((committed, puts))
    # large blocks (>= 64 KiB) as the LAST put of a session, in every tier: a writer that treats large values differently
    # (preallocation, chunked writes) shows only here.  Last, so that few images carry the complete large record.
    for big in ([(7, 70000), (-1, 66000)] if not ctx.thorough else [(7, 70000), (-1, 66000), (11, 65536), (-1, 131072)]):
        out.append(([(b"a", U.Val(3, 5))], [(b"b", U.Val(9, 17)), (b"big", U.Val(*big))][rng.randrange(2):]))
    return out


class _RecStream:
    """Proxy for the file object UKVFile works on: logs every effect on the file in program order --
    ("w", position, bytes) and ("t", new_length) -- and delegates.  The buffered stream below hands these effects to
    the OS in the same order (a truncate flushes first), so the crash images of the session are: the file after any
    number of complete effects, plus any proper prefix of the bytes of the next write."""
    def __init__(self, s, log):
        object.__setattr__(self, "_s", s); object.__setattr__(self, "_log", log)

    def write(self, b):
        self._log.append(("w", self._s.tell(), bytes(b)))
        return self._s.write(b)

    def truncate(self, n=None):
        n = self._s.tell() if n is None else n
        self._log.append(("t", n))
        return self._s.truncate(n)

    def writelines(self, ls):
        for l in ls:
            self.write(l)

    def __getattr__(self, a):
        return getattr(self._s, a)

    def __enter__(self):
        return self

    def __exit__(self, *a):
        return self._s.__exit__(*a)


class record_effects(U.open_hook):
    """While active, every binary file object the library opens on `path` is wrapped in _RecStream (whether it is opened through
    pathlib.Path.open, io.open or the builtin open)."""
    def __init__(self, log, path):
        super().__init__(path, lambda f: _RecStream(f, log))


def apply_effect(img, e, j=None):
    """file bytes after effect e (for a write: only its first j bytes when j is given)"""
    if e[0] == "t":
        return img[:e[1]] + bytes(max(0, e[1] - len(img)))
    pos, b = e[1], e[2] if j is None else e[2][:j]
    if not b:
        return img
    img = img + bytes(max(0, pos - len(img)))
    return img[:pos] + b + img[pos + len(b):]


def crash_images(base_img, log, dense):
    """[(label, bytes)]: every crash image of the effect log (dense) or a selection (every byte near the start and the end
    of each write, strided inside long writes)."""
    out, img = [("start", base_img)], base_img
    for i, e in enumerate(log):
        if e[0] == "w":
            L = len(e[2])
            js = range(1, L) if dense or L <= 24 else sorted(set(list(range(1, 9)) + list(range(L - 3, L)) + list(range(9, L, 997 if L < 20000 else 9973))))
            for j in js:
                out.append((f"e{i}+{j}", apply_effect(img, e, j)))
        img = apply_effect(img, e)
        out.append((f"e{i}", img))
    return out


def append_only(base_len, log):
    """the structural fact that makes `committed ++ prefix of the appended bytes` THE set of crash images (Props/C03.v:
    crash_image): every effect is a write at the current end of the file"""
    end = base_len
    for e in log:
        if e[0] != "w" or e[1] != end:
            return False, e
        end += len(e[2])
    return True, None


def judge_image(tmp, img, committed, puts):
    """Reopen a crash image read-only with the real implementation and judge what it shows against what the session
    MEANT to write (the images of drive()'s own oracle are judged against what the image itself contains)."""
    from molli.storage.ukvfile import UKVFile
    open(tmp, "wb").write(img)
    out = []
    try:
        h = UKVFile(tmp, "r")
    except Exception as e:
        return [(f"C03:open:raised:{type(e).__name__}", f"reopening the crash image raised {type(e).__name__}: {str(e)[:80]}")]
    try:
        seen = {}
        for k in list(h.keys()):
            try:
                seen[k] = h.get(k)
            except Exception as e:
                out.append(("C03:get:listed-key-unreadable", f"listed key {k[:8]!r} raised {type(e).__name__}"))
    finally:
        h.close()
    for k, v in committed:
        if seen.get(k) != v.b:
            out.append(("C03:committed-record-damaged", f"record {k[:8]!r}, complete before the session, is missing or altered"))
    want = {k: v.b for k, v in puts}
    present = []
    for i, (k, v) in enumerate(puts):
        if k in seen:
            present.append(i)
            if seen[k] != v.b:
                kind = "zero-padded" if len(seen[k]) == len(v.b) and seen[k].rstrip(b"\0") != v.b.rstrip(b"\0") or seen[k].endswith(b"\0") else "truncated/altered"
                out.append(("C03:torn-record-visible", f"record {k[:8]!r} of the interrupted session is shown with a {kind} value "
                            f"({len(seen[k])} bytes shown, {len(v.b)} bytes were being written)"))
    if present != list(range(len(present))):
        out.append(("C03:session-records-not-a-prefix", f"records {present} of the interrupted session are shown but an earlier one is not"))
    ck = {k for k, _ in committed}
    for k in seen:
        if k not in want and k not in ck:
            out.append(("C03:bogus-key", f"the reopened image lists {k[:12]!r}, which was never put (a partial key or leftover bytes parsed as a block)"))
    return out


def probe_ops(committed, puts, reuse=False):
    """r; then a + put; then r again -- through three handle objects, or (reuse) through ONE long-lived handle object
    that is reopened (a Collection backend keeps its UKVFile: reading() then writing() after a crash)."""
    h1, h2 = (0, 0) if reuse else (1, 2)
    ops = [("open", 0, "r"), ("keys", 0)]
    for k, _ in committed + puts:
        ops.append(("get", 0, k))
    ops += [("close", 0), ("open", h1, "a"), ("keys", h1), ("put", h1, b"NEW", U.Val(5, 3))]
    if puts:
        ops.append(("put", h1, puts[-1][0], U.Val(77, 2)))      # re-put of the possibly torn key
    ops += [("close", h1), ("open", h2, "r"), ("keys", h2)]
    for k, _ in committed + puts + [(b"NEW", None)]:
        ops.append(("get", h2, k))
    ops.append(("close", h2))
    if reuse:                                                   # and a fresh object sees the same
        ops += [("open", 1, "r"), ("keys", 1), ("get", 1, b"NEW"), ("close", 1)]
    return ops


def run(ctx, rep):
    from molli.storage.ukvfile import UKVFile
    rep.rule = ("crash images: every effect the session has on its file (write at a position / truncate) is logged through a proxy "
                "around the file object; images = the file after any number of complete effects + any proper prefix of the next write "
                "(for the unchanged code, which only appends: committed records followed by every byte-offset prefix of the write stream) "
                "(1..4 puts, keys 0..255 B, values 0..300 B and 70 kB), each reopened r / a+put / r by the real "
                "UKVFile and by the model; plus random histories with Crash ops; non-trivial = the cut falls strictly "
                "inside a block; distinct by (session, offset)")
    rep.trusted += ["harness/ukv_common.py, harness/c03.py (crash images are produced by truncating the file the real "
                    "session wrote: the property's crash model = in-order prefix of the byte stream)"]
    rep.assumptions += ["the OS keeps an in-order prefix of the bytes written by the dying process (no reordering below the page cache)"]
    ok, out, where = vlib.build_props(ctx, rep, "C03")
    tstatus, tok, tout, twhere = U.code_tie(ctx, rep)
    work = ctx.sub("ukv")
    path = os.path.join(work, "t.ukv")
    cases, meta, nonappend = [], [], []
    for si, (committed, puts) in enumerate(sessions(ctx, 400 if ctx.thorough else 30)):
        if os.path.exists(path):
            os.remove(path)
        f = UKVFile(path, "x", h2=b"cmt" if si % 2 else b"")
        for k, v in committed:
            f.put(k, v.b)
        f.close()
        base = os.path.getsize(path)
        base_img = open(path, "rb").read()
        log = []
        with record_effects(log, path):
            f = UKVFile(path, "a")
            for k, v in puts:
                f.put(k, v.b)
            f.close()
        data = open(path, "rb").read()
        ao, bad_e = append_only(base, log)
        rep.oblig(f"session{si}:effect-log-append-only", ao)
        fin = base_img
        for e in log:
            fin = apply_effect(fin, e)
        if not log or fin != data:
            raise RuntimeError("harness: the effect log does not reproduce the file the session wrote "
                               "(the library no longer opens its file through io.open / pathlib / the builtin open?)")
        if not ao:
            nonappend.append((si, bad_e[:2]))
        total = sum(len(e[2]) for e in log if e[0] == "w")
        images = crash_images(base_img, log, total <= 400)
        ends, pos = [], base
        for k, v in puts:
            pos += 5 + len(k) + len(v.b); ends.append(pos)
        intended = {k: v.b for k, v in puts}
        for ii, (label, img) in enumerate(images):
            n = len(img)
            reuse = (ii + si) % 2 == 1
            # what a reader of the crash image sees, judged against what the session meant to write
            for sig, text in judge_image(path + ".probe", img, committed, puts):
                rep.violate(sig, f"session {si}, crash after effect {label} (file of {n} bytes): {text}",
                            {"kind": "image", "committed": [[k.hex(), v.seed, v.n] for k, v in committed],
                             "puts": [[k.hex(), v.seed, v.n] for k, v in puts], "label": label, "h2": "cmt" if si % 2 else "", "reuse": reuse})
            d = U.drive(path + ".img", probe_ops(committed, puts, reuse), nh=3, init_bytes=img)
            cases.append(U.case_coq(d, 3)); meta.append((si, label))
            rep.count("probe:" + ("one-handle-reopened" if reuse else "three-handles"))
            inside = img != base_img and not (ao and n in ends)
            rep.case(key=f"s{si}@{label}" if inside else None,
                     sample={"session": [[k.hex()[:16], v.n] for k, v in puts], "image": label, "results": d["results"][:6]} if (si, ii) in ((0, 3), (1, 7)) else None)
            rep.count("cut:" + ("inside-block" if inside else "boundary"))
            for sig, text in d["oracle"]:
                rep.violate(sig.replace("C02:", "C03:"), f"session {si}, crash after effect {label}: {text}",
                            {"kind": "image", "committed": [[k.hex(), v.seed, v.n] for k, v in committed],
                             "puts": [[k.hex(), v.seed, v.n] for k, v in puts], "label": label, "h2": "cmt" if si % 2 else "", "reuse": reuse})
        # ---- second crash: a recovery session (reopen for append + one SHORT put) on a torn image dies as well.
        # Every crash image of the recovery session's own effect log (it may begin with the cut of the torn tail) must
        # show the committed records, the complete records of the first session, and the recovery put all-or-nothing --
        # never bytes of the old torn tail parsed as a block.
        torn = [(lab, im) for lab, im in images if im != base_img and not (ao and len(im) in ends) and len(im) - base < 3000]
        torn.sort(key=lambda x: -len(x[1]))
        pick = torn[:1] + (ctx.rng.sample(torn[1:], min(len(torn) - 1, 3 if ctx.thorough else 1)) if len(torn) > 1 else [])
        for label, img in pick:
            open(path, "wb").write(img)
            rlog = []
            rput = (b"N", U.Val(41, 1))
            try:
                with record_effects(rlog, path):
                    f = UKVFile(path, "a")
                    f.put(rput[0], rput[1].b)
                    f.close()
            except Exception as e:
                rep.violate(f"C03:recovery:raised:{type(e).__name__}", f"session {si}, image {label}: reopening for append and putting a fresh key raised {type(e).__name__}: {e}"[:300],
                            {"kind": "image", "committed": [[k.hex(), v.seed, v.n] for k, v in committed], "puts": [[k.hex(), v.seed, v.n] for k, v in puts], "label": label, "h2": "cmt" if si % 2 else "", "reuse": False})
                continue
            done = [(k, v) for k, v in puts if any(kk == k for kk, _, _, _ in U.parse_file(img, base - sum(5 + len(k2) + len(v2.b) for k2, v2 in committed))[0])]
            for lab2, img2 in crash_images(img, rlog, True):
                for sig, text in judge_image(path + ".probe", img2, committed + done, [rput]):
                    rep.violate(sig + ":second-crash", f"session {si}: first crash after effect {label}, recovery session (open a, put b'N') dies after its effect {lab2} "
                                f"(file of {len(img2)} bytes): {text}",
                                {"kind": "image2", "committed": [[k.hex(), v.seed, v.n] for k, v in committed], "puts": [[k.hex(), v.seed, v.n] for k, v in puts],
                                 "label": label, "label2": lab2, "h2": "cmt" if si % 2 else ""})
                d = U.drive(path + ".img", probe_ops(committed + done, [rput], False), nh=3, init_bytes=img2)
                cases.append(U.case_coq(d, 3)); meta.append((si, label, lab2))
                rep.count("second-crash-image")
                rep.case(key=f"s{si}@{label}@{lab2}")
                for sig, text in d["oracle"]:
                    rep.violate(sig.replace("C02:", "C03:") + ":second-crash", f"session {si}, {label} then {lab2}: {text}",
                                {"kind": "image2", "committed": [[k.hex(), v.seed, v.n] for k, v in committed], "puts": [[k.hex(), v.seed, v.n] for k, v in puts],
                                 "label": label, "label2": lab2, "h2": "cmt" if si % 2 else ""})
    # random histories with crashes (second crash, handles reopened after a crash)
    import c02
    for r in range(2000 if ctx.thorough else 250):
        h = U.gen_history(ctx.rng, nh=3, maxlen=30, crash=True)
        d = U.drive(path, h, nh=3)
        cases.append(U.case_coq(d, 3)); meta.append(("hist", r))
        rep.case(key="; ".join(d["ops"]) if any(o.startswith("Crash") for o in d["ops"]) else None)
        for sig, text in d["oracle"]:
            rep.violate(sig.replace("C02:", "C03:"), text, {"kind": "history", "ops": [c02._ser(o) for o in h]})
    # chains of crashing sessions (the family C03_crash_chain / C03_run_chain quantify over): 3..6 writing sessions in a row, each
    # reopening for append (which has to cut back what the previous death left), putting 1..2 records and dying at a random point of
    # its appended stream; then a recovering writer re-puts a key a death tore, and an independent reader lists and reads everything
    for r in range(400 if ctx.thorough else 60):
        h = gen_chain(ctx.rng)
        d = U.drive(path, h, nh=3)
        cases.append(U.case_coq(d, 3)); meta.append(("chain", r))
        rep.case(key="chain:" + "; ".join(d["ops"]))
        rep.count("crash-chain")
        for sig, text in d["oracle"]:
            rep.violate(sig.replace("C02:", "C03:") + ":chain", text, {"kind": "history", "ops": [c02._ser(o) for o in h]})
    bad = vlib.run_shards(ctx, rep, "c03", U.HEADER, "check_case", cases, shard=300, case_type="case")
    found = bool(rep.violations)
    if nonappend:
        # the sessions no longer only append: the crash-image family the theorems quantify over (committed ++ prefix of the
        # appended bytes) is not the family the code produces; the images of the real effect log were judged above
        vlib.broken_obligation(rep, "effect-log-append-only",
                               f"a writing session performed an effect that is not a write at the end of the file: {nonappend[:3]} "
                               "(C03_crash_reopen quantifies over prefixes of an append-only stream)", found)
    if bad is None:
        vlib.broken_obligation(rep, "corr_c03", "a correspondence shard did not compile: " + str(rep.extra.get("shard_errors"))[-1500:], found)
    elif bad:
        rep.extra["mismatching_cases"] = len(bad)
        if not found:
            rep.violate("broken:corr_c03", f"model and implementation disagree on {len(bad)} crash cases (first: {meta[bad[0]]}) "
                        "but the oracle finds no property violation on them", {"obligation": "corr_c03", "first": list(meta[bad[0]])}, no_input=True)
    if not ok:
        vlib.broken_obligation(rep, "Props/C03.v", f"{where}\n{out[-1500:]}", found)
    if not tok:
        vlib.broken_obligation(rep, "Props/C02code.v", "the translation of molli/storage/ukvfile.py no longer refines Model/UKV.v "
                               f"(map_blocks / put are what C03_crash_reopen is about): {twhere}\n{tout[-1500:]}", bool(rep.violations))


def gen_chain(rng):
    keys = [k for k in U.KEYS if len(k) < 256]
    rng.shuffle(keys)
    ops, used = [], []
    nsess = rng.randint(3, 6)
    for s_ in range(nsess):
        i = rng.randrange(3)
        ops.append(("open", i, "a"))
        for _ in range(rng.randint(1, 2)):
            # mostly a key no session used; sometimes one a death may have torn (accepted then) or one that survived (KeyError)
            k = keys[len(used) % len(keys)] if rng.random() < 0.8 or not used else rng.choice(used)
            used.append(k)
            ops.append(("put", i, k, U.Val(rng.randrange(256) if rng.random() < 0.8 else -1, rng.choice(U.VLENS))))
        ops.append(("crash", rng.choice([0.0, 1.0, rng.random(), rng.random(), rng.random()])))
    w = rng.randrange(3)
    ops.append(("open", w, "a"))
    ops.append(("keys", w))
    for k in used[-2:]:
        ops.append(("put", w, k, U.Val(rng.randrange(256), 3)))
    for k in dict.fromkeys(used):
        ops.append(("get", w, k))
    ops.append(("close", w))
    rd = (w + 1) % 3
    ops.append(("open", rd, "r")); ops.append(("keys", rd))
    for k in dict.fromkeys(used):
        ops.append(("get", rd, k))
    ops.append(("close", rd))
    return ops


def replay(ctx, data):
    from molli.storage.ukvfile import UKVFile
    import c02
    path = os.path.join(ctx.sub("ukv"), "t.ukv")
    if data.get("kind") == "history":
        d = U.drive(path, [c02._deser(o) for o in data["ops"]], nh=3)
    else:
        committed = [(bytes.fromhex(k), U.Val(s, n)) for k, s, n in data["committed"]]
        puts = [(bytes.fromhex(k), U.Val(s, n)) for k, s, n in data["puts"]]
        f = UKVFile(path, "x", h2=data["h2"].encode())
        for k, v in committed:
            f.put(k, v.b)
        f.close(); base = os.path.getsize(path)
        f = UKVFile(path, "a")
        for k, v in puts:
            f.put(k, v.b)
        f.close()
        if "label" in data:
            os.remove(path)
            f = UKVFile(path, "x", h2=data["h2"].encode())
            for k, v in committed:
                f.put(k, v.b)
            f.close()
            base_img = open(path, "rb").read()
            log = []
            with record_effects(log, path):
                f = UKVFile(path, "a")
                for k, v in puts:
                    f.put(k, v.b)
                f.close()
            img = dict(crash_images(base_img, log, sum(len(e[2]) for e in log if e[0] == "w") <= 400)).get(data["label"])
            if img is None:
                return []
            extra = judge_image(path + ".probe", img, committed, puts)
            if data.get("kind") == "image2":
                open(path, "wb").write(img)
                rlog, rput = [], (b"N", U.Val(41, 1))
                with record_effects(rlog, path):
                    f = UKVFile(path, "a"); f.put(rput[0], rput[1].b); f.close()
                bof = len(base_img) - sum(5 + len(k) + len(v.b) for k, v in committed)
                done = [(k, v) for k, v in puts if any(kk == k for kk, _, _, _ in U.parse_file(img, bof)[0])]
                img = dict(crash_images(img, rlog, True)).get(data["label2"])
                if img is None:      # the recovery session no longer has such an effect: the recorded death point does not exist
                    return []
                extra = [(s_ + ":second-crash", t) for s_, t in judge_image(path + ".probe", img, committed + done, [rput])]
                committed, puts = committed + done, [rput]
        else:
            img = open(path, "rb").read()[:base + data["offset"]]
            extra = []
        d = U.drive(path + ".img", probe_ops(committed, puts, data.get("reuse", False)), nh=3, init_bytes=img)
        print("ops:", d["ops"]); print("results:", d["results"])
        return [vlib.Violation(s, t) for s, t in extra] + [vlib.Violation(s.replace("C02:", "C03:"), t) for s, t in d["oracle"]]
    print("ops:", d["ops"]); print("results:", d["results"])
    return [vlib.Violation(s.replace("C02:", "C03:"), t) for s, t in d["oracle"]]
