"""C03 -- a crash while appending never damages committed records or shows a torn one.
Tie H: for sessions of 1..4 puts the byte stream written by the real UKVFile is cut at EVERY byte offset;
each crash image is reopened by the real implementation (r; then a + put; then r again -- through three handle
objects or through one long-lived object reopened) and by Model/UKV.v
inside Coq.  Random histories with Crash ops add second crashes and long-lived handles."""
import os, struct
import vlib, ukv_common as U


def sessions(ctx, n):
    rng = ctx.rng
    out = []
    keys = [b"", b"a", b"b", b"ab", bytes([0, 255, 10]), b"k" * 255, b"c", b"dd"]
    for s in range(n):
        nc = rng.randint(0, 2)
        npt = rng.randint(1, 4)
        ks = rng.sample(keys, nc + npt)
        vl = lambda: rng.choice([0, 1, 2, 5, 17, 40] + ([300] if rng.random() < 0.2 else []) +
                                ([70000] if ctx.thorough and rng.random() < 0.05 else []))
        sd = lambda: rng.randrange(256) if rng.random() < 0.7 else -1
        committed = [(k, U.Val(sd(), vl())) for k in ks[:nc]]
        puts = [(k, U.Val(sd(), vl())) for k in ks[nc:]]
        out.append((committed, puts))
    return out


def probe_ops(committed, puts, reuse=False):
    """r; then a + put; then r again -- through three handle objects, or (reuse) through ONE long-lived handle object
    that is reopened (a Collection backend keeps its UKVFile: reading() then writing() after a crash)."""
    h1, h2 = (0, 0) if reuse else (1, 2)
    ops = [("open", 0, "r"), ("keys", 0)]
    for k, _ in committed + puts:
        ops.append(("get", 0, k))
    ops += [("close", 0), ("open", h1, "a"), ("keys", h1), ("put", h1, b"NEW", U.Val(5, 3))]
    if puts:
        ops.append(("put", h1, puts[-1][0], U.Val(77, 2)))      # re-put of the possibly torn key
    ops += [("close", h1), ("open", h2, "r"), ("keys", h2)]
    for k, _ in committed + puts + [(b"NEW", None)]:
        ops.append(("get", h2, k))
    ops.append(("close", h2))
    if reuse:                                                   # and a fresh object sees the same
        ops += [("open", 1, "r"), ("keys", 1), ("get", 1, b"NEW"), ("close", 1)]
    return ops


def run(ctx, rep):
    from molli.storage.ukvfile import UKVFile
    rep.rule = ("crash images: committed records followed by every byte-offset prefix of a session's write stream "
                "(1..4 puts, keys 0..255 B, values 0..300 B, 70 kB in thorough), each reopened r / a+put / r by the real "
                "UKVFile and by the model; plus random histories with Crash ops; non-trivial = the cut falls strictly "
                "inside a block; distinct by (session, offset)")
    rep.trusted += ["harness/ukv_common.py, harness/c03.py (crash images are produced by truncating the file the real "
                    "session wrote: the property's crash model = in-order prefix of the byte stream)"]
    rep.assumptions += ["the OS keeps an in-order prefix of the bytes written by the dying process (no reordering below the page cache)"]
    ok, out, where = vlib.build_props(ctx, rep, "C03")
    work = ctx.sub("ukv")
    path = os.path.join(work, "t.ukv")
    cases, meta = [], []
    for si, (committed, puts) in enumerate(sessions(ctx, 400 if ctx.thorough else 30)):
        if os.path.exists(path):
            os.remove(path)
        f = UKVFile(path, "x", h2=b"cmt" if si % 2 else b"")
        for k, v in committed:
            f.put(k, v.b)
        f.close()
        base = os.path.getsize(path)
        f = UKVFile(path, "a")
        for k, v in puts:
            f.put(k, v.b)
        f.close()
        data = open(path, "rb").read()
        offs = list(range(base, len(data) + 1))
        if len(offs) > 400:       # large values: every offset in headers/keys, strided inside values, boundaries +-2
            keep, pos = set(), base
            for k, v in puts:
                keep.update(range(pos, pos + 5 + len(k) + 3)); pos += 5 + len(k) + len(v.b)
                keep.update(range(pos - 2, pos + 3))
            keep.update(range(base, len(data) + 1, 997))
            offs = sorted(o for o in keep if base <= o <= len(data))
        ends, pos = [], base
        for k, v in puts:
            pos += 5 + len(k) + len(v.b); ends.append(pos)
        for n in offs:
            reuse = (n + si) % 2 == 1
            d = U.drive(path + ".img", probe_ops(committed, puts, reuse), nh=3, init_bytes=data[:n])
            cases.append(U.case_coq(d, 3)); meta.append((si, n))
            rep.count("probe:" + ("one-handle-reopened" if reuse else "three-handles"))
            inside = n != base and n not in ends
            rep.case(key=f"s{si}@{n}" if inside else None,
                     sample={"session": [[k.hex()[:16], v.n] for k, v in puts], "offset": n - base, "results": d["results"][:6]} if (si, n - base) in ((0, 3), (1, 7)) else None)
            rep.count("cut:" + ("inside-block" if inside else "boundary"))
            for sig, text in d["oracle"]:
                rep.violate(sig.replace("C02:", "C03:"), f"session {si} cut at +{n - base}: {text}",
                            {"kind": "image", "committed": [[k.hex(), v.seed, v.n] for k, v in committed],
                             "puts": [[k.hex(), v.seed, v.n] for k, v in puts], "offset": n - base, "h2": "cmt" if si % 2 else "", "reuse": reuse})
    # random histories with crashes (second crash, handles reopened after a crash)
    import c02
    for r in range(2000 if ctx.thorough else 250):
        h = U.gen_history(ctx.rng, nh=3, maxlen=30, crash=True)
        d = U.drive(path, h, nh=3)
        cases.append(U.case_coq(d, 3)); meta.append(("hist", r))
        rep.case(key="; ".join(d["ops"]) if any(o.startswith("Crash") for o in d["ops"]) else None)
        for sig, text in d["oracle"]:
            rep.violate(sig.replace("C02:", "C03:"), text, {"kind": "history", "ops": [c02._ser(o) for o in h]})
    bad = vlib.run_shards(ctx, rep, "c03", U.HEADER, "check_case", cases, shard=300, case_type="case")
    found = bool(rep.violations)
    if bad is None:
        vlib.broken_obligation(rep, "corr_c03", "a correspondence shard did not compile: " + str(rep.extra.get("shard_errors"))[-1500:], found)
    elif bad:
        rep.extra["mismatching_cases"] = len(bad)
        if not found:
            rep.violate("broken:corr_c03", f"model and implementation disagree on {len(bad)} crash cases (first: {meta[bad[0]]}) "
                        "but the oracle finds no property violation on them", {"obligation": "corr_c03", "first": list(meta[bad[0]])}, no_input=True)
    if not ok:
        vlib.broken_obligation(rep, "Props/C03.v", f"{where}\n{out[-1500:]}", found)


def replay(ctx, data):
    from molli.storage.ukvfile import UKVFile
    import c02
    path = os.path.join(ctx.sub("ukv"), "t.ukv")
    if data.get("kind") == "history":
        d = U.drive(path, [c02._deser(o) for o in data["ops"]], nh=3)
    else:
        committed = [(bytes.fromhex(k), U.Val(s, n)) for k, s, n in data["committed"]]
        puts = [(bytes.fromhex(k), U.Val(s, n)) for k, s, n in data["puts"]]
        f = UKVFile(path, "x", h2=data["h2"].encode())
        for k, v in committed:
            f.put(k, v.b)
        f.close(); base = os.path.getsize(path)
        f = UKVFile(path, "a")
        for k, v in puts:
            f.put(k, v.b)
        f.close()
        img = open(path, "rb").read()[:base + data["offset"]]
        d = U.drive(path + ".img", probe_ops(committed, puts, data.get("reuse", False)), nh=3, init_bytes=img)
    print("ops:", d["ops"]); print("results:", d["results"])
    return [vlib.Violation(s.replace("C02:", "C03:"), t) for s, t in d["oracle"]]
