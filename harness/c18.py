"""C18 -- jobmap computes each item once, reuses only valid results, resumes cleanly.

Tie H (Model/Jobmap.v): sequences of REAL `molli.pipeline.jobmap` runs (each work item is a real `_molli_run`
subprocess started by jobmap itself) over 3..6-item MoleculeLibrary / ConformerLibrary files with scripted per-item
outcome streams (succeed / fail / fail after writing the return file / omit the return file, per attempt; jobs of 1..3
commands, named or unnamed, with the failure at each position and the return file written before / by / after the
failing command), changes of the job argument and of strict_hash between runs, pre-populated destinations, destination-only keys, damaged cache
files, single and vectorised jobs.  Round 3: commands KILLED BY A SIGNAL before / after they wrote the return file (negative
exit code), the RUNNER process dying before it writes its output (killed while a command runs / a command's program does
not exist) at every command position, jobs with return_files a tuple / a list / None (result taken from the recorded
stdout), and WHO filled the destination through WHICH handle (the handle given to jobmap, another handle, another
process; jobmap handed the same handle again or a fresh one).  After every event the destination (read through an
independent read-only handle), the cache directory and the execution counters (files appended to by the scripted
commands) are observed and replayed in the model inside Coq (check_jcase); an oracle written from the property text
judges every run -- per item and per run: executed exactly when it had to be -- on the observations alone.
"""
import os, sys, json, subprocess, shutil, traceback, time

if __name__ != "__main__":
    import vlib

HEADER = ("From Coq Require Import List ZArith NArith String.\nImport ListNotations.\n"
          "From Molli Require Import Model.Job Model.Jobmap.\nLocal Open Scope string_scope.\n")

ITEM_SH = r'''#!/bin/sh
# $1 = item name, $2 = job argument, $3 = index of this command in the job's command list, $4 = number of commands.
# What the n-th execution of the item does comes from line n+1 of the plan file (one '/'-separated step per command:
# s = succeed, w = write the return file and succeed, f<k> = exit k, g<k> = write the return file then exit k,
# k<sig> = die from signal sig, h<sig> = write the return file, then die from signal sig,
# x = the RUNNER (parent process) is killed while this command runs,
# m = the program of this command does not exist (arranged by the command before it)),
# not from the command text.  An execution is counted by its first command.
D="@DIR@"
i="${3:-0}"; m="${4:-1}"
if [ -f "$D/count/$1" ]; then n=$(wc -l < "$D/count/$1"); else n=0; fi
n=$((n+0))
if [ "$i" -eq 0 ]; then echo x >> "$D/count/$1"; else n=$((n-1)); fi
a="$2"
case "$a" in
  @file) a=$(cat arg.txt);;
  @env) a="$JOBARG";;
esac
echo "run:$1:$a:$n"
o=$(sed -n "$((n+1))p" "$D/plan/$1" 2>/dev/null)
nx=""
if [ -n "$o" ]; then s=$(echo "$o/" | cut -d/ -f$((i+1))); nx=$(echo "$o/" | cut -d/ -f$((i+2))); elif [ $((i+1)) -eq "$m" ]; then s=w; else s=s; fi
if [ -d "$D/prog" ]; then
  if [ "$nx" = "m" ]; then rm -f "$D/prog/$1"; else ln -sf /bin/sh "$D/prog/$1"; fi
fi
case "$s" in
  f*) exit ${s#f};;
  g*) echo "ok:$1:$a:$n" > o.txt; exit ${s#g};;
  k*) kill -${s#k} $$; sleep 20;;
  h*) echo "ok:$1:$a:$n" > o.txt; kill -${s#h} $$; sleep 20;;
  x) kill -9 $PPID; exit 0;;
  w) echo "ok:$1:$a:$n" > o.txt;;
  *) ;;
esac
'''


# ------------------------------------------------------------------ the commands of one execution
def steps_of(tok, shape):
    """One step per command of the job (shape: one letter per command, n = named, u = unnamed).  A plan entry is
    either a '/'-separated step list, or one of the whole-execution outcomes S / F<k> / G<k> / O / K<sig> / H<sig> / X,
    which is the last command's doing (the commands before it succeed and write nothing)."""
    m = len(shape)
    if "/" in tok or tok[0].islower():
        st = tok.split("/")
        assert len(st) == m, (tok, shape)
        return st
    last = {"S": "w", "O": "s", "X": "x"}.get(tok) or {"F": "f", "G": "g", "K": "k", "H": "h"}[tok[0]] + tok[1:]
    return ["s"] * (m - 1) + [last]


CRASH = "runner-died"


def outcome_of(steps, rf="tuple"):
    """(exit code to be recorded -- negative: the signal that killed the command; CRASH: the runner died, nothing is
    recorded --, result carrier present, index of the command that ended it or None) by the property text's reading of an
    execution: commands run in order, the first one that does not succeed ends it.  The result carrier is the return file;
    for a job with return_files=None it is the recorded stdout of the first (named) command, which always exists."""
    have = rf == "none"
    for i, st in enumerate(steps):
        if st[0] in "wgh":
            have = True
        if st[0] in "fg":
            return int(st[1:]), have, i
        if st[0] in "kh":
            return -int(st[1:]), have, i
        if st[0] in "xm":
            return CRASH, have, i
    return (0 if have else 1), have, None


def kind_of(steps, shape, rf="tuple"):
    code, have, i = outcome_of(steps, rf)
    if i is None:
        return "success" if have else "omitted-return-file"
    w = [j for j, st in enumerate(steps) if st[0] in "wgh"]
    where = "no-file" if not w else ("file-before" if w[0] < i else "file-by" if w[0] == i else "file-after")
    what = {"f": "failed-command", "g": "failed-command", "k": "killed-command", "h": "killed-command",
            "x": "runner-killed-at-command", "m": "program-missing-command"}[steps[i][0]]
    return f"{what}:{'unnamed' if shape[i] == 'u' else 'named'}-{'last' if i == len(shape) - 1 else 'nonlast'}:{where}"


def rand_steps(rng, m, prog=False):
    p = rng.choice([None] + list(range(m)) * 2)          # command that does not succeed
    q = rng.choice([None] + list(range(m)) * 3)          # command that writes the return file
    how = rng.choice(["exit"] * 4 + ["signal"] * 2 + ["runner"] + (["missing"] * 2 if prog else []))
    if how == "missing" and not p:
        how = "runner"
    k = rng.randint(1, 9)
    sig = rng.choice([9, 15, 9, 6])

    def bad(wr):
        return {"exit": ("g" if wr else "f") + str(k), "signal": ("h" if wr else "k") + str(sig), "runner": "x", "missing": "m"}[how]
    return "/".join(bad(q == i) if p == i else ("w" if q == i else "s") for i in range(m))


SHAPES = ["n"] * 9 + ["u", "nn", "un", "un", "nu", "uu", "unn", "nun", "uun", "nnu"]


# ------------------------------------------------------------------ sequences
def names_of(key, L, vec):
    return [f"{key}.{i}" for i in range(L)] if vec else [key]


PLAN_MENU = [[], [], [], ["F3"], ["F3", "F2"], ["O"], ["O", "S", "F1"], ["G4"], ["F1", "O"], ["F2", "F2", "F2", "F2", "F2"], ["S", "F9"],
             ["H9"], ["K15", "H9"], ["S", "X"], ["X"], ["S", "H15"], ["G2", "X", "K9"]]


def gen_sequence(rng, k):
    vec = rng.random() < 0.35
    nkeys = rng.randint(3, 6)
    keys = [f"k{i}" for i in rng.sample(range(8), nkeys)]
    src = [(key, rng.randint(1, 3) if vec else 1) for key in keys]
    plans = {}
    shape = rng.choice(SHAPES)
    rf = rng.choice(["tuple"] * 5 + ["list"] + ["none"] * 3)
    if rf == "none" and shape[0] != "n":
        shape = "n" + shape[1:]                           # the result is the recorded stdout of the first command
    prog = len(shape) > 1 and rng.random() < 0.4
    for key, L in src:
        for nm in names_of(key, L, vec):
            plans[nm] = list(rng.choice(PLAN_MENU))
            if len(shape) > 1 and rng.random() < 0.6:
                plans[nm] = [rand_steps(rng, len(shape), prog) for _ in range(rng.randint(1, 3))]
    init = {}
    for key, L in src:
        if rng.random() < 0.2:
            init[key] = [["pre", 10 + i] for i in range(L if vec else 1)]
    if rng.random() < 0.5:
        init["z0"] = [["pre", 99]]
    events = []
    arg = "A"
    zs = iter(["z1", "z2", "z3", "z4", "z5"])
    for r in range(rng.randint(2, 4)):
        if r and rng.random() < 0.3:
            arg = "B" if arg == "A" else "A"
        if r and rng.random() < 0.3:
            key, L = rng.choice(src)
            events.append(["corrupt", rng.choice(names_of(key, L, vec))])
        if rng.random() < 0.25:
            events.append(["put", next(zs), [["put", 7]], rng.choice(["same", "same", "other", "other", "process"])])
        if r and rng.random() < 0.2:                      # somebody else computes an item that is still missing
            key, L = rng.choice(src)
            events.append(["put", key, [["put", 20 + i] for i in range(L if vec else 1)], rng.choice(["same", "other", "other", "process"])])
        if r and rng.random() < 0.3:
            events.append(["newdst"])
        events.append(["run", arg, rng.random() < 0.85, vec, rng.choice(["same", "same", "fresh"])])
    return {"vec": vec, "src": src, "plans": plans, "init": init, "events": events, "note": f"random{k}",
            "carrier": ("cmd", "file", "env")[k % 3], "shape": shape, "rf": rf, "prog": prog,
            "init_via": rng.choice(["same", "other", "other", "process"]) if init else "same"}


def directed_sequences():
    S = []
    # DESIGN finding 18a: a key present only in the destination
    S.append({"vec": False, "src": [("a", 1), ("b", 1), ("c", 1)], "plans": {"b": ["F3"]}, "init": {"zzz": [["pre", 1]]},
              "events": [["run", "A", True, False], ["run", "A", True, False]], "note": "dest-only key + resume"})
    # resume after partial failure, then nothing left to do
    S.append({"vec": False, "src": [("a", 1), ("b", 1), ("c", 1), ("d", 1)], "plans": {"b": ["F3", "F3"], "d": ["F2"]}, "init": {},
              "events": [["run", "A", True, False]] * 4, "note": "resume until fixpoint"})
    # argument change: cached outputs of the other argument are not reused
    S.append({"vec": False, "src": [("a", 1), ("b", 1)], "plans": {"a": ["O", "O"], "b": ["F1", "F1", "F1"]}, "init": {},
              "events": [["run", "A", True, False], ["run", "B", True, False], ["run", "A", True, False], ["run", "B", False, False]],
              "note": "argument change"})
    # DESIGN finding 20: exit 0 but return file missing
    S.append({"vec": False, "src": [("a", 1), ("b", 1)], "plans": {"a": ["O"]}, "init": {},
              "events": [["run", "A", True, False], ["run", "A", True, False], ["run", "A", True, False]], "note": "omitted return file, rerun"})
    # DESIGN finding 18b: rerun of a vectorised job over an existing cache
    S.append({"vec": True, "src": [("a", 2), ("b", 3)], "plans": {"b.1": ["F3"], "a.0": ["O"]}, "init": {},
              "events": [["run", "A", True, True], ["run", "A", True, True], ["run", "A", True, True]], "note": "vectorised resume"})
    # a failing job that still wrote its return file must not be stored as a result
    S.append({"vec": False, "src": [("a", 1), ("b", 1)], "plans": {"a": ["G4"]}, "init": {},
              "events": [["run", "A", True, False], ["run", "A", True, False]], "note": "failed with return file"})
    S.append({"vec": True, "src": [("a", 2), ("b", 1)], "plans": {"a.1": ["G4", "G4"]}, "init": {"b": [["pre", 5]]},
              "events": [["run", "A", True, True], ["corrupt", "a.0"], ["run", "A", True, True], ["run", "A", True, True]],
              "note": "vectorised failed-with-file + corrupt cache"})
    # new destination, same cache directory: cached successes of the SAME input are reused, those of another input are not
    S.append({"vec": False, "src": [("a", 1), ("b", 1), ("c", 1)], "plans": {"c": ["F2"]}, "init": {},
              "events": [["run", "A", True, False], ["newdst"], ["run", "A", True, False], ["newdst"], ["run", "B", True, False],
                         ["newdst"], ["run", "A", False, False]], "note": "new destination, same cache"})
    S.append({"vec": False, "src": [("a", 1), ("b", 1), ("c", 1)], "plans": {}, "init": {"a": [["pre", 1]]},
              "events": [["corrupt", "a"], ["corrupt", "b"], ["run", "A", True, False], ["corrupt", "c"], ["put", "z9", [["put", 7]]],
                         ["run", "A", True, False], ["run", "B", True, False]], "note": "corrupt cache files, everything already done"})
    # the same argument-change and new-destination sequences with the argument carried ONLY by the content of an input
    # file / ONLY by the value of an environment variable: the input hash must tell the two inputs apart
    for sq in [q for q in S if q["note"] in ("argument change", "new destination, same cache")]:
        for carrier in ("file", "env"):
            S.append(dict(sq, carrier=carrier, note=sq["note"] + f" [{carrier}]"))
    S.append({"vec": True, "src": [("a", 2), ("b", 1)], "plans": {}, "init": {}, "carrier": "file",
              "events": [["run", "A", True, True], ["newdst"], ["run", "B", True, True], ["newdst"], ["run", "A", True, True]],
              "note": "vectorised argument change [file]"})
    # jobs of SEVERAL commands, named (recorded) or not: the failing command at every position x the return file written
    # before / by / after it / never; an item counts as succeeded only if every command did.  Second attempts fail at
    # another position for some items; third run: nothing left to do or still failing.
    def combos(m, which=None, bad=lambda wr, i: ("g" if wr else "f") + str(2 + i)):
        out = []
        for p in [None] + list(range(m)):
            for q in [None] + list(range(m)):
                out.append("/".join(bad(q == i, i) if p == i else ("w" if q == i else "s") for i in range(m)))
        return out if which is None else [out[i] for i in which]
    for shape, which in (("un", None), ("nu", None), ("uu", (1, 3, 5, 6, 8)), ("nun", (1, 4, 6, 9, 10, 11, 14))):
        cs = combos(len(shape), which)
        plans = {f"i{j}": [c] for j, c in enumerate(cs)}
        j1 = "i3" if which is None else "i1"
        plans[j1] = plans[j1] + [cs[-1]]                  # fails again on the second attempt, at another position
        if len(cs) > 4:
            plans["i4"] = plans["i4"] + [cs[3], cs[3]]
        S.append({"vec": False, "src": [(f"i{j}", 1) for j in range(len(cs))], "plans": plans, "init": {}, "shape": shape,
                  "events": [["run", "A", True, False], ["run", "A", True, False], ["newdst"], ["run", "A", True, False]],
                  "note": f"commands {shape}: failure position x return-file position"})
    for shape, src in (("un", [("a", 3), ("b", 3), ("c", 2), ("d", 1)]), ("nu", [("b", 3), ("c", 2)])):
        cs = combos(2)
        plans = {"a.0": [cs[3]], "a.2": [cs[1]], "b.1": [cs[5], cs[4]], "b.2": [cs[2]], "c.0": [cs[7]], "c.1": [cs[8]], "d.0": [cs[0]]}
        S.append({"vec": True, "src": src, "shape": shape, "init": {},
                  "plans": {nm: pl for nm, pl in plans.items() if nm[0] in dict(src)},
                  "events": [["run", "A", True, True], ["run", "A", True, True], ["newdst"], ["run", "A", True, True]],
                  "note": f"vectorised commands {shape}: failure position x return-file position"})
    S.append({"vec": False, "src": [("a", 1), ("b", 1), ("c", 1)], "shape": "un", "init": {}, "carrier": "file",
              "plans": {"a": ["f3/w", "f3/w"], "b": ["w/f2"], "c": ["g5/s"]},
              "events": [["run", "A", True, False], ["run", "B", True, False], ["run", "A", False, False], ["newdst"], ["run", "A", True, False]],
              "note": "commands un: failed command + argument change [file]"})
    # ---------------------------------------------------------------- round 3
    R = lambda arg, how="same", strict=True, vec=False: ["run", arg, strict, vec, how]
    # WHO filled the destination and THROUGH WHICH HANDLE jobmap gets it: an earlier session (another handle / another
    # process) and a fresh handle that has never been read; another handle / process storing items between two runs
    # that use the same handle.  Items already there are not executed again, nothing there is touched.
    S.append({"vec": False, "src": [("a", 1), ("b", 1), ("c", 1), ("d", 1)], "plans": {"c": ["F3"]}, "init_via": "other",
              "init": {"a": [["pre", 1]], "b": [["pre", 2]], "zz": [["pre", 9]]},
              "events": [R("A", "fresh"), R("A", "same"), R("A", "fresh")], "note": "destination filled through another handle; fresh handle"})
    S.append({"vec": True, "src": [("a", 2), ("b", 1), ("c", 2)], "plans": {"c.1": ["F2"]}, "init_via": "process",
              "init": {"a": [["pre", 1], ["pre", 2]], "zz": [["pre", 9]]},
              "events": [R("A", "fresh", vec=True), ["put", "c", [["put", 7], ["put", 8]], "other"], R("A", "same", vec=True), R("A", "fresh", vec=True)],
              "note": "vectorised: destination filled by another process; fresh handle; a missing item stored through another handle"})
    S.append({"vec": False, "src": [("a", 1), ("b", 1), ("c", 1)], "plans": {"b": ["F2", "F2"], "c": ["F2"]}, "init": {},
              "events": [R("A"), ["put", "b", [["put", 5]], "process"], R("A"), ["put", "z7", [["put", 1]], "other"], ["put", "c", [["put", 6]], "other"], R("B")],
              "note": "another process / handle stores failed items between runs; same handle"})
    # commands KILLED BY A SIGNAL (negative exit code) before / after they wrote the return file: a failed run
    S.append({"vec": False, "src": [("a", 1), ("b", 1), ("c", 1), ("d", 1)], "init": {},
              "plans": {"a": ["H9"], "b": ["K15"], "c": ["H15", "H9"], "d": ["K9", "G3"]},
              "events": [R("A"), R("A"), R("A")], "note": "killed by a signal before / after writing the return file"})
    S.append({"vec": True, "src": [("a", 3), ("b", 2), ("c", 1)], "init": {}, "plans": {"a.1": ["H9"], "b.0": ["K9"], "b.1": ["H15", "H15"]},
              "events": [R("A", vec=True), R("A", vec=True), ["newdst"], R("A", vec=True)], "note": "vectorised: one part killed by a signal"})
    sg = combos(2, bad=lambda wr, i: ("h" if wr else "k") + str((9, 15)[i]))
    plans = {f"i{j}": [sg[j]] for j in range(2, 9)}
    plans["i4"] = plans["i4"] + [sg[7]]
    S.append({"vec": False, "src": [(f"i{j}", 1) for j in range(2, 9)], "plans": plans, "init": {}, "shape": "un",
              "events": [R("A"), R("A"), ["newdst"], R("A")], "note": "commands un: killed command position x return-file position"})
    S.append({"vec": True, "src": [("a", 3), ("b", 3), ("c", 2)], "shape": "nu", "init": {},
              "plans": {"a.0": [sg[3]], "a.2": [sg[4]], "b.1": [sg[5], sg[7]], "b.2": [sg[6]], "c.0": [sg[7]], "c.1": [sg[8]]},
              "events": [R("A", vec=True), R("A", vec=True), R("A", vec=True)], "note": "vectorised commands nu: killed command position x return-file position"})
    # return_files = None (result = recorded stdout) / a list / a tuple: the hash recorded by the runner must be the hash
    # jobmap computes -- cached successes of the same input are reused (new destination over the same cache, vectorised
    # rerun after a partial failure), those of another input are not
    for rf, carrier in (("none", "cmd"), ("list", "cmd"), ("none", "file")):
        S.append({"vec": False, "src": [("a", 1), ("b", 1), ("c", 1)], "plans": {"c": ["F2"]}, "init": {}, "rf": rf, "carrier": carrier,
                  "events": [R("A"), ["newdst"], R("A"), ["newdst"], R("B"), ["newdst"], R("A", strict=False)],
                  "note": f"new destination, same cache [return_files={rf}, {carrier}]"})
    for rf in ("none", "list"):
        S.append({"vec": True, "src": [("a", 2), ("b", 3)], "plans": {"b.1": ["F3"], "a.0": ["K9", "F1"]}, "init": {}, "rf": rf,
                  "events": [R("A", vec=True), R("A", vec=True), R("A", vec=True), ["newdst"], R("A", "fresh", vec=True)],
                  "note": f"vectorised resume [return_files={rf}]"})
    S.append({"vec": False, "src": [("a", 1), ("b", 1), ("c", 1), ("d", 1)], "shape": "nn", "rf": "none", "carrier": "env", "init": {},
              "plans": {"a": ["f3/s", "s/f2"], "b": ["s/k9"], "c": ["k15/s"], "d": ["s/s"]},
              "events": [R("A"), R("A"), ["newdst"], R("A"), R("B")], "note": "commands nn, return_files=None: failed / killed command [env]"})
    # strict_hash=False accepts the output of ANY input, but still only a successful one (vectorised: per part)
    S.append({"vec": True, "src": [("a", 2), ("b", 2), ("c", 1)], "plans": {"a.1": ["F3"], "b.0": ["H9", "G2"]}, "init": {},
              "events": [R("A", vec=True), R("B", strict=False, vec=True), R("A", "fresh", strict=False, vec=True)],
              "note": "vectorised: strict_hash=False rerun after a partial failure"})
    # the RUNNER dies before it writes its output (killed while a command runs; a command's program does not exist):
    # whatever output of ANOTHER input is in the cache is not the result -- the item is not stored, and is executed again
    S.append({"vec": False, "src": [("a", 1), ("b", 1), ("c", 1)], "plans": {"a": ["S", "X"], "b": ["S", "X", "X"]}, "init": {},
              "events": [R("A"), ["newdst"], R("B"), R("B"), R("B")], "note": "runner killed over a successful output of another input"})
    S.append({"vec": False, "src": [("a", 1), ("b", 1), ("c", 1)], "shape": "nn", "prog": True, "init": {},
              "plans": {"a": ["s/w", "s/m"], "b": ["s/w", "w/m", "s/m"], "c": ["s/m"]},
              "events": [R("A"), ["newdst"], R("B"), R("B"), R("A")], "note": "program of a command missing over a successful output of another input"})
    S.append({"vec": True, "src": [("a", 2), ("b", 2)], "plans": {"a.1": ["S", "X"], "b.0": ["X"]}, "init": {},
              "events": [R("A", vec=True), ["newdst"], R("B", vec=True), R("B", vec=True)], "note": "vectorised: runner of one part killed"})
    S.append({"vec": False, "src": [(f"i{j}", 1) for j in range(6)], "shape": "un", "prog": True, "init": {}, "carrier": "file",
              "plans": {"i0": ["s/w", "x/s"], "i1": ["s/w", "w/x"], "i2": ["w/s", "s/x"], "i3": ["s/w", "s/m"], "i4": ["s/w", "w/m"], "i5": ["s/w"]},
              "events": [R("A"), ["newdst"], R("B"), R("B")], "note": "commands un: runner dies at each command position [file]"})
    S.append({"vec": False, "src": [("a", 1), ("b", 1)], "plans": {"a": ["G3", "X"], "b": ["X", "X"]}, "init": {},
              "events": [R("A"), R("A"), R("A"), R("A", strict=False)], "note": "runner killed over a failed output / no output"})
    return S


# ------------------------------------------------------------------ worker: runs sequences on the implementation
def mkobj(ml, vec, key, L, done):
    m = ml.Molecule(["C"], coords=[[0, 0, 0]], name=key)
    if vec:
        m = ml.ConformerEnsemble(m, n_conformers=L)
    if done is not None:
        m.attrib["done"] = [f"ok:{key}:{a}:{n}" for a, n in done]
    return m


def put_main(fn):
    """another PROCESS stores entries in a library: {"path", "vec", "entries": {key: value}}"""
    import warnings
    warnings.filterwarnings("ignore")
    import molli as ml
    job = json.load(open(fn))
    Lib = ml.ConformerLibrary if job["vec"] else ml.MoleculeLibrary
    lib = Lib(job["path"], readonly=False)
    with lib.writing():
        for key, v in job["entries"].items():
            lib[key] = mkobj(ml, job["vec"], key, len(v), v)


def worker_main(jobs_fn, res_fn):
    import warnings, logging
    warnings.filterwarnings("ignore")
    import molli as ml
    from molli.pipeline import Job, JobInput, JobOutput, jobmap
    jobs = json.load(open(jobs_fn))

    def prep(self, m, arg="A", item=None, carrier="cmd", shape="n", prog=False, **kw):
        # how the job argument reaches the program: in the command text, only as the CONTENT of an input file, or only
        # as the VALUE of an environment variable (the input differs in exactly that place between arguments).
        # shape: one command per letter, n = named (stdout/stderr recorded under c<i>), u = unnamed (name None)
        # prog: the commands after the first are run through <dir>/prog/<item> (a link to /bin/sh that may be missing)
        idx = getattr(m, "_conf_id", None)
        nm = m.name if idx is None else f"{m.name}.{idx}"
        a = {"file": "@file", "env": "@env"}.get(carrier, arg)
        exe = lambda i: os.path.join(os.path.dirname(item), "prog", nm) if prog and i else "sh"
        cmds = [(f"{exe(i)} {item} {nm} {a} {i} {len(shape)}", f"c{i}" if ch == "n" else None) for i, ch in enumerate(shape)]
        if carrier == "file":
            return JobInput(nm, commands=cmds, files={"arg.txt": arg.encode()}, return_files=self.return_files)
        if carrier == "env":
            return JobInput(nm, commands=cmds, envars={"JOBARG": arg}, return_files=self.return_files)
        return JobInput(nm, commands=cmds, return_files=self.return_files)

    def payload(self, out):                          # needs the result carrier, like every shipped driver's post:
        if self.return_files is None:                # the recorded stdout of the first command / the return file
            return out.stdouts["c0"].strip()
        return out.files["o.txt"].decode().strip()

    def post_payload(self, out, m, **kw):
        return payload(self, out)

    def post_molecule(self, out, m, **kw):
        mm = ml.Molecule(m)
        mm.attrib["done"] = [payload(self, out)]
        return mm

    def reduce_ens(self, outputs, ens, *a, **kw):
        e = ml.ConformerEnsemble(ens)
        e.attrib["done"] = list(outputs)
        return e

    def parse(s):
        p = str(s).strip().split(":")
        return [p[2], int(p[3])]

    results = []
    for sq in jobs:
        d = sq["dir"]
        res = {"obs": [], "error": None}
        t_start = time.time()
        try:
            shutil.rmtree(d, ignore_errors=True)
            for sub in ("count", "plan", "scr") + (("prog",) if sq.get("prog") else ()):
                os.makedirs(os.path.join(d, sub))
            item = os.path.join(d, "item.sh")
            open(item, "w").write(ITEM_SH.replace("@DIR@", d))
            shape = sq.get("shape", "n")
            rf = sq.get("rf", "tuple")
            RF = {"tuple": ("o.txt",), "list": ["o.txt"], "none": None}[rf]
            single = Job(return_files=RF).prep(prep)
            single.post(post_molecule)
            item_job = Job(return_files=RF).prep(prep)
            item_job.post(post_payload)
            vectorised = Job.vectorize(item_job)
            vectorised.reduce(reduce_ens)
            Driver = type("Driver", (), {"executable": "sh", "nprocs": 1, "envars": None, "j": single, "jv": vectorised})
            for nm, pl in sq["plans"].items():
                open(os.path.join(d, "plan", nm), "w").write("".join("/".join(steps_of(x, shape)) + "\n" for x in pl))
            vec = sq["vec"]
            Lib = ml.ConformerLibrary if vec else ml.MoleculeLibrary
            ext = ".clib" if vec else ".mlib"
            src = Lib(os.path.join(d, "src" + ext), readonly=False)
            dpath = os.path.join(d, "dst" + ext)
            dst = Lib(dpath, readonly=False)
            nput = [0]

            def store(entries, via):
                # through the handle jobmap is given / through ANOTHER handle / by ANOTHER PROCESS (the handle given to
                # jobmap then holds a key view that is out of date)
                if via == "same":
                    with dst.writing():
                        for key, v in entries.items():
                            dst[key] = mkobj(ml, vec, key, len(v), v)
                elif via == "other":
                    h = Lib(dpath, readonly=False)
                    with h.writing():
                        for key, v in entries.items():
                            h[key] = mkobj(ml, vec, key, len(v), v)
                    del h
                else:
                    nput[0] += 1
                    fn = os.path.join(d, f"put{nput[0]}.json")
                    json.dump({"path": dpath, "vec": vec, "entries": entries}, open(fn, "w"))
                    subprocess.run([sys.executable, os.path.abspath(__file__), "--put", fn], check=True, timeout=300,
                                   stdout=subprocess.DEVNULL, stderr=subprocess.PIPE)
            with src.writing():
                for key, L in sq["src"]:
                    src[key] = mkobj(ml, vec, key, L, None)
            if sq["init"]:
                store(sq["init"], sq.get("init_via", "same"))
            drv = Driver()
            job = drv.jv if vec else drv.j
            # input hash -> argument it was prepared with; the hash must survive the file the runner reads the input from
            h2a = {}
            carrier = sq.get("carrier", "cmd")
            kwargs = {"item": item, "carrier": carrier, "shape": shape, "prog": bool(sq.get("prog"))}
            with src.reading():
                for key, L in sq["src"]:
                    for a in ("A", "B"):
                        pr = job.prepare(src[key], arg=a, **kwargs)
                        for inp in (list(pr) if vec else [pr]):
                            if h2a.get(bytes(inp.hash), a) != a:
                                res.setdefault("hash_collisions", []).append([inp.jid, carrier])
                            h2a[bytes(inp.hash)] = a
                            if a == "A":
                                fn = os.path.join(d, "roundtrip.inp")
                                inp.dump(fn)
                                if bytes(JobInput.load(fn).hash) != bytes(inp.hash):
                                    res.setdefault("hash_unstable", []).append([inp.jid, rf, carrier])
            cache = os.path.join(d, "cache")
            ndst = 0

            def observe(raised):
                chk = Lib(dpath, readonly=True)         # an independent handle: the one given to jobmap is left as it is
                with chk.reading():
                    dd = {k: [parse(x) for x in chk[k].attrib["done"]] for k in sorted(chk.keys())}
                del chk
                cn = {fn: len(open(os.path.join(d, "count", fn)).read().split()) for fn in sorted(os.listdir(os.path.join(d, "count")))}
                cc = {}
                od = os.path.join(cache, "output")
                for fn in sorted(os.listdir(od)) if os.path.isdir(od) else []:
                    if not fn.endswith(".out"):
                        continue
                    try:
                        o = JobOutput.load(os.path.join(od, fn))
                        # which execution wrote it: every recorded stdout and the return file carry the attempt number;
                        # an output with neither (only unnamed commands ran, no file) is taken to be the latest execution's
                        att = [parse(x)[1] for x in (o.stdouts or {}).values() if str(x).startswith("run:")]
                        if "o.txt" in (o.files or {}):
                            att.append(parse(o.files["o.txt"].decode())[1])
                        att = sorted(set(att)) or [cn.get(fn[:-4], 0) - 1]
                        have = ("c0" in (o.stdouts or {})) if RF is None else ("o.txt" in (o.files or {}))
                        cc[fn[:-4]] = [h2a.get(bytes(o.input_hash), "?"), int(o.exitcode), have,
                                       att[0] if len(att) == 1 else 1000 + att[-1]]
                    except Exception:
                        cc[fn[:-4]] = None
                return {"dst": dd, "cache": cc, "count": cn, "raised": raised}
            for ei, ev in enumerate(sq["events"]):
                raised = None
                if ev[0] == "run":
                    if len(ev) > 4 and ev[4] == "fresh":      # handles that have never looked at their files
                        dst = Lib(dpath, readonly=False)
                        src = Lib(os.path.join(d, "src" + ext), readonly=False)
                    try:
                        jobmap(job, src, dst, cache_dir=cache, scratch_dir=os.path.join(d, "scr"), n_workers=4,
                               kwargs=dict(kwargs, arg=ev[1]), strict_hash=ev[2], log_level="critical")
                    except Exception as e:
                        raised = f"{type(e).__name__}: {e}"[:300]
                elif ev[0] == "corrupt":
                    os.makedirs(os.path.join(cache, "output"), exist_ok=True)
                    open(os.path.join(cache, "output", ev[1] + ".out"), "wb").write(b"\xc1 damaged \xc1")
                elif ev[0] == "put":
                    chk = Lib(dpath, readonly=True)
                    with chk.reading():
                        there = [parse(x) for x in chk[ev[1]].attrib["done"]] if ev[1] in chk.keys() else None
                    del chk
                    if there is None:
                        store({ev[1]: ev[2]}, ev[3] if len(ev) > 3 else "same")
                    else:                                   # the key is taken (a library refuses a second put): nothing happens
                        res.setdefault("effective", {})[str(ei)] = there
                elif ev[0] == "newdst":
                    ndst += 1
                    dpath = os.path.join(d, f"dst{ndst}" + ext)
                    dst = Lib(dpath, readonly=False)
                res["obs"].append(observe(raised))
            res["residue"] = sorted(os.listdir(os.path.join(d, "scr")))
        except Exception:
            res["error"] = traceback.format_exc()[-2000:]
        shutil.rmtree(d, ignore_errors=True)
        res["secs"] = round(time.time() - t_start, 1)
        results.append(res)
    json.dump(results, open(res_fn, "w"))


def execute(ctx, seqs, tag):
    work = ctx.sub("jm_" + tag)
    nw = min(14, len(seqs))
    procs = []
    env = dict(os.environ)
    # longest first, each to the least loaded worker (cost ~ work items that may be executed + processes started for puts)
    def cost(sq):
        n = sum(L if sq["vec"] else 1 for _, L in sq["src"])
        return n * sum(1 for e in sq["events"] if e[0] == "run") + 2 * sum(1 for e in sq["events"] if e[0] == "put" and e[-1] == "process")
    share = [[0, []] for _ in range(nw)]
    for i in sorted(range(len(seqs)), key=lambda i: -cost(seqs[i])):
        tgt = min(share, key=lambda x: x[0])
        tgt[0] += cost(seqs[i]) + 1
        tgt[1].append(i)
    for w in range(nw):
        mine = share[w][1]
        jf, rf = os.path.join(work, f"jobs{w}.json"), os.path.join(work, f"res{w}.json")
        json.dump([dict(seqs[i], dir=os.path.join(work, f"seq{i}")) for i in mine], open(jf, "w"))
        procs.append((subprocess.Popen([vlib.PY, os.path.abspath(__file__), "--worker", jf, rf], env=env,
                                       stdout=subprocess.DEVNULL, stderr=open(os.path.join(work, f"w{w}.log"), "w")), rf, mine, w))
    out = [None] * len(seqs)
    for p, rf, mine, w in procs:
        try:
            p.wait(timeout=1500)
        except subprocess.TimeoutExpired:
            p.kill()
            raise RuntimeError("jobmap worker timed out")
        if p.returncode != 0 or not os.path.exists(rf):
            raise RuntimeError("jobmap worker failed:\n" + open(os.path.join(work, f"w{w}.log")).read()[-2000:])
        for i, r in zip(mine, json.load(open(rf))):
            out[i] = r
    shutil.rmtree(work, ignore_errors=True)
    return out


# ------------------------------------------------------------------ Coq terms
def cq_s(s):
    assert all(32 <= ord(c) < 127 and c != '"' for c in s)
    return '"' + s + '"'


def cq_value(v):
    return "[" + "; ".join(f"({cq_s(a)}, {int(n)}%N)" for a, n in v) + "]"


def cq_steps(tok, shape, rf="tuple"):
    out = []
    for i, (st, ch) in enumerate(zip(steps_of(tok, shape), shape)):
        code = (f"(Some (Exit {int(st[1:])}%positive))" if st[0] in "fg" else f"(Some (Signal {int(st[1:])}%positive))" if st[0] in "kh"
                else "(Some (Exit 1%positive))" if st[0] in "xm" else "None")
        # the result carrier: the return file; for return_files=None the recorded stdout of the first command
        wr = (i == 0) if rf == "none" else st[0] in "wgh"
        out.append(f"mk_cs {'true' if ch == 'n' else 'false'} {'true' if wr else 'false'} {code} {'true' if st[0] in 'xm' else 'false'}")
    return "[" + "; ".join(out) + "]"


def cq_event(ev):
    if ev[0] == "run":
        return f"JRun (mk_jp {cq_s(ev[1])} {'true' if ev[2] else 'false'} {'true' if ev[3] else 'false'})"
    if ev[0] == "corrupt":
        return f"JCorrupt {cq_s(ev[1])}"
    if ev[0] == "newdst":
        return "JNewDst"
    return f"JPut {cq_s(ev[1])} {cq_value(ev[2])}"


def cq_obs(o):
    dst = "[" + "; ".join(f"({cq_s(k)}, {cq_value(v)})" for k, v in o["dst"].items()) + "]"
    cache = "[" + "; ".join(f"({cq_s(k)}, " + ("CCorrupt" if c is None else
                                                f"COut (mk_out {cq_s(c[0])} ({c[1]})%Z {'true' if c[2] else 'false'} {c[3]}%N)") + ")"
                            for k, c in o["cache"].items()) + "]"
    cnt = "[" + "; ".join(f"({cq_s(k)}, {n}%N)" for k, n in o["count"].items()) + "]"
    return f"(mk_jobs {dst} {cache} {cnt})"


def cq_jcase(sq, res):
    shape, rf = sq.get("shape", "n"), sq.get("rf", "tuple")
    if rf == "none":
        # beyond the plan an execution succeeds: with the stdout of the first command as the carrier that needs no entry;
        # a planned execution gets its carrier from the first command
        assert shape[0] == "n"
    plans = "[" + "; ".join(f"({cq_s(nm)}, [{'; '.join(cq_steps(x, shape, rf) for x in pl)}])" for nm, pl in sq["plans"].items()) + "]"
    src = "[" + "; ".join(f"({cq_s(k)}, {L}%nat)" for k, L in sq["src"]) + "]"
    dst = "[" + "; ".join(f"({cq_s(k)}, {cq_value(v)})" for k, v in sq["init"].items()) + "]"
    eff = res.get("effective", {})
    evs = [cq_event(e if str(i) not in eff else [e[0], e[1], eff[str(i)]]) for i, e in enumerate(sq["events"])]
    return (f"(mk_jcase {plans} (mk_js {src} {dst} [] []) [{'; '.join(evs)}] "
            f"[{'; '.join(cq_obs(o) for o in res['obs'])}])")


# ------------------------------------------------------------------ oracle (from the property text)
def judge(sq, res):
    v = []
    vec = sq["vec"]
    src = dict((k, L) for k, L in sq["src"])
    prev = {"dst": {k: [list(x) for x in val] for k, val in sq["init"].items()}, "cache": {}, "count": {}}
    shape, rf = sq.get("shape", "n"), sq.get("rf", "tuple")
    # what the LATEST execution that left an output did, for every (sub-)item, by the script alone (not by what the runner
    # recorded): name -> (argument, attempt, steps); None once the cached file was damaged from outside
    latest = {}

    def cmds_ok(t):
        return outcome_of(t[2], rf)[:2] == (0, True)

    def script(nm, n):
        pl = sq["plans"].get(nm, [])
        return steps_of(pl[n] if n < len(pl) else "S", shape)
    for jid, carrier in res.get("hash_collisions", []):
        v.append((f"C18:hash:different-inputs-same-hash:{carrier}", f"the JobInputs prepared for {jid} with arguments A and B "
                  f"(argument carried by: {carrier}) have the same hash: a cached output of one is taken for the other's"))
    for jid, rfk, carrier in res.get("hash_unstable", []):
        v.append((f"C18:hash:changes-across-dump-load:return_files={rfk}", f"the JobInput prepared for {jid} (return_files: {rfk}, argument "
                  f"carried by: {carrier}) has another hash after dump() + load(): the hash the runner records is never the one jobmap expects"))
    # a runner that was killed cannot remove its private directory; every other execution must
    killed = {nm for nm, cnt in (res["obs"][-1]["count"] if res["obs"] else {}).items()
              if any(outcome_of(script(nm, n), rf)[0] == CRASH and "x" in script(nm, n) for n in range(cnt))}
    residue = [x for x in res.get("residue") or [] if x.split("__")[0] not in killed]
    if residue:
        v.append(("C18:scratch-residue", f"scratch directory not empty after the runs: {residue}"))
    for ev, o in zip(sq["events"], res["obs"]):
        if ev[0] != "run":
            if ev[0] == "corrupt":
                latest[ev[1]] = None
            prev = o
            continue
        arg, strict = ev[1], ev[2]
        how = ev[4] if len(ev) > 4 else "same"
        tag = ("vectorised" if vec else "single") + f", {how} handle"
        if o["raised"]:
            v.append((f"C18:jobmap-raised:{o['raised'].split(':')[0]}", f"jobmap raised {o['raised']} ({tag}, destination keys {sorted(prev['dst'])}, source {sorted(src)})"))

        def is_valid(c):
            return c is not None and c[1] == 0 and c[2] and (c[0] == arg or not strict)     # same input, success = exit 0 with the return file
        died = {}                     # sub-items whose runner died in this run -> kind
        for key, L in src.items():
            for nm in names_of(key, L, vec):
                ex = o["count"].get(nm, 0) - prev["count"].get(nm, 0)
                c0 = prev["cache"].get(nm, "absent")
                t0 = latest.get(nm)
                if not ex and key not in prev["dst"] and t0 is not None and not cmds_ok(t0):
                    v.append(("C18:failed-run-reused:" + kind_of(t0[2], shape, rf),
                              f"{nm} not executed although a command of its latest execution (#{t0[1]}, commands {'/'.join(t0[2])}, "
                              f"named/unnamed {shape}) failed or left no return file; its cached output reads {c0}"))
                if ex and key not in prev["dst"] and t0 is not None and cmds_ok(t0) and (t0[0] == arg or not strict) and c0 not in ("absent", None):
                    v.append((f"C18:same-input-success-recomputed:return_files={rf}",
                              f"{nm} executed again (arg={arg}, strict_hash={strict}, {tag}) although its latest execution (#{t0[1]}, same input "
                              f"{t0[0]}, commands {'/'.join(t0[2])}) succeeded and its output is in the cache (reads {c0}; '?' = a hash that "
                              f"no prepared input has)"))
                n0 = prev["count"].get(nm, 0)
                want = script(nm, n0)
                code, have, _ = outcome_of(want, rf)
                if ex == 1:
                    if code == CRASH:
                        died[nm] = kind_of(want, shape, rf)
                        if o["cache"].get(nm, "absent") == "absent":
                            latest.pop(nm, None)
                    else:
                        latest[nm] = (arg, n0, want)
                if ex > 1 or ex < 0:
                    v.append(("C18:executed-more-than-once", f"{nm} executed {ex} times in one run"))
                elif key in prev["dst"]:
                    if ex:
                        v.append(("C18:destination-key-recomputed", f"{nm} executed although {key} was already in the destination ({tag}; "
                                  f"destination keys before the run: {sorted(prev['dst'])})"))
                elif c0 != "absent" and is_valid(c0):
                    if ex:
                        v.append(("C18:valid-cache-recomputed", f"{nm} executed although a cached output of the same input (exit 0) existed: {c0}"))
                elif not ex:
                    if c0 == "absent":
                        sig = "C18:missing-item-not-executed"
                    elif c0 is None:
                        sig = "C18:damaged-cache-reused"
                    elif c0[1] != 0:
                        sig = "C18:failed-output-reused" + (":killed-by-signal" if c0[1] < 0 else "")
                    elif not c0[2]:
                        sig = "C18:incomplete-output-reused"
                    else:
                        sig = "C18:stale-cache-reused"
                    v.append((sig, f"{nm} not executed (arg={arg}, strict_hash={strict}) although its cached output was {c0}"))
                elif not o["raised"]:
                    c1 = o["cache"].get(nm, "absent")
                    if code == CRASH:
                        # the runner died: no new output; the old one (unsuitable, or it would not have been executed) is gone or untouched
                        # (compared without the attempt field, which the harness may have had to fill in from the counters)
                        if c1 != "absent" and (c1 is None or c0 in ("absent", None) or c1[:3] != c0[:3]):
                            v.append(("C18:output-not-from-this-run", f"{nm}: cache holds {c1} although the runner of execution #{n0} died "
                                      f"(commands {'/'.join(want)}); before the run it held {c0}"))
                    else:
                        # the output now in the cache must be the one produced by this execution, with the scripted outcome
                        exp = [arg, code, have, n0]
                        if c1 != "absent" and c1 is not None and c1[0] == "?" and c1[1:] == exp[1:]:
                            v.append((f"C18:recorded-hash-is-not-the-prepared-input's:return_files={rf}",
                                      f"{nm}: the output of execution #{n0} carries an input hash that no input prepared for this item has "
                                      f"(return_files: {rf}, argument carried by: {sq.get('carrier', 'cmd')}): it can never be recognised as "
                                      f"the output of the same input"))
                        elif c1 != exp:
                            v.append(("C18:output-not-from-this-run", f"{nm}: cache holds {c1}, execution #{n0} (commands {'/'.join(want)}, "
                                      f"named/unnamed {shape}) should have left {exp}"))
        for k, val in prev["dst"].items():
            if o["dst"].get(k) != val:
                v.append(("C18:destination-entry-changed" if k in src else "C18:destination-only-key-touched",
                          f"destination[{k}] was {val}, now {o['dst'].get(k)} ({tag})"))
        for k in o["dst"]:
            if k not in prev["dst"] and k not in src:
                v.append(("C18:foreign-key-in-destination", f"{k} appeared in the destination"))
        # "exactly the processed results of the items whose commands succeeded", by the script of the latest executions
        for key, L in src.items():
            if key in prev["dst"]:
                continue
            nms = names_of(key, L, vec)
            dead = [nm for nm in nms if nm in died]
            if dead:
                if key in o["dst"]:
                    v.append(("C18:stale-output-stored-after-runner-crash",
                              f"destination[{key}] = {o['dst'][key]} (arg={arg}, strict_hash={strict}) although the runner of {dead[0]} died before "
                              f"writing an output ({died[dead[0]]}): what was stored for it is the cached output of an EARLIER execution, "
                              f"which read {prev['cache'].get(dead[0], 'absent')} (another input, or a failed run)"))
                continue
            ts = [latest.get(nm) for nm in nms]
            if any(t is None for t in ts):
                continue                       # a damaged file that was not recomputed: judged above
            bad_t = [t for t in ts if not cmds_ok(t)]
            if key in o["dst"]:
                if bad_t:
                    t = bad_t[0]
                    v.append(("C18:item-with-failed-command-stored:" + kind_of(t[2], shape, rf),
                              f"destination[{key}] = {o['dst'][key]} although execution #{t[1]} of "
                              f"{nms[ts.index(t)]} (commands {'/'.join(t[2])}, named/unnamed {shape}) did not succeed"))
                elif o["dst"][key] != [[t[0], t[1]] for t in ts]:
                    v.append(("C18:result-not-of-the-successful-executions",
                              f"destination[{key}] = {o['dst'][key]}, the successful executions were {[[t[0], t[1]] for t in ts]}"))
            elif not bad_t and not o["raised"] and all(t[0] == arg or not strict for t in ts):
                v.append(("C18:successful-commands-item-missing", f"{key}: every command of the latest executions "
                          f"{[[t[0], t[1], '/'.join(t[2])] for t in ts]} succeeded and wrote the return file, but the destination has no entry"))
        if not o["raised"]:
            for key, L in src.items():
                if key in prev["dst"]:
                    continue
                nms = names_of(key, L, vec)
                outs = [o["cache"].get(nm) for nm in nms]
                succeeded = all(c is not None and c[1] == 0 for c in outs)
                complete = succeeded and all(c[2] for c in outs)
                mine = complete and all(c[0] in (arg, "?") or not strict for c in outs)      # "?": judged by the recorded-hash clause
                if mine:
                    want = [[c[0], c[3]] for c in outs]
                    if key not in o["dst"]:
                        v.append(("C18:successful-item-missing", f"{key}: every command succeeded ({outs}) but the destination has no entry"))
                    elif o["dst"][key] != want:
                        v.append(("C18:wrong-result", f"destination[{key}] = {o['dst'][key]}, processed outputs are {want}"))
                elif key in o["dst"] and not any(nm in died for nm in nms):
                    if complete:
                        v.append(("C18:output-of-another-input-stored", f"{key}: outputs {outs} belong to another input than the one mapped "
                                  f"(arg={arg}, strict_hash) but the destination holds {o['dst'][key]}"))
                    else:
                        v.append(("C18:failed-item-in-destination", f"{key}: outputs {outs} (a command failed or a return file is missing) but the "
                                  f"destination holds {o['dst'][key]}"))
        prev = o
    return v


# ------------------------------------------------------------------ check
def run(ctx, rep):
    rep.rule = ("sequences of 2..4 real jobmap runs (each work item a real _molli_run subprocess) over 3..6-key libraries: per-item "
                "outcome streams (succeed / fail / fail after writing the return file / omit the return file, by attempt), jobs of "
                "1..3 commands each named or unnamed with the failing command at every position and the return file written "
                "before / by / after it / never, argument and strict_hash changes, pre-populated destinations, destination-only keys, damaged cache files, "
                "single (MoleculeLibrary) and vectorised (ConformerLibrary, 1..3 conformers) jobs; commands killed by a signal "
                "before / after writing the return file; the runner itself dying (killed while a command runs / program of a "
                "command missing) at every command position; return_files a tuple / a list / None; destination filled through "
                "the handle given to jobmap / another handle / another process and handed to jobmap as the same or a fresh "
                "handle, observed through an independent read-only handle; 40 directed sequences (7 over multi-command jobs: "
                "every failure position x return-file position; 19 of round 3: handles, signals, return_files, dying runners) "
                "+ seeded random ones over all dimensions; non-trivial = at least one item executed; distinct by the case term")
    rep.trusted += ["harness/c18.py (item.sh script, worker, hash->argument table, Coq literal emission)",
                    "CPython ThreadPoolExecutor/subprocess, /bin/sh, msgpack, the UKV library files (C02..C04)"]
    rep.assumptions += ["work items are independent (own scratch directory, own counter): the model executes them in sequence",
                        "every execution writes an output file (run_local does unless it has no commands / a capture file vanishes: C17)",
                        "sha3-512 of the msgpack'd JobInput distinguishes the inputs used (modelled by the job argument); CHECKED on every "
                        "sequence: the inputs prepared with the two arguments must have different hashes whether the argument is "
                        "carried by the command text, only by the content of an input file, or only by the value of an envar",
                        "source keys contain no '.', vectorised items have < 10 sub-items (cache file names <key>.<i>.out)",
                        "the post function needs the return file (raises without it), as every shipped driver's does",
                        "an output that carries neither a recorded stdout nor the return file (only unnamed commands ran) is "
                        "attributed to the item's latest execution (harness fill-in for the attempt field only)",
                        "a job with return_files=None takes its result from the recorded stdout of its first command, which is named",
                        "a runner dies only while one of its commands runs (kill -9 of the _molli_run process by that command) or "
                        "because the program of a command other than the first does not exist",
                        "the key view of a Collection handle is modelled only as far as jobmap uses it (todo_seen); the libraries "
                        "themselves are C02..C06's"]
    ok, out, where = vlib.build_props(ctx, rep, "C18")
    seqs = directed_sequences() + [gen_sequence(ctx.rng, k) for k in range(200 if ctx.thorough else 16)]
    t0 = time.time()
    results = execute(ctx, seqs, "q")
    rep.extra["seconds"] = {"jobmap-runs-wall": round(time.time() - t0, 1), "per-sequence-sum": round(sum(r.get("secs", 0) for r in results), 1),
                            "slowest": sorted(((r.get("secs", 0), sq["note"]) for sq, r in zip(seqs, results)), reverse=True)[:5]}
    terms, known_hit = [], set()
    known = {k["signature"] for k in vlib.load_known() if k["property"] == "C18" and k.get("status") == "known"}
    for i, (sq, r) in enumerate(zip(seqs, results)):
        if r["error"]:
            raise RuntimeError(f"sequence {sq['note']} could not be driven:\n{r['error']}")
        t = cq_jcase(sq, r)
        terms.append(t)
        nexec = sum(r["obs"][-1]["count"].values()) if r["obs"] else 0
        rep.case(key=t if nexec else None, sample={"note": sq["note"], "events": sq["events"], "final": r["obs"][-1]} if i % 13 == 2 else None)
        rep.count("job:" + ("vectorised" if sq["vec"] else "single"))
        rep.count("argument-carried-by:" + sq.get("carrier", "cmd"))
        shape, rf = sq.get("shape", "n"), sq.get("rf", "tuple")
        rep.count("commands(named/unnamed):" + shape)
        rep.count("return_files:" + rf)
        if sq["init"]:
            rep.count("destination-prefilled-through:" + {"same": "the-handle-given-to-jobmap", "other": "another-handle", "process": "another-process"}[sq.get("init_via", "same")])
        dkeys = set(sq["init"])
        for e in sq["events"]:
            if e[0] == "run":
                rep.count("run:" + (e[4] if len(e) > 4 else "same") + "-handle:" + ("destination-holds-keys" if dkeys else "destination-empty"))
                dkeys.add("?")
            elif e[0] == "put":
                rep.count("put-between-runs-through:" + {"same": "the-handle-given-to-jobmap", "other": "another-handle", "process": "another-process"}[e[3] if len(e) > 3 else "same"]
                          + (":source-key" if e[1] in dict(sq["src"]) else ":foreign-key"))
                dkeys.add(e[1])
            elif e[0] == "newdst":
                dkeys = set()
        if r["obs"]:
            for nm, cnt in r["obs"][-1]["count"].items():        # every execution that really took place, by what its script did
                pl = sq["plans"].get(nm, [])
                for n in range(cnt):
                    rep.count("execution:" + kind_of(steps_of(pl[n] if n < len(pl) else "S", shape), shape, rf))
        rep.count("runs", sum(1 for e in sq["events"] if e[0] == "run"))
        rep.count("executions", nexec)
        for sig, text in judge(sq, r):
            rep.violate(sig, f"[{sq['note']}] {text}", {"seq": sq})
            if sig in known:
                known_hit.add(sig)
    bad = vlib.run_shards(ctx, rep, "c18", HEADER, "check_jcase", terms, shard=4, case_type="jcase")
    found = bool([x for x in rep.violations if x.sig not in known])
    if not ok:
        vlib.broken_obligation(rep, "C18_props", f"{where}\n{out[-1500:]}", found)
    if bad is None:
        vlib.broken_obligation(rep, "corr_c18", "a correspondence shard did not compile: " + str(rep.extra.get("shard_errors"))[-1500:], found)
    elif bad:
        rep.extra["corr_c18_mismatching"] = [seqs[i]["note"] for i in bad]
        if not found:
            rep.violate("broken:corr_c18", f"model and implementation disagree on {len(bad)} sequence(s) (first: {json.dumps(seqs[bad[0]])[:1200]}) "
                        "but the oracle finds no property violation on them", {"obligation": "corr_c18", "seq": seqs[bad[0]]}, no_input=True)
    return tuple(sorted(known_hit))


def replay(ctx, data):
    sq = data["seq"]
    r = execute(ctx, [sq], "replay")[0]
    if r["error"]:
        return [vlib.Violation("C18:replay-error", r["error"])]
    return [vlib.Violation(s, t) for s, t in judge(sq, r)]


if __name__ == "__main__":
    if len(sys.argv) == 4 and sys.argv[1] == "--worker":
        worker_main(sys.argv[2], sys.argv[3])
    elif len(sys.argv) == 3 and sys.argv[1] == "--put":
        put_main(sys.argv[2])
