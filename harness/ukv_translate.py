"""Translator: molli/storage/ukvfile.py (class UKVFile) -> terms of the language of coq/Model/MiniPy.v (Gen/UKVCode.v).

Regenerated from MOLLI_REPO's working tree on every run of C02.  Purely syntactic and fail-closed: anything outside the
grammar below raises Refuse (the caller then falls back to the differential tie alone and says so).  What the translator
itself decides (and is therefore trusted for): which attributes are properties and that a property whose body is a single
`return <expr>` may be inlined; the sizes of the two struct formats (computed with struct.calcsize from the literals in
the source); the fixed shape of `_unpack_read` (compared node by node with the expected shape); the mapping of exception
class names; that `hasattr(self, "_stream")` is true once a stream was opened.  Everything else is semantics, and the
semantics is Coq's `exec` / `eval`.
"""
import ast, struct, os

DATA_ATTRS = {"_toc", "_last", "_eof", "_closed", "mode", "h1", "h2", "b0"}
REC_FIELDS = {"pos", "key_len", "record_len"}
EXN = {"UnsupportedOperation": "XUnsupported", "KeyError": "XKey", "ValueError": "XValue", "TypeError": "XType", "Exception": "XOther"}
FORMATS = {"_BLOCK_HEADER": (b">BI", "HBlock"), "_FILE_HEADER": (b">16sHI10x", "HFile")}


class Refuse(Exception):
    pass


def cq_str(s):
    return '"' + s.replace('"', '""') + '"'


def cq_bytes(b):
    return "[" + ";".join(str(x) for x in b) + "]"


class Translator:
    def __init__(self, src):
        self.tree = ast.parse(src)
        self.structs = {}
        self.classes = {}
        for n in self.tree.body:
            if isinstance(n, ast.Assign) and len(n.targets) == 1 and isinstance(n.targets[0], ast.Name) and n.targets[0].id in FORMATS:
                v = n.value
                if not (isinstance(v, ast.Call) and isinstance(v.func, ast.Name) and v.func.id == "Struct" and len(v.args) == 1
                        and isinstance(v.args[0], ast.Constant) and v.args[0].value == FORMATS[n.targets[0].id][0]):
                    raise Refuse(f"{n.targets[0].id} is not Struct({FORMATS[n.targets[0].id][0]!r})")
                self.structs[n.targets[0].id] = struct.calcsize(v.args[0].value)
            if isinstance(n, ast.ClassDef):
                self.classes[n.name] = {m.name: m for m in n.body if isinstance(m, ast.FunctionDef)}
        for need in ("_BLOCK_HEADER", "_FILE_HEADER"):
            if need not in self.structs:
                raise Refuse(f"{need} not found")
        if "UKVFile" not in self.classes or "UKVRecord" not in self.classes:
            raise Refuse("class UKVFile / UKVRecord not found")
        self.fprops = {k: self._prop_expr(m) for k, m in self.classes["UKVFile"].items() if self._is_prop(m)}
        self.rprops = {k: self._prop_expr(m) for k, m in self.classes["UKVRecord"].items() if self._is_prop(m)}
        self._check_unpack_read()
        self.class_consts = {}
        for n in self.tree.body:
            if isinstance(n, ast.ClassDef) and n.name == "UKVFile":
                for st in n.body:
                    if isinstance(st, ast.Assign) and len(st.targets) == 1 and isinstance(st.targets[0], ast.Name) \
                            and isinstance(st.value, ast.Constant) and isinstance(st.value.value, bytes):
                        self.class_consts[st.targets[0].id] = st.value.value
        self.tmp = 0
        self.ren = {}
        self.defined = set()

    # ---------------------------------------------------------------- helpers
    @staticmethod
    def _is_prop(m):
        return any(isinstance(d, ast.Name) and d.id == "property" for d in m.decorator_list)

    @staticmethod
    def _body(m):
        b = [s for s in m.body if not (isinstance(s, ast.Expr) and isinstance(s.value, ast.Constant))]   # docstrings, comments
        return b

    def _prop_expr(self, m):
        b = self._body(m)
        if len(b) == 1 and isinstance(b[0], ast.Return) and b[0].value is not None:
            return b[0].value
        return None            # a property that is not a single return: refused where it is used

    def _check_unpack_read(self):
        m = self.classes["UKVFile"].get("_unpack_read")
        if m is None:
            raise Refuse("_unpack_read not found")
        want = ("def _unpack_read(self, struct, default=None):\n    try:\n        tbu = self._stream.read(struct.size)\n"
                "        res = struct.unpack(tbu)\n    except:\n        return default\n    else:\n        return res")
        w = ast.parse(want).body[0]
        strip = lambda f: ast.dump(ast.Module(body=self._body(f), type_ignores=[]))
        args = lambda f: ([a.arg for a in f.args.args], [ast.dump(d) for d in f.args.defaults])
        if strip(m) != strip(w) or args(m) != args(w):
            raise Refuse("_unpack_read does not have the expected shape (try: read(struct.size); unpack / except: default / else: result)")

    def fresh(self):
        self.tmp += 1
        return f"%{self.tmp}"

    @staticmethod
    def _is_self(n):
        return isinstance(n, ast.Name) and n.id == "self"

    def _is_stream(self, n):
        return isinstance(n, ast.Attribute) and n.attr == "_stream" and self._is_self(n.value)

    def _stream_call(self, n):
        """self._stream.<m>(args) -> (m, args) or None"""
        if isinstance(n, ast.Call) and isinstance(n.func, ast.Attribute) and self._is_stream(n.func.value) and not n.keywords:
            return n.func.attr, n.args
        return None

    def _self_call(self, n):
        if isinstance(n, ast.Call) and isinstance(n.func, ast.Attribute) and self._is_self(n.func.value) and not n.keywords:
            return n.func.attr, n.args
        return None

    # ---------------------------------------------------------------- expressions
    def ex(self, e, rec_self=None):
        """rec_self: Coq expr that `self` stands for while a UKVRecord property is being inlined"""
        X = lambda a: self.ex(a, rec_self)
        if isinstance(e, ast.Constant):
            v = e.value
            if v is None:
                return "(EConst VNone)"
            if isinstance(v, bool):
                return f"(EConst (VBool {'true' if v else 'false'}))"
            if isinstance(v, int) and v >= 0:
                return f"(EConst (VInt {v}))"
            if isinstance(v, bytes):
                return f"(EConst (VBytes {cq_bytes(v)}))"
            if isinstance(v, str):
                return f"(EConst (VStr {cq_str(v)}))"
            raise Refuse(f"constant {v!r}")
        if isinstance(e, ast.Name):
            if e.id == "self":
                raise Refuse("bare self")
            return f"(ELocal {cq_str(self.ren.get(e.id, e.id))})"
        if isinstance(e, ast.Attribute):
            if isinstance(e.value, ast.Name) and e.value.id in self.structs and e.attr == "size":
                return f"(EConst (VInt {self.structs[e.value.id]}))"
            if isinstance(e.value, ast.Attribute) and e.value.attr == "__class__" and self._is_self(e.value.value) \
                    and e.attr in self.class_consts:               # self.__class__.FILE_H1_DEFAULT
                return f"(EConst (VBytes {cq_bytes(self.class_consts[e.attr])}))"
            if self._is_self(e.value):
                if rec_self is not None:                       # inside a UKVRecord property
                    if e.attr in REC_FIELDS:
                        return f"(ERecField {cq_str(e.attr)} {rec_self})"
                    if self.rprops.get(e.attr) is not None:
                        return self.ex(self.rprops[e.attr], rec_self)
                    raise Refuse(f"UKVRecord.{e.attr}")
                if e.attr in self.fprops:
                    if self.fprops[e.attr] is None:
                        raise Refuse(f"property {e.attr} is not a single return")
                    return self.ex(self.fprops[e.attr])
                if e.attr in DATA_ATTRS:
                    return f"(EAttr {cq_str(e.attr)})"
                raise Refuse(f"self.{e.attr}")
            # attribute of a record-valued expression
            base = X(e.value)
            if e.attr in REC_FIELDS:
                return f"(ERecField {cq_str(e.attr)} {base})"
            if self.rprops.get(e.attr) is not None:
                return self.ex(self.rprops[e.attr], base)
            raise Refuse(f"attribute .{e.attr}")
        if isinstance(e, ast.Call):
            if isinstance(e.func, ast.Name) and e.func.id == "dict" and not e.args and not e.keywords:
                return "(EConst (VToc []))"
            if isinstance(e.func, ast.Name) and e.func.id == "len" and len(e.args) == 1 and not e.keywords:
                return f"(ELen {X(e.args[0])})"
            if isinstance(e.func, ast.Name) and e.func.id == "UKVRecord" and len(e.args) == 3 and not e.keywords:
                return f"(ERecNew {X(e.args[0])} {X(e.args[1])} {X(e.args[2])})"
            if isinstance(e.func, ast.Name) and e.func.id == "hasattr" and len(e.args) == 2 and self._is_self(e.args[0]) \
                    and isinstance(e.args[1], ast.Constant) and e.args[1].value == "_stream":
                return "(EConst (VBool true))"
            if isinstance(e.func, ast.Attribute) and isinstance(e.func.value, ast.Name) and e.func.value.id == "_BLOCK_HEADER" \
                    and e.func.attr == "pack" and len(e.args) == 2 and not e.keywords:
                return f"(EPackBlk {X(e.args[0])} {X(e.args[1])})"
            sc = self._stream_call(e)
            if sc and sc[0] == "writable" and not sc[1]:
                return "EWritable"
            if sc and sc[0] == "tell" and not sc[1]:
                return "ETell"
            raise Refuse(f"call {ast.dump(e)[:100]}")
        if isinstance(e, ast.BinOp) and isinstance(e.op, ast.Add):
            return f"(EAdd {X(e.left)} {X(e.right)})"
        if isinstance(e, ast.BoolOp):
            op = "EAnd" if isinstance(e.op, ast.And) else "EOr"
            out = X(e.values[-1])
            for v in reversed(e.values[:-1]):
                out = f"({op} {X(v)} {out})"
            return out
        if isinstance(e, ast.UnaryOp) and isinstance(e.op, ast.Not):
            return f"(ENot {X(e.operand)})"
        if isinstance(e, ast.IfExp):
            return f"(EIfExp {X(e.test)} {X(e.body)} {X(e.orelse)})"
        if isinstance(e, ast.Compare) and len(e.ops) > 1:
            # a < b <= c  ==  (a < b) and (b <= c)   (b is a name, attribute or constant here: evaluating it twice is the same)
            parts, left = [], e.left
            for op, right in zip(e.ops, e.comparators):
                if not isinstance(left, (ast.Name, ast.Attribute, ast.Constant)) and left is not e.left:
                    raise Refuse("chained comparison over a compound middle operand")
                parts.append(ast.Compare(left=left, ops=[op], comparators=[right]))
                left = right
            return self.ex(ast.BoolOp(op=ast.And(), values=parts), rec_self)
        if isinstance(e, ast.Compare) and len(e.ops) == 1:
            a, b, op = e.left, e.comparators[0], e.ops[0]
            if isinstance(op, ast.Eq):
                return f"(EEq {X(a)} {X(b)})"
            if isinstance(op, ast.Lt):
                return f"(ELt {X(a)} {X(b)})"
            if isinstance(op, ast.Gt):
                return f"(EGt {X(a)} {X(b)})"
            if isinstance(op, ast.LtE):
                return f"(ENot (EGt {X(a)} {X(b)}))"      # on integers
            if isinstance(op, ast.GtE):
                return f"(ENot (ELt {X(a)} {X(b)}))"
            if isinstance(op, ast.NotEq):
                return f"(ENot (EEq {X(a)} {X(b)}))"
            if isinstance(op, ast.In) and isinstance(b, (ast.Set, ast.Tuple, ast.List)) and b.elts and all(isinstance(x, ast.Constant) for x in b.elts):
                out = f"(EEq {X(a)} {X(b.elts[-1])})"                     # x in {c1, c2}: a disjunction of equalities
                for c in reversed(b.elts[:-1]):
                    out = f"(EOr (EEq {X(a)} {X(c)}) {out})"
                return out
            if isinstance(op, ast.In):
                return f"(EIn {X(a)} {X(b)})"
            if isinstance(op, ast.Is) and isinstance(b, ast.Constant) and b.value is None:
                return f"(EIsNone {X(a)})"
            if isinstance(op, ast.IsNot) and isinstance(b, ast.Constant) and b.value is None:
                return f"(EIsNotNone {X(a)})"
            raise Refuse(f"comparison {type(op).__name__}")
        if isinstance(e, ast.Subscript) and isinstance(e.ctx, ast.Load):
            return f"(ETocGet {X(e.value)} {X(e.slice)})"
        raise Refuse(f"expression {ast.dump(e)[:100]}")

    # ---------------------------------------------------------------- statements
    def seq(self, items):
        items = [i for i in items if i != "SSkip"] or ["SSkip"]
        out = items[-1]
        for i in reversed(items[:-1]):
            out = f"(SSeq {i} {out})"
        return out

    def value_into(self, target_stmt, value):
        """statements computing `value` (possibly a stream operation) and handing the resulting EXPRESSION to target_stmt"""
        sc = self._stream_call(value)
        if sc:
            m, args = sc
            if m == "read" and len(args) == 1:
                t = self.fresh()
                return [f"(SRead {cq_str(t)} {self.ex(args[0])})"] + target_stmt(f"(ELocal {cq_str(t)})")
            if m == "seek" and len(args) == 2 and all(isinstance(a, ast.Constant) for a in args) and (args[0].value, args[1].value) == (0, 2):
                t = self.fresh()
                return [f"(SSeekEnd {cq_str(t)})"] + target_stmt(f"(ELocal {cq_str(t)})")
        uc = self._self_call(value)
        if uc and uc[0] == "_unpack_read":
            args = uc[1]
            if not (1 <= len(args) <= 2 and isinstance(args[0], ast.Name) and args[0].id in FORMATS):
                raise Refuse("_unpack_read arguments")
            d = "VNone"
            if len(args) == 2:
                if not (isinstance(args[1], ast.Constant) and args[1].value is None):
                    raise Refuse("_unpack_read default other than None")
            t = self.fresh()
            return [f"(SUnpackRead {cq_str(t)} {FORMATS[args[0].id][1]} {d})"] + target_stmt(f"(ELocal {cq_str(t)})")
        return target_stmt(self.ex(value))

    def assign_to(self, tgt):
        """-> function(expr_text) -> [stmts]"""
        if isinstance(tgt, ast.Name):
            return lambda e: [f"(SAssign {cq_str(self.ren.get(tgt.id, tgt.id))} {e})"]
        if isinstance(tgt, ast.Attribute) and self._is_self(tgt.value):
            if tgt.attr not in DATA_ATTRS:
                raise Refuse(f"assignment to self.{tgt.attr}")
            return lambda e: [f"(SSetAttr {cq_str(tgt.attr)} {e})"]
        if isinstance(tgt, ast.Subscript) and isinstance(tgt.value, ast.Attribute) and self._is_self(tgt.value.value) and tgt.value.attr == "_toc":
            k = self.ex(tgt.slice)
            return lambda e: [f"(STocSet {k} {e})"]
        if isinstance(tgt, ast.Tuple):
            subs = [self.assign_to(t) for t in tgt.elts]

            def f(e):
                t = self.fresh()
                out = [f"(SAssign {cq_str(t)} {e})"]
                for i, s in enumerate(subs):
                    out += s(f"(ETupGet {i} (ELocal {cq_str(t)}))")
                return out
            return f
        raise Refuse(f"assignment target {ast.dump(tgt)[:80]}")

    @staticmethod
    def cname(name):
        return name.strip("_") if name.startswith("__") else name        # __getitem__ -> getitem_prog

    def bind_args(self, name, args):
        """statements binding the callee's parameters (positional arguments, then constant defaults).  Callee and caller share
        one local environment in MiniPy, so a caller with local variables of its own is refused."""
        m = self.classes["UKVFile"].get(name)
        if m is None or self._is_prop(m):
            raise Refuse(f"self.{name}()")
        if name not in self.defined:
            raise Refuse(f"self.{name}() called before its definition was translated")
        if self.ren:
            raise Refuse(f"self.{name}(...) called from a method that has local variables")
        params = [a.arg for a in m.args.args[1:]]
        defaults = dict(zip(params[len(params) - len(m.args.defaults):], m.args.defaults))
        if len(args) > len(params) or m.args.kwonlyargs or m.args.vararg or m.args.kwarg:
            raise Refuse(f"self.{name}: argument list")
        out = []
        for i, p in enumerate(params):
            if i < len(args):
                e = self.ex(args[i])
            elif p in defaults and isinstance(defaults[p], ast.Constant):
                e = self.ex(defaults[p])
            else:
                raise Refuse(f"self.{name}: parameter {p} not given")
            if e != f"(ELocal {cq_str(p)})":                     # a parameter bound to the caller's variable of the same name: already visible
                out.append(f"({cq_str(p)}, {e})")
        return "[" + "; ".join(out) + "]"

    def st(self, n):
        if isinstance(n, ast.Expr) and isinstance(n.value, ast.Constant):
            return []
        if isinstance(n, ast.Pass):
            return []
        if isinstance(n, ast.Break):
            return ["SBreak"]
        if isinstance(n, ast.Return):
            if n.value is not None and self._self_call(n.value):                   # return self.<method>(args)
                name, args = self._self_call(n.value)
                return [f"(SCallRet {self.bind_args(name, args)} {self.cname(name)}_prog)"]
            if isinstance(n.value, ast.Name) and n.value.id == "self":
                return ["(SReturn ESelf)"]
            return [f"(SReturn {self.ex(n.value) if n.value is not None else '(EConst VNone)'})"]
        if isinstance(n, ast.Raise):
            if n.exc is None:
                raise Refuse("bare raise outside the recognised handler")
            c = n.exc.func if isinstance(n.exc, ast.Call) else n.exc
            if isinstance(c, ast.Name) and c.id in EXN:
                return [f"(SRaise {EXN[c.id]})"]
            raise Refuse(f"raise {ast.dump(c)[:60]}")
        if isinstance(n, ast.If):
            return [f"(SIf {self.ex(n.test)} {self.block(n.body)} {self.block(n.orelse)})"]
        if isinstance(n, ast.AugAssign) and isinstance(n.op, ast.Add) and isinstance(n.target, ast.Name):
            x = self.ren.get(n.target.id, n.target.id)
            return [f"(SAssign {cq_str(x)} (EAdd (ELocal {cq_str(x)}) {self.ex(n.value)}))"]
        if isinstance(n, ast.AnnAssign) and n.value is not None and n.simple in (0, 1):
            return self.st(ast.Assign(targets=[n.target], value=n.value))
        if isinstance(n, ast.Assign) and len(n.targets) == 1 and isinstance(n.targets[0], ast.Attribute) \
                and self._is_self(n.targets[0].value) and n.targets[0].attr == "path":
            return []                     # self.path = Path(path): which file the object is about is fixed in the model (one file)
        if isinstance(n, ast.Assign) and len(n.targets) > 1:
            # a = b = value : the value once, then the targets from left to right
            t = self.fresh()
            out = self.value_into(lambda e: [f"(SAssign {cq_str(t)} {e})"], n.value)
            for tgt in n.targets:
                out += self.assign_to(tgt)(f"(ELocal {cq_str(t)})")
            return out
        if isinstance(n, ast.Assign) and len(n.targets) == 1:
            tgt, val = n.targets[0], n.value
            if isinstance(tgt, ast.Attribute) and self._is_stream(tgt):          # self._stream = self.path.open("rb")
                if isinstance(val, ast.Call) and isinstance(val.func, ast.Attribute) and val.func.attr == "open" and len(val.args) == 1 \
                        and isinstance(val.args[0], ast.Constant) and isinstance(val.func.value, ast.Attribute) \
                        and self._is_self(val.func.value.value) and val.func.value.attr == "path":
                    mode = val.args[0].value
                    if mode == "rb":
                        return ["(SOpenStream false)"]
                    if mode == "r+b":
                        return ["(SOpenStream true)"]
                    return ["SUnmodelled"]                                       # x+b / w+b: creating a file
                raise Refuse("self._stream = <not self.path.open(mode)>")
            if isinstance(val, ast.NamedExpr):                                   # self._toc[key] = (record := UKVRecord(...))
                inner = self.assign_to(val.target)
                return self.value_into(inner, val.value) + self.assign_to(tgt)(self.ex(val.target))
            return self.value_into(self.assign_to(tgt), val)
        if isinstance(n, ast.Expr) and isinstance(n.value, ast.Call):
            sc = self._stream_call(n.value)
            if sc:
                m, args = sc
                if m == "seek" and len(args) == 1:
                    return [f"(SSeek {self.ex(args[0])})"]
                if m == "seek" and len(args) == 2 and isinstance(args[1], ast.Constant) and args[1].value == 1:
                    return [f"(SSeekRel {self.ex(args[0])})"]
                if m == "write" and len(args) == 1:
                    return [f"(SWrite {self.ex(args[0])})"]
                if m == "truncate" and len(args) == 1:
                    return [f"(STruncate {self.ex(args[0])})"]
                if m == "close" and not args:
                    return ["SClose"]
                raise Refuse(f"stream call {m}/{len(args)}")
            uc = self._self_call(n.value)
            if uc:
                if uc[0] == "write_header" and not uc[1]:
                    return ["SUnmodelled"]
                return [f"(SCall {self.bind_args(uc[0], uc[1])} {self.cname(uc[0])}_prog)"]
            raise Refuse(f"call statement {ast.dump(n.value)[:100]}")
        if isinstance(n, ast.While) and not n.orelse and isinstance(n.test, ast.NamedExpr) and isinstance(n.test.target, ast.Name):
            x = self.ren.get(n.test.target.id, n.test.target.id)
            cond = self.value_into(lambda e: [f"(SAssign {cq_str(x)} {e})"], n.test.value)
            return [f"(SWhile {self.seq(cond)} {cq_str(x)} {self.block(n.body)})"]
        if isinstance(n, ast.Match):
            subj = self.ex(n.subject)
            out = "(SRaise XOther)" if False else "SSkip"      # no case matches: nothing happens
            for c in reversed(n.cases):
                if c.guard is not None or not (isinstance(c.pattern, ast.MatchValue) and isinstance(c.pattern.value, ast.Constant)):
                    raise Refuse("match case that is not a literal")
                out = f"(SIf (EEq {subj} {self.ex(c.pattern.value)}) {self.block(c.body)} {out})"
            return [out]
        if isinstance(n, ast.Try) and not n.finalbody and len(n.handlers) == 1 and n.handlers[0].type is None:
            h = n.handlers[0].body
            if not (h and isinstance(h[-1], ast.Raise) and h[-1].exc is None):
                raise Refuse("except handler that does not end in a bare raise")
            return [f"(STryElse {self.block(n.body)} {self.block(h[:-1])} {self.block(n.orelse)})"]
        raise Refuse(f"statement {ast.dump(n)[:120]}")

    def block(self, body):
        out = []
        for s in body:
            out += self.st(s)
        return self.seq(out)

    def local_names(self, m):
        """local variables in order of first binding (parameters keep their names: they are part of the API);
        they are renamed L0, L1, ... so that renaming a local in the source changes nothing here"""
        params = {a.arg for a in m.args.args}
        order = []

        def bind(t):
            if isinstance(t, ast.Name) and t.id not in params and t.id not in order:
                order.append(t.id)
            elif isinstance(t, (ast.Tuple, ast.List)):
                for e in t.elts:
                    bind(e)

        class V(ast.NodeVisitor):
            def visit_Assign(v, n):
                v.visit(n.value)
                for t in n.targets:
                    bind(t)

            def visit_AugAssign(v, n):
                v.visit(n.value); bind(n.target)

            def visit_NamedExpr(v, n):
                v.visit(n.value); bind(n.target)
        V().visit(m)
        return {x: f"L{i}" for i, x in enumerate(order)}

    def method(self, name):
        m = self.classes["UKVFile"].get(name)
        if m is None:
            raise Refuse(f"method {name} not found")
        self.tmp = 0                      # temporaries are numbered per method
        self.ren = self.local_names(m)
        self.last_ren = dict(self.ren)
        out = self.block(self._body(m)), [a.arg for a in m.args.args[1:]]
        self.defined.add(name)
        return out


METHODS = ["get", "put", "close", "keys", "read_header", "map_blocks", "open", "__getitem__", "__setitem__", "__enter__", "__exit__", "__init__"]


def translate(repo):
    src = open(os.path.join(repo, "molli", "storage", "ukvfile.py")).read()
    T = Translator(src)
    out = ["(* GENERATED by harness/ukv_translate.py from molli/storage/ukvfile.py -- do not edit.",
           "   The bodies of UKVFile's methods as terms of Model/MiniPy.v. *)",
           "From Coq Require Import NArith List String.", "Import ListNotations.",
           "From Molli Require Import Model.UKV Model.MiniPy.", "Local Open Scope N_scope.", "Local Open Scope string_scope.", ""]
    for name in METHODS:
        if name == "keys":
            m = T.classes["UKVFile"].get("keys")
            b = T._body(m)
            # keys(): return self._toc.keys()
            ok = (len(b) == 1 and isinstance(b[0], ast.Return) and isinstance(b[0].value, ast.Call) and not b[0].value.args
                  and isinstance(b[0].value.func, ast.Attribute) and b[0].value.func.attr == "keys"
                  and isinstance(b[0].value.func.value, ast.Attribute) and T._is_self(b[0].value.func.value.value)
                  and b[0].value.func.value.attr == "_toc")
            if not ok:
                raise Refuse("keys() is not `return self._toc.keys()`")
            out.append('Definition keys_expr : expr := EAttr "_toc".     (* keys(): return self._toc.keys() *)')
            continue
        body, params = T.method(name)
        out.append(f"(* def {name}(self{''.join(', ' + p for p in params)})   locals: {', '.join(v + ' = ' + k for k, v in T.last_ren.items()) or '-'} *)")
        cname = name.strip("_") if name.startswith("__") else name       # __getitem__ -> getitem_prog
        out.append(f"Definition {cname}_params : list string := [{'; '.join(cq_str(p) for p in params)}].")
        out.append(f"Definition {cname}_prog : stmt :=\n  {body}.\n")
    return "\n".join(out) + "\n"




# =====================================================================================================================
# backends.py: CollectionBackendBase.put / get / flush / keys and UkvCollectionBackend._write / _read / update_keys
# -> terms of coq/Model/MiniPyB.v (Gen/BackendCode.v).  Same rules: syntactic, fail-closed.
# =====================================================================================================================
BERR = {"IOError": "BIO", "OSError": "BIO", "UnsupportedOperation": "BUnsupported", "KeyError": "BKey"}


class BackendTranslator:
    def __init__(self, src, ukv: Translator):
        self.tree = ast.parse(src)
        self.ukv = ukv
        cls = {n.name: {m.name: m for m in n.body if isinstance(m, ast.FunctionDef)} for n in self.tree.body if isinstance(n, ast.ClassDef)}
        if "CollectionBackendBase" not in cls or "UkvCollectionBackend" not in cls:
            raise Refuse("backend classes not found")
        self.methods = dict(cls["CollectionBackendBase"]); self.methods.update(cls["UkvCollectionBackend"])   # method resolution order
        um = self.methods.get("used_memory")
        b = Translator._body(um) if um is not None else []
        if not (um is not None and Translator._is_prop(um) and len(b) == 1 and isinstance(b[0], ast.Return)
                and self._self_attr(b[0].value) == "_usedmem"):
            raise Refuse("used_memory is not `return self._usedmem`")
        k = self.methods.get("keys")
        b = Translator._body(k) if k is not None else []
        if not (len(b) == 1 and isinstance(b[0], ast.Return) and self._self_attr(b[0].value) == "_keys"):
            raise Refuse("keys() is not `return self._keys`")
        self.defined = []

    @staticmethod
    def _self_attr(n):
        return n.attr if isinstance(n, ast.Attribute) and isinstance(n.value, ast.Name) and n.value.id == "self" else None

    def _queue(self, n):
        return self._self_attr(n) == "_write_queue"

    def _local(self, n, allow_encode=True):
        """a local name, possibly through .encode() (keys are modelled by their utf-8 bytes)"""
        if isinstance(n, ast.Name) and n.id != "self":
            return f"(BELocal {cq_str(n.id)})"
        if allow_encode and isinstance(n, ast.Call) and isinstance(n.func, ast.Attribute) and n.func.attr == "encode" and not n.args \
                and not n.keywords and isinstance(n.func.value, ast.Name):
            return f"(BELocal {cq_str(n.func.value.id)})"
        raise Refuse(f"argument {ast.dump(n)[:80]}")

    def _k_for_k_in_queue(self, gen, elt_pred):
        """<elt> for k, _ in self._write_queue   -> the name bound to the key"""
        if not (isinstance(gen, ast.GeneratorExp) and len(gen.generators) == 1):
            return None
        c = gen.generators[0]
        if c.ifs or c.is_async or not self._queue(c.iter):
            return None
        if not (isinstance(c.target, ast.Tuple) and len(c.target.elts) == 2 and all(isinstance(x, ast.Name) for x in c.target.elts)):
            return None
        return elt_pred(gen.elt, c.target.elts[0].id)

    def cond(self, t):
        if self._self_attr(t) == "_readonly":
            return "BEReadonly"
        if isinstance(t, ast.UnaryOp) and isinstance(t.op, ast.Not):
            return f"(BENot {self.cond(t.operand)})"
        if isinstance(t, ast.BoolOp) and isinstance(t.op, ast.And) and len(t.values) >= 2:
            out = self.cond(t.values[-1])
            for v in reversed(t.values[:-1]):
                out = f"(BEAnd {self.cond(v)} {out})"
            return out
        if isinstance(t, ast.Compare) and len(t.ops) == 1 and isinstance(t.ops[0], (ast.Eq, ast.NotEq)) \
                and self._self_attr(t.left) == "_state" and isinstance(t.comparators[0], ast.Constant) \
                and t.comparators[0].value in ("idle", "reading", "writing"):
            e = "(BEState S%s)" % t.comparators[0].value.capitalize()
            return e if isinstance(t.ops[0], ast.Eq) else f"(BENot {e})"
        if isinstance(t, ast.Call) and isinstance(t.func, ast.Name) and t.func.id == "hasattr" and len(t.args) == 2 \
                and isinstance(t.args[0], ast.Name) and t.args[0].id == "self" and isinstance(t.args[1], ast.Constant) and t.args[1].value == "_ukvfile":
            return "BEHasUkv"
        if isinstance(t, ast.Compare) and len(t.ops) == 1 and isinstance(t.ops[0], ast.Gt) \
                and self._self_attr(t.left) == "used_memory" and self._self_attr(t.comparators[0]) == "_bufsize":
            return "BEOverBudget"
        if isinstance(t, ast.Call) and isinstance(t.func, ast.Name) and t.func.id == "any" and len(t.args) == 1 and not t.keywords:
            def pred(elt, kname):
                if isinstance(elt, ast.Compare) and len(elt.ops) == 1 and isinstance(elt.ops[0], ast.Eq):
                    a, b = elt.left, elt.comparators[0]
                    if isinstance(a, ast.Name) and isinstance(b, ast.Name) and kname in (a.id, b.id) and a.id != b.id:
                        return a.id if b.id == kname else b.id
                return None
            other = self._k_for_k_in_queue(t.args[0], pred)
            if other:
                return f"(BEQueued (BELocal {cq_str(other)}))"
        raise Refuse(f"condition {ast.dump(t)[:100]}")

    def call_self(self, call, ret):
        name = call.func.attr
        m = self.methods.get(name)
        if m is None or name not in self.defined:
            raise Refuse(f"self.{name}() is not a translated method (or is used before its translation)")
        params = [a.arg for a in m.args.args[1:]]
        if call.keywords or len(call.args) != len(params) or any(not (isinstance(a, ast.Name) and a.id == p) for a, p in zip(call.args, params)):
            raise Refuse(f"self.{name}(...): arguments must be the callee's own parameter names")
        cname = {"put": "bput", "get": "bget"}.get(name, name.lstrip("_"))
        return f"({'BCallRet' if ret else 'BCall'} {cname}_prog)"

    def _arg(self, a):
        if isinstance(a, ast.Constant) and isinstance(a.value, str):
            return f"(BEStr {cq_str(a.value)})"
        if isinstance(a, ast.Constant) and a.value is None:
            return "BENone"
        if self._self_attr(a) == "_path":
            return "BENone"                      # which file: fixed in the model
        return self._local(a)

    def _ukv_args(self, name, call):
        """parameters of UKVFile.<name> bound from the call's positional and keyword arguments and constant defaults"""
        m = self.ukv.classes["UKVFile"][name]
        pos = [a.arg for a in m.args.args[1:]]
        kwo = [a.arg for a in m.args.kwonlyargs]
        dflt = dict(zip(pos[len(pos) - len(m.args.defaults):], m.args.defaults))
        dflt.update({k: d for k, d in zip(kwo, m.args.kw_defaults) if d is not None})
        given = {}
        if len(call.args) > len(pos):
            raise Refuse(f"self._ukvfile.{name}: too many arguments")
        for p, a in zip(pos, call.args):
            given[p] = self._arg(a)
        for kw in call.keywords:
            if kw.arg is None or kw.arg in given or kw.arg not in pos + kwo:
                raise Refuse(f"self._ukvfile.{name}: keyword {kw.arg}")
            given[kw.arg] = self._arg(kw.value)
        out = []
        for p in pos + kwo:
            if p in given:
                out.append((p, given[p]))
            elif p in dflt and isinstance(dflt[p], ast.Constant):
                out.append((p, self._arg(dflt[p])))
            else:
                raise Refuse(f"self._ukvfile.{name}: parameter {p} not given")
        return "[" + "; ".join(f"({cq_str(p)}, {e})" for p, e in out) + "]"

    def call_ukv(self, call, ret):
        """self._ukvfile.<m>(args)"""
        name = call.func.attr
        if name not in ("put", "get", "open", "close") or name not in self.ukv.defined:
            raise Refuse(f"self._ukvfile.{name}")
        return f"({'BUkvCallRet' if ret else 'BUkvCall'} {name}_prog {self._ukv_args(name, call)})"

    def st(self, n):
        if isinstance(n, ast.Expr) and isinstance(n.value, ast.Constant):
            return []
        if isinstance(n, ast.Pass):
            return []
        if isinstance(n, ast.If) and isinstance(n.test, ast.UnaryOp) and isinstance(n.test.op, ast.Not) and self._lock_call(n.test.operand, "acquire"):
            # if not self._lock.acquire_read_lock(timeout=timeout): raise TimeoutError(...)
            w = self._lock_call(n.test.operand, "acquire")
            r = n.body[0] if len(n.body) == 1 and not n.orelse else None
            c = r.exc.func if isinstance(r, ast.Raise) and isinstance(r.exc, ast.Call) else getattr(r, "exc", None)
            if not (isinstance(c, ast.Name) and c.id == "TimeoutError"):
                raise Refuse("a failed lock acquisition must raise TimeoutError")
            call = n.test.operand
            exact = (not call.args and len(call.keywords) == 1 and call.keywords[0].arg == "timeout"
                     and isinstance(call.keywords[0].value, ast.Name) and call.keywords[0].value.id == "timeout")
            if not exact:
                how = ast.unparse(call)[:80].replace('"', "'")
                return [f"(BAcquireOdd {w} {cq_str(how)})"]
            return [f"(BAcquire {w})"]
        if isinstance(n, ast.Expr) and self._lock_call(n.value, "release"):
            return [f"(BRelease {self._lock_call(n.value, 'release')})"]
        if isinstance(n, ast.Assign) and len(n.targets) == 1 and self._self_attr(n.targets[0]) == "_state":
            if isinstance(n.value, ast.Constant) and n.value.value in ("idle", "reading", "writing"):
                return [f"(BSetState S{n.value.value.capitalize()})"]
            raise Refuse("self._state = <not one of the three state names>")
        if isinstance(n, ast.Try) and n.finalbody and not n.handlers and not n.orelse:
            return [f"(BTryFinally {self.block(n.body)} {self.block(n.finalbody)})"]
        if isinstance(n, ast.If):
            return [f"(BIf {self.cond(n.test)} {self.block(n.body)} {self.block(n.orelse)})"]
        if isinstance(n, ast.Raise) and n.exc is not None:
            c = n.exc.func if isinstance(n.exc, ast.Call) else n.exc
            if isinstance(c, ast.Name) and c.id in BERR:
                return [f"(BRaise {BERR[c.id]})"]
            raise Refuse(f"raise {ast.dump(c)[:60]}")
        if isinstance(n, ast.AugAssign) and isinstance(n.op, ast.Add) and self._self_attr(n.target) == "_usedmem":
            v = n.value
            if isinstance(v, ast.BinOp) and isinstance(v.op, ast.Add):
                lens = []
                for side in (v.left, v.right):
                    if isinstance(side, ast.Call) and isinstance(side.func, ast.Name) and side.func.id == "len" and len(side.args) == 1:
                        lens.append(self._local(side.args[0], False))
                if len(lens) == 2:
                    return [f"(BUsedAddLens {lens[0]} {lens[1]})"]
            raise Refuse("self._usedmem += <not len(a) + len(b)>")
        if isinstance(n, ast.Assign) and len(n.targets) == 1 and self._self_attr(n.targets[0]) == "_usedmem" \
                and isinstance(n.value, ast.Constant) and n.value.value == 0:
            return ["BUsedReset"]
        if isinstance(n, ast.Assign) and len(n.targets) == 1 and self._self_attr(n.targets[0]) == "_ukvfile":
            v = n.value                      # self._ukvfile = UKVFile(self._path, mode="r")
            if isinstance(v, ast.Call) and isinstance(v.func, ast.Name) and v.func.id == "UKVFile" and "__init__" in self.ukv.defined:
                return [f"(BUkvNew init_prog {self._ukv_args('__init__', v)})"]
            raise Refuse("self._ukvfile = <not UKVFile(...)>")
        if isinstance(n, ast.Assign) and len(n.targets) == 1 and self._self_attr(n.targets[0]) == "_keys":
            v = n.value                      # {k.decode() for k in self._ukvfile.keys()}
            ok = (isinstance(v, ast.SetComp) and len(v.generators) == 1 and not v.generators[0].ifs
                  and isinstance(v.generators[0].target, ast.Name)
                  and isinstance(v.elt, ast.Call) and isinstance(v.elt.func, ast.Attribute) and v.elt.func.attr == "decode"
                  and isinstance(v.elt.func.value, ast.Name) and v.elt.func.value.id == v.generators[0].target.id and not v.elt.args
                  and isinstance(v.generators[0].iter, ast.Call) and isinstance(v.generators[0].iter.func, ast.Attribute)
                  and v.generators[0].iter.func.attr == "keys" and self._self_attr(v.generators[0].iter.func.value) == "_ukvfile"
                  and not v.generators[0].iter.args)
            if ok:
                return ["(BKeysFromUkv keys_expr)"]
            raise Refuse("self._keys = <not {k.decode() for k in self._ukvfile.keys()}>")
        if isinstance(n, ast.Return) and isinstance(n.value, ast.Call) and isinstance(n.value.func, ast.Attribute):
            f = n.value.func
            if isinstance(f.value, ast.Name) and f.value.id == "self":
                return [self.call_self(n.value, True)]
            if self._self_attr(f.value) == "_ukvfile":
                return [self.call_ukv(n.value, True)]
        if isinstance(n, ast.Expr) and isinstance(n.value, ast.Call) and isinstance(n.value.func, ast.Attribute):
            c, f = n.value, n.value.func
            if isinstance(f.value, ast.Name) and f.value.id == "self":
                return [self.call_self(c, False)]
            if self._self_attr(f.value) == "_ukvfile":
                return [self.call_ukv(c, False)]
            if self._queue(f.value) and f.attr == "append" and len(c.args) == 1 and isinstance(c.args[0], ast.Tuple) and len(c.args[0].elts) == 2:
                return [f"(BQueueAppend {self._local(c.args[0].elts[0], False)} {self._local(c.args[0].elts[1], False)})"]
            if self._self_attr(f.value) == "_keys" and f.attr == "add" and len(c.args) == 1:
                return [f"(BKeysAdd {self._local(c.args[0], False)})"]
            if self._self_attr(f.value) == "_keys" and f.attr == "update" and len(c.args) == 1:
                if self._k_for_k_in_queue(c.args[0], lambda elt, k: isinstance(elt, ast.Name) and elt.id == k):
                    return ["BKeysAddQueued"]
            raise Refuse(f"call {ast.dump(c)[:100]}")
        if isinstance(n, ast.While) and not n.orelse and self._queue(n.test) and n.body:
            h = n.body[0]                   # key, value = self._write_queue.popleft()
            ok = (isinstance(h, ast.Assign) and len(h.targets) == 1 and isinstance(h.targets[0], ast.Tuple) and len(h.targets[0].elts) == 2
                  and all(isinstance(x, ast.Name) for x in h.targets[0].elts)
                  and isinstance(h.value, ast.Call) and isinstance(h.value.func, ast.Attribute) and h.value.func.attr == "popleft"
                  and self._queue(h.value.func.value) and not h.value.args)
            if ok:
                kx, vx = (x.id for x in h.targets[0].elts)
                return [f"(BWhilePop {cq_str(kx)} {cq_str(vx)} {self.block(n.body[1:])})"]
            raise Refuse("while self._write_queue: <first statement is not `k, v = self._write_queue.popleft()`>")
        if isinstance(n, ast.Try) and not n.finalbody and not n.orelse and len(n.handlers) == 1:
            hd = n.handlers[0]
            if hd.type is not None and not (isinstance(hd.type, ast.Name) and hd.type.id in ("BaseException", "Exception")):
                raise Refuse("except clause that does not catch every exception of the body")
            if hd.name is not None or not (hd.body and isinstance(hd.body[-1], ast.Raise) and hd.body[-1].exc is None):
                raise Refuse("except handler that does not end in a bare raise")
            return [f"(BTryReraise {self.block(n.body)} {self.block(hd.body[:-1])})"]
        raise Refuse(f"statement {ast.dump(n)[:120]}")

    def block(self, body):
        out = []
        for s in body:
            out += self.st(s)
        out = [o for o in out if o != "BSkip"] or ["BSkip"]
        res = out[-1]
        for o in reversed(out[:-1]):
            res = f"(BSeq {o} {res})"
        return res

    def method(self, name):
        m = self.methods.get(name)
        if m is None:
            raise Refuse(f"method {name} not found")
        body = self.block(Translator._body(m))
        self.defined.append(name)
        return body, [a.arg for a in m.args.args[1:]]

    def _lock_call(self, c, verb):
        """self._lock.<verb>_{read,write}_lock(...)  ->  "false" (read) / "true" (write); the timeout is outside the model"""
        if isinstance(c, ast.Call) and isinstance(c.func, ast.Attribute) and self._self_attr(c.func.value) == "_lock":
            for kind, w in (("read", "false"), ("write", "true")):
                if c.func.attr == f"{verb}_{kind}_lock":
                    if verb == "release" and (c.args or c.keywords):
                        raise Refuse("release_*_lock takes no argument")
                    return w
        return None

    def _split(self, stmts):
        """a statement list containing exactly one `yield self`, possibly inside try/finally blocks: (entry part, exit part)"""
        has = lambda x: any(isinstance(y, (ast.Yield, ast.YieldFrom)) for y in ast.walk(x))
        idx = [i for i, x in enumerate(stmts) if has(x)]
        if len(idx) != 1:
            raise Refuse("a session context manager must yield exactly once")
        i = idx[0]; S = stmts[i]
        pre, post = self.block(stmts[:i]), self.block(stmts[i + 1:])
        if isinstance(S, ast.Expr) and isinstance(S.value, ast.Yield) and isinstance(S.value.value, ast.Name) and S.value.value.id == "self":
            return pre, post
        if isinstance(S, ast.Try) and S.finalbody and not S.handlers and not S.orelse:
            e, x = self._split(S.body)
            fin = self.block(S.finalbody)
            return f"(BSeq {pre} (BTryReraise {e} {fin}))", f"(BSeq (BTryFinally {x} {fin}) {post})"
        raise Refuse("the yield of a session context manager must be `yield self`, directly or inside try/finally blocks")

    def session(self, name):
        """@contextmanager def reading/writing(self, timeout=None)  ->  (entry program, exit program)"""
        m = self.methods.get(name)
        if m is None:
            raise Refuse(f"method {name} not found")
        d = m.decorator_list
        if not (len(d) == 1 and isinstance(d[0], ast.Name) and d[0].id == "contextmanager"):
            raise Refuse(f"{name} is not a plain @contextmanager generator")
        if [a.arg for a in m.args.args] != ["self", "timeout"] or m.args.kwonlyargs or m.args.vararg or m.args.kwarg:
            raise Refuse(f"{name}: parameters other than (self, timeout)")
        return self._split(Translator._body(m))


BMETHODS = ["update_keys", "_write", "_read", "flush", "put", "get", "begin_read", "end_read", "begin_write", "end_write"]


def translate_backend(repo):
    T = Translator(open(os.path.join(repo, "molli", "storage", "ukvfile.py")).read())
    for name in ("get", "put", "close", "read_header", "map_blocks", "open", "__init__"):
        T.method(name)                     # establishes that the inner methods are translatable (their terms live in Gen/UKVCode.v)
    B = BackendTranslator(open(os.path.join(repo, "molli", "storage", "backends.py")).read(), T)
    out = ["(* GENERATED by harness/ukv_translate.py from molli/storage/backends.py -- do not edit.",
           "   CollectionBackendBase.put/get/flush and UkvCollectionBackend._write/_read/update_keys as terms of Model/MiniPyB.v;",
           "   calls on self._ukvfile carry the translated UKVFile methods of Gen/UKVCode.v. *)",
           "From Coq Require Import NArith List String.", "Import ListNotations.",
           "From Molli Require Import Model.UKV Model.MiniPy Model.Backend Model.MiniPyB Gen.UKVCode.",
           "Local Open Scope N_scope.", "Local Open Scope string_scope.", ""]
    for name in BMETHODS:
        body, params = B.method(name)
        cname = {"put": "bput", "get": "bget"}.get(name, name.lstrip("_"))
        out.append(f"(* def {name}(self{''.join(', ' + p for p in params)}) *)")
        out.append(f"Definition {cname}_prog : bstmt :=\n  {body}.\n")
    for name in ("reading", "writing"):
        e, x = B.session(name)
        out.append(f"(* @contextmanager def {name}(self, timeout=None): what runs before the `yield self` *)")
        out.append(f"Definition {name}_enter_prog : bstmt :=\n  {e}.\n")
        out.append(f"(* ... and what runs after it when the with-block ends normally *)")
        out.append(f"Definition {name}_exit_prog : bstmt :=\n  {x}.\n")
    # inside the generated terms put/get of the BACKEND are referred to by their own names
    return "\n".join(out) + "\n"


if __name__ == "__main__":
    import sys
    repo = sys.argv[1] if len(sys.argv) > 1 else "/repo"
    print(translate_backend(repo) if len(sys.argv) > 2 and sys.argv[2] == "backend" else translate(repo))
