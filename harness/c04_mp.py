"""C04 part 2: real OS processes.

(a) stepped schedules: persistent worker processes execute session steps one command at a time under the
    coordinator's control (deterministic interleavings at session-step granularity); outcomes (incl. refused
    acquires = timeouts) and the final file are compared with the lock/process transition system inside Coq.
(b) free-running schedules: workers run scripts of sessions on their own with random delays injected into
    begin/flush/end steps, exceptions injected into bodies / encoders / backend writes, and differently
    spelled paths to the same file; an oracle checks writer exclusion from the event log (CLOCK_MONOTONIC is
    system-wide), that every acknowledged record is present and exact, that readers saw only complete exact
    records, and that the lock can be taken afterwards.
"""
import os, sys, json, subprocess, time, random, struct
import vlib
import ukv_common as U

WORKER = r'''
import sys, os, json, time, random
sys.path.insert(0, os.environ["MOLLI_REPO_DIR"])
from io import UnsupportedOperation
import struct
from molli.storage import Collection, UkvCollectionBackend
cols, cms, log = {}, {}, []
class Boom(Exception): pass
def cls(e):
    if isinstance(e, TimeoutError): return "timeout"
    if isinstance(e, UnsupportedOperation): return "EUnsupported"
    if isinstance(e, KeyError): return "EKey"
    if isinstance(e, struct.error): return "EStruct"
    return "other:" + type(e).__name__
def instrument(h, c, delays, rng):
    be = c._backend
    def wrap(name, before=None, after=None):
        orig = getattr(be, name)
        def w(*a, **k):
            d = delays.get(name, 0)
            if before: log.append((before, h, time.monotonic()))
            if d and name != "end_write": time.sleep(rng.random() * d)
            try:
                return orig(*a, **k)
            finally:
                if d and name == "end_write": time.sleep(rng.random() * d)
                if after: log.append((after, h, time.monotonic()))
        setattr(be, name, w)
    wrap("begin_write", before="bw"); wrap("begin_read", before="br")
    wrap("end_write", after="ew"); wrap("end_read", after="er")
    if delays.get("flush"): wrap("flush")
def do(m):
    c = m["cmd"]
    if c == "new":
        col = Collection(m["path"], UkvCollectionBackend, readonly=False, bufsize=m.get("bufsize", -1))
        cols[m["h"]] = col
        instrument(m["h"], col, m.get("delays", {}), random.Random(m.get("seed", 0)))
        return "ok"
    col = cols[m["h"]]
    if c == "enter":
        cm = col.writing(timeout=m["timeout"]) if m["w"] else col.reading(timeout=m["timeout"])
        cm.__enter__(); cms[m["h"]] = cm; return "ok"
    if c == "exit":
        cm = cms.pop(m["h"])
        if m.get("exc"):
            try:
                cm.__exit__(Boom, Boom("body"), None)
            except Boom:
                pass
        else:
            cm.__exit__(None, None, None)
        return "ok"
    if c == "put":
        col[m["k"]] = bytes.fromhex(m["v"]); return "ok"
    if c == "get":
        return "val:" + col[m["k"]].hex()
    if c == "keys":
        return "keys:" + json.dumps(sorted(col.keys()))
    if c == "script":
        # free-running: a list of sessions, each (w, ops, fault)
        rng = random.Random(m["seed"]); out = []
        for si, (w, ops, fault) in enumerate(m["sessions"]):
            rec = {"w": w, "acked": [], "reads": [], "exc": None}
            try:
                with (col.writing(timeout=20) if w else col.reading(timeout=20)):
                    rec["t_in"] = time.monotonic()
                    for op in ops:
                        if op[0] == "put":
                            if fault == "encoder" and op is ops[-1]: raise Boom("encoder")
                            try:
                                col[op[1]] = bytes.fromhex(op[2]); rec["acked"].append(op[1])
                            except KeyError:
                                rec.setdefault("dups", []).append(op[1])
                        elif op[0] == "readall":
                            for k in sorted(col.keys()):
                                rec["reads"].append((k, col[k].hex()))
                        time.sleep(rng.random() * 0.004)
                    if fault == "body": raise Boom("body")
                    rec["t_out"] = time.monotonic()
            except Boom as e:
                rec["exc"] = str(e)
            except Exception as e:
                rec["exc"] = "unexpected:" + type(e).__name__ + ":" + str(e)[:80]
            out.append(rec)
        return "script:" + json.dumps(out)
    if c == "log":
        return "log:" + json.dumps(log)
    return "?"
for line in sys.stdin:
    line = line.strip()
    if not line: break
    try:
        r = do(json.loads(line))
    except BaseException as e:
        r = "err:" + cls(e)
    print(r, flush=True)
'''


class Workers:
    def __init__(self, ctx, n):
        p = os.path.join(ctx.sub("c04"), "worker.py")
        open(p, "w").write(WORKER)
        env = dict(os.environ, MOLLI_REPO_DIR=vlib.REPO)
        self.ps = [subprocess.Popen([vlib.PY, p], stdin=subprocess.PIPE, stdout=subprocess.PIPE, text=True, env=env) for _ in range(n)]

    def send(self, wk, **m):
        self.ps[wk].stdin.write(json.dumps(m) + "\n"); self.ps[wk].stdin.flush()

    def recv(self, wk):
        return self.ps[wk].stdout.readline().strip()

    def call(self, wk, **m):
        self.send(wk, **m)
        return self.recv(wk)

    def close(self):
        for p in self.ps:
            try:
                p.stdin.write("\n"); p.stdin.flush(); p.wait(timeout=5)
            except Exception:
                p.kill()


# ------------------------------------------------------------------ (a) stepped schedules
def gen_schedule(rng, nproc):
    """Each process runs 1..2 sessions (w/r, 1..2 ops); actions are interleaved at random."""
    keys = ["a", "b", "c", "d"]
    per = []
    for p in range(nproc):
        acts = []
        for _ in range(rng.randint(1, 2)):
            w = rng.random() < 0.6
            acts.append(("enter", w))
            for _ in range(rng.randint(1, 2)):
                r = rng.random()
                if r < 0.5:
                    acts.append(("put", rng.choice(keys), U.Val(rng.randrange(256), rng.choice([0, 1, 5]))))
                elif r < 0.8:
                    acts.append(("get", rng.choice(keys)))
                else:
                    acts.append(("keys",))
            acts.append(("exit",))
        per.append(acts)
    order = [p for p in range(nproc) for _ in per[p]]
    rng.shuffle(order)
    idx = [0] * nproc
    sched = []
    for p in order:
        sched.append((p, per[p][idx[p]])); idx[p] += 1
    return sched


def run_schedule(W, path, sched, nproc, timeout=0.15):
    """Adaptive execution: after a refused enter the rest of that session is skipped.  Returns the executed macro
    labels (Coq terms), the observed outcomes (Coq terms) and the final file."""
    from molli.storage.ukvfile import UKVFile
    if os.path.exists(path):
        os.remove(path)
    UKVFile(path, "x").close()
    init = open(path, "rb").read()
    for p in range(nproc):
        assert W.call(p, cmd="new", h=path, path=path) == "ok"
    in_sess = [False] * nproc
    skipping = [False] * nproc
    labels, outs = [], []
    for p, a in sched:
        k = a[0]
        if k == "enter":
            r = W.call(p, cmd="enter", h=path, w=a[1], timeout=timeout)
            labels.append(f"MEnter {p} {p} {'true' if a[1] else 'false'}")
            if r == "ok":
                in_sess[p] = True; skipping[p] = False; outs.append("Done ROk")
            else:
                skipping[p] = True; outs.append("Refused" if r == "err:timeout" else f"Done ROther (* {r} *)")
            continue
        if skipping[p]:
            continue
        if k == "exit":
            r = W.call(p, cmd="exit", h=path); in_sess[p] = False
            labels.append(f"MExit {p}"); outs.append("Done ROk" if r == "ok" else f"Done ROther (* {r} *)")
        elif k == "put":
            r = W.call(p, cmd="put", h=path, k=a[1], v=a[2].b.hex())
            labels.append(f"MDo {p} (Put {p} {U.cq_bytes(a[1].encode())} {a[2].coq()})")
            outs.append("Done ROk" if r == "ok" else f"Done (RErr {r[4:]})" if r.startswith("err:E") else f"Done ROther (* {r} *)")
        elif k == "get":
            r = W.call(p, cmd="get", h=path, k=a[1])
            labels.append(f"MDo {p} (Get {p} {U.cq_bytes(a[1].encode())})")
            outs.append(f"Done (RVal {U.cq_bytes(bytes.fromhex(r[4:]))})" if r.startswith("val:") else
                        f"Done (RErr {r[4:]})" if r.startswith("err:E") else f"Done ROther (* {r} *)")
        else:
            r = W.call(p, cmd="keys", h=path)
            labels.append(f"MDo {p} (Keys {p})")
            outs.append("Done (RKeys [" + ";".join(U.cq_bytes(x.encode()) for x in json.loads(r[5:])) + "])" if r.startswith("keys:")
                        else f"Done ROther (* {r} *)")
    for p in range(nproc):
        if in_sess[p]:
            W.call(p, cmd="exit", h=path); labels.append(f"MExit {p}"); outs.append("Done ROk")
    final = open(path, "rb").read()
    bof = len(init)
    case = (f"(({U.bytes_coq(init, bof)}, {nproc}%nat, [{'; '.join(labels)}]), ([{'; '.join(outs)}], {U.bytes_coq(final, bof)}))")
    return case, labels, outs


HEADER = ("From Coq Require Import NArith List.\nImport ListNotations.\n"
          "From Molli Require Import Model.UKV Model.Session.\nOpen Scope N_scope.\n")


# ------------------------------------------------------------------ (b) free-running schedules
def free_run(ctx, W, nproc, nsess, aliases):
    """Returns a list of (signature, text) violations."""
    rng = ctx.rng
    work = ctx.sub("c04free")
    real = os.path.join(work, "lib.ukv")
    from molli.storage.ukvfile import UKVFile
    if os.path.exists(real):
        os.remove(real)
    UKVFile(real, "x").close()
    spell = [real]
    if aliases:
        os.makedirs(os.path.join(work, "sub"), exist_ok=True)
        link = os.path.join(work, "lnk")
        if not os.path.islink(link):
            os.symlink(work, link)
        spell += [os.path.join(work, "sub", "..", "lib.ukv"), os.path.join(link, "lib.ukv")]
    viol = []
    scripts = []
    for p in range(nproc):
        path = spell[p % len(spell)]
        delays = {m: rng.choice([0, 0.02, 0.05]) for m in ("begin_write", "end_write", "flush", "begin_read")}
        assert W.call(p, cmd="new", h="f", path=path, delays=delays, seed=rng.randrange(10 ** 6)) == "ok"
        sessions = []
        for s in range(nsess):
            w = rng.random() < 0.7
            ops = []
            if w:
                for j in range(rng.randint(1, 3)):
                    key = f"p{p}s{s}j{j}" if rng.random() < 0.9 else "shared"
                    ops.append(("put", key, U.pat(rng.randrange(256), rng.choice([1, 8, 40, 3000])).hex()))
            ops.append(("readall",))
            fault = rng.choice([None, None, None, "body", "encoder"]) if w else rng.choice([None, None, "body"])
            sessions.append((w, ops, fault))
        scripts.append(sessions)
    for p in range(nproc):
        W.send(p, cmd="script", h="f", seed=rng.randrange(10 ** 6), sessions=scripts[p])
    results = []
    for p in range(nproc):
        r = W.recv(p)
        if not r.startswith("script:"):
            viol.append(("C04:free:worker-error", f"worker {p}: {r}")); results.append([])
        else:
            results.append(json.loads(r[7:]))
    logs = [json.loads(W.call(p, cmd="log", h="f")[4:]) for p in range(nproc)]
    # --- oracle 1: writer exclusion from the event log: [begin_write .. end_write] of a writer overlaps nothing
    iv = []
    for p, lg in enumerate(logs):
        start = None
        for ev, h, t in lg:
            if ev in ("bw", "br"):
                start = (ev, t)
            elif ev in ("ew", "er") and start:
                iv.append((start[1], t, start[0] == "bw", p)); start = None
    iv.sort()
    for i in range(len(iv)):
        for j in range(i + 1, len(iv)):
            a, b = iv[i], iv[j]
            if b[0] < a[1] and (a[2] or b[2]) and a[3] != b[3]:
                viol.append(("C04:free:sessions-overlap",
                             f"process {a[3]} ({'writer' if a[2] else 'reader'}) had the file open until {a[1]:.4f} while process {b[3]} "
                             f"({'writer' if b[2] else 'reader'}) opened it at {b[0]:.4f}: a writer is not exclusive"))
                break
        else:
            continue
        break
    # --- oracle 2: every acknowledged record present and exact; readers saw only complete exact records
    data = open(real, "rb").read()
    recs, torn = U.parse_file(data, 32)
    disk = {}
    for k, v, _, _ in recs:
        if k in disk:
            viol.append(("C04:free:duplicate-key-on-disk", f"key {k!r} stored twice"))
        disk[k.decode()] = v.hex()
    if torn:
        viol.append(("C04:free:torn-tail", "the final file ends in an incomplete block"))
    written = {}
    for p in range(nproc):
        for s, rec in enumerate(results[p]):
            if rec.get("exc") and str(rec["exc"]).startswith("unexpected"):
                viol.append(("C04:free:unexpected-exception", f"process {p} session {s}: {rec['exc']}"))
            vals = {op[1]: op[2] for op in scripts[p][s][1] if op[0] == "put"}
            for k in rec["acked"]:
                written.setdefault(k, []).append(vals[k])
                if k not in disk:
                    viol.append(("C04:free:acknowledged-record-lost", f"put({k!r}) of process {p} session {s} returned normally but the record is not in the library"))
                elif disk[k] not in written[k]:
                    viol.append(("C04:free:record-altered", f"record {k!r} on disk differs from every value put for it"))
    allvals = {}
    for p in range(nproc):
        for s in scripts[p]:
            for op in s[1]:
                if op[0] == "put":
                    allvals.setdefault(op[1], set()).add(op[2])
    for p in range(nproc):
        for s, rec in enumerate(results[p]):
            for k, vhex in rec["reads"]:
                if vhex not in allvals.get(k, ()):
                    viol.append(("C04:free:reader-saw-incomplete-record", f"process {p} session {s} read {k!r} as bytes nobody put ({len(vhex)//2} B)"))
                elif k in disk and disk[k] != vhex:
                    viol.append(("C04:free:reader-saw-other-bytes", f"process {p} session {s} read {k!r} with bytes that differ from the stored record"))
    return viol, sum(len(r) for r in results), len(iv)
