"""C04 part 2: real OS processes.

(a) stepped schedules: persistent worker processes execute session steps one command at a time under the
    coordinator's control (deterministic interleavings at session-step granularity); outcomes (incl. refused
    acquires = timeouts) and the final file are compared with the lock/process transition system inside Coq.
(b) free-running schedules: workers run scripts of sessions on their own with random delays injected into
    begin/flush/end steps, exceptions injected into bodies / encoders / backend writes, and differently
    spelled paths to the same file; an oracle checks writer exclusion from the event log (CLOCK_MONOTONIC is
    system-wide), that every acknowledged record is present and exact, that readers saw only complete exact
    records, and that the lock can be taken afterwards.
"""
import os, sys, json, subprocess, time, random, struct
import vlib
import ukv_common as U

WORKER = r'''
import sys, os, json, time, random
sys.path.insert(0, os.environ["MOLLI_REPO_DIR"])
from io import UnsupportedOperation
import struct
from molli.storage import Collection, UkvCollectionBackend
cols, cms, log = {}, {}, []
class Boom(Exception): pass
def cls(e):
    if isinstance(e, TimeoutError): return "timeout"
    if isinstance(e, UnsupportedOperation): return "EUnsupported"
    if isinstance(e, KeyError): return "EKey"
    if isinstance(e, struct.error): return "EStruct"
    return "other:" + type(e).__name__
def instrument(h, c, delays, rng):
    be = c._backend
    def wrap(name, before=None, after=None):
        orig = getattr(be, name)
        def w(*a, **k):
            d = delays.get(name, 0)
            if before: log.append((before, h, time.monotonic()))
            if d and name != "end_write": time.sleep(rng.random() * d)
            try:
                return orig(*a, **k)
            finally:
                if d and name == "end_write": time.sleep(rng.random() * d)
                if after: log.append((after, h, time.monotonic()))
        setattr(be, name, w)
    wrap("begin_write", before="bw"); wrap("begin_read", before="br")
    wrap("end_write", after="ew"); wrap("end_read", after="er")
    if delays.get("flush"): wrap("flush")
def do(m):
    c = m["cmd"]
    if c == "new":
        if m.get("slow_look"):
            # this process is descheduled right after it looked whether the library file exists (a loaded machine)
            import pathlib
            real = os.path.realpath(m["path"]); looks = []
            def slow(orig):
                def f(self, *a, **k):
                    r = orig(self, *a, **k)
                    try:
                        hit = os.path.realpath(os.fspath(self)) == real
                    except TypeError:
                        hit = False
                    if hit:
                        looks.append(1)
                        if len(looks) == m.get("look_index", 1):
                            open(m["marker"], "w").write("x"); time.sleep(m["slow_look"])
                    return r
                return f
            pathlib.Path.is_file = slow(pathlib.Path.is_file); pathlib.Path.exists = slow(pathlib.Path.exists)
            _oi, _oe = os.path.isfile, os.path.exists
            os.path.isfile = lambda p_, _f=slow(lambda s_: _oi(s_)): _f(p_)
        col = Collection(m["path"], UkvCollectionBackend, readonly=False, bufsize=m.get("bufsize", -1))
        cols[m["h"]] = col
        instrument(m["h"], col, m.get("delays", {}), random.Random(m.get("seed", 0)))
        if m.get("slow_look"):
            return "ok:%d" % len(looks)
        return "ok"
    col = cols[m["h"]]
    if c == "enter":
        cm = col.writing(timeout=m["timeout"]) if m["w"] else col.reading(timeout=m["timeout"])
        cm.__enter__(); cms[m["h"]] = cm; return "ok"
    if c == "exit":
        cm = cms.pop(m["h"])
        if m.get("exc"):
            try:
                cm.__exit__(Boom, Boom("body"), None)
            except Boom:
                pass
        else:
            cm.__exit__(None, None, None)
        return "ok"
    if c == "put":
        col[m["k"]] = bytes.fromhex(m["v"]); return "ok"
    if c == "get":
        return "val:" + col[m["k"]].hex()
    if c == "keys":
        return "keys:" + json.dumps(sorted(col.keys()))
    if c == "script":
        # free-running: a list of sessions, each (w, ops, fault)
        rng = random.Random(m["seed"]); out = []
        for si, (w, ops, fault) in enumerate(m["sessions"]):
            rec = {"w": w, "acked": [], "reads": [], "exc": None}
            try:
                with (col.writing(timeout=20) if w else col.reading(timeout=20)):
                    rec["t_in"] = time.monotonic()
                    for op in ops:
                        if op[0] == "put":
                            if fault == "encoder" and op is ops[-1]: raise Boom("encoder")
                            try:
                                col[op[1]] = bytes.fromhex(op[2]); rec["acked"].append([op[1], op[2]])
                            except KeyError:
                                rec.setdefault("dups", []).append(op[1])
                        elif op[0] == "readall":
                            for k in sorted(col.keys()):
                                rec["reads"].append((k, col[k].hex()))
                        time.sleep(rng.random() * 0.004)
                    if fault == "body": raise Boom("body")
                    rec["t_out"] = time.monotonic()
            except Boom as e:
                rec["exc"] = str(e)
            except Exception as e:
                rec["exc"] = "unexpected:" + type(e).__name__ + ":" + str(e)[:80]
            out.append(rec)
        return "script:" + json.dumps(out)
    if c == "log":
        return "log:" + json.dumps(log)
    return "?"
for line in sys.stdin:
    line = line.strip()
    if not line: break
    try:
        r = do(json.loads(line))
    except BaseException as e:
        r = "err:" + cls(e)
    print(r, flush=True)
'''


HUNG = []      # descriptions of worker calls that never answered (the worker was killed): a session that does not proceed


class Hanging(Exception):
    """several session calls never answered: the multi-process part is abandoned, the hangs are the finding"""


def reply(pr, limit, what=""):
    """One reply line of a worker process, or "err:hung" when none comes within `limit` seconds (the worker is killed:
    a session that neither proceeds nor times out would otherwise hang the whole check)."""
    import select
    r, _, _ = select.select([pr.stdout], [], [], limit)
    if not r:
        HUNG.append(what)
        try:
            pr.kill()
        except Exception:
            pass
        if len(HUNG) >= 3:
            raise Hanging(what)
        return "err:hung"
    return pr.stdout.readline().strip()


def limit_of(m):
    """how long a reply to message m may take: the timeout the session was asked to honour, plus a generous margin"""
    t = m.get("timeout")
    return (t if isinstance(t, (int, float)) else 0) + (600 if m.get("cmd") == "script" else 20)


class Workers:
    def __init__(self, ctx, n):
        p = os.path.join(ctx.sub("c04"), "worker.py")
        open(p, "w").write(WORKER)
        self.env = dict(os.environ, MOLLI_REPO_DIR=vlib.REPO)
        self.path = p
        self.ps = [subprocess.Popen([vlib.PY, p], stdin=subprocess.PIPE, stdout=subprocess.PIPE, text=True, env=self.env) for _ in range(n)]
        self.last = [{} for _ in range(n)]

    def send(self, wk, **m):
        self.last[wk] = m
        try:
            self.ps[wk].stdin.write(json.dumps(m) + "\n"); self.ps[wk].stdin.flush()
        except (BrokenPipeError, ValueError):
            pass

    def recv(self, wk):
        m = self.last[wk]
        r = reply(self.ps[wk], limit_of(m), f"worker {wk}: {m.get('cmd')} {'w' if m.get('w') else 'r' if 'w' in m else ''} timeout={m.get('timeout')}")
        if r == "err:hung" or (r == "" and self.ps[wk].poll() is not None):
            # the worker is gone: a new one takes its place (its collections are lost; the schedule is judged as it stands)
            self.ps[wk] = subprocess.Popen([vlib.PY, self.path], stdin=subprocess.PIPE, stdout=subprocess.PIPE, text=True, env=self.env)
            return r or "err:worker-died"
        return r

    def call(self, wk, **m):
        self.send(wk, **m)
        return self.recv(wk)

    def close(self):
        for p in self.ps:
            try:
                p.stdin.write("\n"); p.stdin.flush(); p.wait(timeout=5)
            except Exception:
                p.kill()


# ------------------------------------------------------------------ (a) stepped schedules
def gen_schedule(rng, nproc):
    """Each process runs 1..2 sessions (w/r, 1..2 ops); actions are interleaved at random."""
    keys = ["a", "b", "c", "d"]
    per = []
    for p in range(nproc):
        acts = []
        for _ in range(rng.randint(1, 2)):
            w = rng.random() < 0.6
            acts.append(("enter", w))
            for _ in range(rng.randint(1, 2)):
                r = rng.random()
                if r < 0.5:
                    acts.append(("put", rng.choice(keys), U.Val(rng.randrange(256), rng.choice([0, 1, 5]))))
                elif r < 0.8:
                    acts.append(("get", rng.choice(keys)))
                else:
                    acts.append(("keys",))
            acts.append(("exit",))
        per.append(acts)
    order = [p for p in range(nproc) for _ in per[p]]
    rng.shuffle(order)
    idx = [0] * nproc
    sched = []
    for p in order:
        sched.append((p, per[p][idx[p]])); idx[p] += 1
    return sched


def run_schedule(W, path, sched, nproc, timeout=0.15):
    """Adaptive execution: after a refused enter the rest of that session is skipped.  Returns the executed macro
    labels (Coq terms), the observed outcomes (Coq terms) and the final file."""
    from molli.storage.ukvfile import UKVFile
    if os.path.exists(path):
        os.remove(path)
    UKVFile(path, "x").close()
    init = open(path, "rb").read()
    for p in range(nproc):
        assert W.call(p, cmd="new", h=path, path=path) == "ok"
    in_sess = [False] * nproc
    skipping = [False] * nproc
    labels, outs = [], []
    for p, a in sched:
        k = a[0]
        if k == "enter":
            r = W.call(p, cmd="enter", h=path, w=a[1], timeout=timeout)
            labels.append(f"MEnter {p} {p} {'true' if a[1] else 'false'}")
            if r == "ok":
                in_sess[p] = True; skipping[p] = False; outs.append("Done ROk")
            else:
                skipping[p] = True; outs.append("Refused" if r == "err:timeout" else f"Done ROther (* {r} *)")
            continue
        if skipping[p]:
            continue
        if k == "exit":
            r = W.call(p, cmd="exit", h=path); in_sess[p] = False
            labels.append(f"MExit {p}"); outs.append("Done ROk" if r == "ok" else f"Done ROther (* {r} *)")
        elif k == "put":
            r = W.call(p, cmd="put", h=path, k=a[1], v=a[2].b.hex())
            labels.append(f"MDo {p} (Put {p} {U.cq_bytes(a[1].encode())} {a[2].coq()})")
            outs.append("Done ROk" if r == "ok" else f"Done (RErr {r[4:]})" if r.startswith("err:E") else f"Done ROther (* {r} *)")
        elif k == "get":
            r = W.call(p, cmd="get", h=path, k=a[1])
            labels.append(f"MDo {p} (Get {p} {U.cq_bytes(a[1].encode())})")
            outs.append(f"Done (RVal {U.cq_bytes(bytes.fromhex(r[4:]))})" if r.startswith("val:") else
                        f"Done (RErr {r[4:]})" if r.startswith("err:E") else f"Done ROther (* {r} *)")
        else:
            r = W.call(p, cmd="keys", h=path)
            labels.append(f"MDo {p} (Keys {p})")
            outs.append("Done (RKeys [" + ";".join(U.cq_bytes(x.encode()) for x in json.loads(r[5:])) + "])" if r.startswith("keys:")
                        else f"Done ROther (* {r} *)")
    for p in range(nproc):
        if in_sess[p]:
            W.call(p, cmd="exit", h=path); labels.append(f"MExit {p}"); outs.append("Done ROk")
    final = open(path, "rb").read()
    bof = len(init)
    case = (f"(({U.bytes_coq(init, bof)}, {nproc}%nat, [{'; '.join(labels)}]), ([{'; '.join(outs)}], {U.bytes_coq(final, bof)}))")
    return case, labels, outs


HEADER = ("From Coq Require Import NArith List.\nImport ListNotations.\n"
          "From Molli Require Import Model.UKV Model.Session.\nOpen Scope N_scope.\n")


# ------------------------------------------------------------------ (b) free-running schedules
def free_run(ctx, W, nproc, nsess, aliases):
    """Returns a list of (signature, text) violations."""
    rng = ctx.rng
    work = ctx.sub("c04free")
    real = os.path.join(work, "lib.ukv")
    from molli.storage.ukvfile import UKVFile
    if os.path.exists(real):
        os.remove(real)
    UKVFile(real, "x").close()
    spell = [real]
    if aliases:
        os.makedirs(os.path.join(work, "sub"), exist_ok=True)
        link = os.path.join(work, "lnk")
        if not os.path.islink(link):
            os.symlink(work, link)
        spell += [os.path.join(work, "sub", "..", "lib.ukv"), os.path.join(link, "lib.ukv")]
    viol = []
    scripts = []
    for p in range(nproc):
        path = spell[p % len(spell)]
        delays = {m: rng.choice([0, 0.02, 0.05]) for m in ("begin_write", "end_write", "flush", "begin_read")}
        assert W.call(p, cmd="new", h="f", path=path, delays=delays, seed=rng.randrange(10 ** 6)) == "ok"
        sessions = []
        for s in range(nsess):
            w = rng.random() < 0.7
            ops = []
            if w:
                for j in range(rng.randint(1, 3)):
                    key = f"p{p}s{s}j{j}" if rng.random() < 0.9 else "shared"
                    ops.append(("put", key, U.pat(rng.randrange(256), rng.choice([1, 8, 40, 3000])).hex()))
            ops.append(("readall",))
            fault = rng.choice([None, None, None, "body", "encoder"]) if w else rng.choice([None, None, "body"])
            sessions.append((w, ops, fault))
        scripts.append(sessions)
    for p in range(nproc):
        W.send(p, cmd="script", h="f", seed=rng.randrange(10 ** 6), sessions=scripts[p])
    results = []
    for p in range(nproc):
        r = W.recv(p)
        if not r.startswith("script:"):
            viol.append(("C04:free:worker-error", f"worker {p}: {r}")); results.append([])
        else:
            results.append(json.loads(r[7:]))
    logs = [json.loads(W.call(p, cmd="log", h="f")[4:]) for p in range(nproc)]
    # --- oracle 1: writer exclusion from the event log: [begin_write .. end_write] of a writer overlaps nothing
    iv = []
    for p, lg in enumerate(logs):
        start = None
        for ev, h, t in lg:
            if ev in ("bw", "br"):
                start = (ev, t)
            elif ev in ("ew", "er") and start:
                iv.append((start[1], t, start[0] == "bw", p)); start = None
    iv.sort()
    for i in range(len(iv)):
        for j in range(i + 1, len(iv)):
            a, b = iv[i], iv[j]
            if b[0] < a[1] and (a[2] or b[2]) and a[3] != b[3]:
                viol.append(("C04:free:sessions-overlap",
                             f"process {a[3]} ({'writer' if a[2] else 'reader'}) had the file open until {a[1]:.4f} while process {b[3]} "
                             f"({'writer' if b[2] else 'reader'}) opened it at {b[0]:.4f}: a writer is not exclusive"))
                break
        else:
            continue
        break
    # --- oracle 2: every acknowledged record present and exact; readers saw only complete exact records
    data = open(real, "rb").read()
    recs, torn = U.parse_file(data, 32)
    disk = {}
    for k, v, _, _ in recs:
        if k in disk:
            viol.append(("C04:free:duplicate-key-on-disk", f"key {k!r} stored twice"))
        disk[k.decode()] = v.hex()
    if torn:
        viol.append(("C04:free:torn-tail", "the final file ends in an incomplete block"))
    written = {}
    for p in range(nproc):
        for s, rec in enumerate(results[p]):
            if rec.get("exc") and str(rec["exc"]).startswith("unexpected"):
                viol.append(("C04:free:unexpected-exception", f"process {p} session {s}: {rec['exc']}"))
            for k, vhex in rec["acked"]:          # the value of the put that was acknowledged (a session may try a key twice)
                written.setdefault(k, []).append(vhex)
                if k not in disk:
                    viol.append(("C04:free:acknowledged-record-lost", f"put({k!r}) of process {p} session {s} returned normally but the record is not in the library"))
                elif disk[k] not in written[k]:
                    viol.append(("C04:free:record-altered", f"record {k!r} on disk differs from every value put for it"))
    allvals = {}
    for p in range(nproc):
        for s in scripts[p]:
            for op in s[1]:
                if op[0] == "put":
                    allvals.setdefault(op[1], set()).add(op[2])
    for p in range(nproc):
        for s, rec in enumerate(results[p]):
            for k, vhex in rec["reads"]:
                if vhex not in allvals.get(k, ()):
                    viol.append(("C04:free:reader-saw-incomplete-record", f"process {p} session {s} read {k!r} as bytes nobody put ({len(vhex)//2} B)"))
                elif k in disk and disk[k] != vhex:
                    viol.append(("C04:free:reader-saw-other-bytes", f"process {p} session {s} read {k!r} with bytes that differ from the stored record"))
    return viol, sum(len(r) for r in results), len(iv)


# ------------------------------------------------------------------ (c) schedules with a process DEATH
DHEADER = ("From Coq Require Import NArith List.\nImport ListNotations.\n"
           "From Molli Require Import Model.UKV Model.Session Model.SessionDeath.\nOpen Scope N_scope.\n")


def _out_put(r):
    return "Done ROk" if r == "ok" else f"Done (RErr {r[4:]})" if r.startswith("err:E") else f"Done ROther (* {r} *)"


def _out_get(r):
    return (f"Done (RVal {U.cq_bytes(bytes.fromhex(r[4:]))})" if r.startswith("val:") and len(r) <= 4 + 48 else
            f"Done (RVal {U._name_val(bytes.fromhex(r[4:]))})" if r.startswith("val:") else
            f"Done (RErr {r[4:]})" if r.startswith("err:E") else f"Done ROther (* {r} *)")


def _out_keys(r):
    return ("Done (RKeys [" + ";".join(U.cq_bytes(x.encode()) for x in json.loads(r[5:])) + "])" if r.startswith("keys:")
            else f"Done ROther (* {r} *)")


def death_schedules(ctx, n_scen):
    """Process 0 is killed with SIGKILL: inside a writing session after k puts (what reached the file is whatever the
    buffered stream had handed to the OS: an in-order prefix, observed as the file length and given to the model as
    DMDie's n), inside a reading session, or outside any session.  Processes 1 (reader) and 2 (writer) then go on.
    Returns (coq cases, metas, violations): outcomes and the final file are compared with Model/SessionDeath.v inside
    Coq; the oracle judges the implementation alone."""
    from molli.storage.ukvfile import UKVFile
    rng = ctx.rng
    work = ctx.sub("c04death")
    pw = os.path.join(work, "worker.py")
    open(pw, "w").write(WORKER)
    env = dict(os.environ, MOLLI_REPO_DIR=vlib.REPO)

    def spawn():
        return subprocess.Popen([vlib.PY, pw], stdin=subprocess.PIPE, stdout=subprocess.PIPE, text=True, env=env)

    def call(pr, **m):
        try:
            pr.stdin.write(json.dumps(m) + "\n"); pr.stdin.flush()
        except (BrokenPipeError, ValueError):
            return "err:worker-died"
        return reply(pr, limit_of(m), f"death schedule: {m.get('cmd')} timeout={m.get('timeout')}")
    others = [spawn(), spawn()]
    nxt = spawn()
    cases, metas, viol = [], [], []
    sizes = [0, 3, 40, 700, 3000, 5000, 9000, 20000]
    try:
        for sc in range(n_scen):
            victim, nxt = nxt, spawn()
            path = os.path.join(work, f"d{sc}.ukv")
            if os.path.exists(path):
                os.remove(path)
            UKVFile(path, "x").close()
            init = open(path, "rb").read()
            bof = len(init)
            procs = [victim] + others
            for q in procs:
                assert call(q, cmd="new", h=path, path=path) == "ok"
            labels, outs = [], []
            kind = ("writer", "writer", "writer", "writer", "reader", "idle", "writer-empty")[sc % 7]
            committed = {}
            # a completed session of process 2 first (committed records), in most scenarios
            if sc % 3 != 2:
                assert call(others[1], cmd="enter", h=path, w=True, timeout=5.0) == "ok"
                labels.append("DM (MEnter 2 2 true)"); outs.append("Done ROk")
                for j in range(rng.randint(1, 2)):
                    k, v = f"c{j}", U.Val(rng.randrange(256), rng.choice(sizes[:6]))
                    r = call(others[1], cmd="put", h=path, k=k, v=v.b.hex())
                    labels.append(f"DM (MDo 2 (Put 2 {U.cq_bytes(k.encode())} {v.coq()}))"); outs.append(_out_put(r))
                    committed[k] = v.b
                call(others[1], cmd="exit", h=path); labels.append("DM (MExit 2)"); outs.append("Done ROk")
            size_committed = os.path.getsize(path)
            vputs = []
            if kind.startswith("writer"):
                r = call(victim, cmd="enter", h=path, w=True, timeout=5.0)
                labels.append("DM (MEnter 0 0 true)"); outs.append("Done ROk" if r == "ok" else f"Done ROther (* {r} *)")
                for j in range(0 if kind == "writer-empty" else rng.randint(1, 4)):
                    k, v = f"v{j}", U.Val(rng.randrange(256) if rng.random() < 0.8 else -1, rng.choice(sizes))
                    r = call(victim, cmd="put", h=path, k=k, v=v.b.hex())
                    labels.append(f"DM (MDo 0 (Put 0 {U.cq_bytes(k.encode())} {v.coq()}))"); outs.append(_out_put(r))
                    vputs.append((k, v.b))
            elif kind == "reader":
                r = call(victim, cmd="enter", h=path, w=False, timeout=5.0)
                labels.append("DM (MEnter 0 0 false)"); outs.append("Done ROk" if r == "ok" else f"Done ROther (* {r} *)")
                r = call(victim, cmd="keys", h=path); labels.append("DM (MDo 0 (Keys 0))"); outs.append(_out_keys(r))
            # another process tries to get in while the victim holds the lock: refused (times out)
            if kind != "idle" and sc % 2 == 0:
                r = call(others[0], cmd="enter", h=path, w=True, timeout=0.15)
                labels.append("DM (MEnter 1 1 true)")
                outs.append("Refused" if r == "err:timeout" else "Done ROk" if r == "ok" else f"Done ROther (* {r} *)")
                if r == "ok":
                    call(others[0], cmd="exit", h=path); labels.append("DM (MExit 1)"); outs.append("Done ROk")
            victim.kill(); victim.wait()
            n_obs = os.path.getsize(path)
            # Any shorter prefix (not below the committed image) is a legal crash image too -- the OS might have received
            # less.  Half of the writer deaths are cut further, at the adversarial offsets: inside a block header, inside
            # a key, 1..5 bytes before the end of a record.
            if kind == "writer" and sc % 2 == 1 and n_obs > size_committed:
                cand, pos = [], size_committed
                for k, v in vputs:
                    end = pos + 5 + len(k) + len(v)
                    cand += [pos + d for d in (1, 2, 3, 4)] + [pos + 5 + max(0, len(k) - 1)] + [end - d for d in (1, 2, 3, 4, 5)]
                    pos = end
                cand = sorted({c for c in cand if size_committed <= c <= n_obs})
                if cand:
                    n_obs = cand[(sc // 2) % len(cand)] if sc % 4 == 1 else rng.choice(cand)
                    os.truncate(path, n_obs)
            labels.append(f"DMDie 0 {n_obs}"); outs.append("Done ROk")
            if n_obs < size_committed:
                viol.append(("C04:death:committed-bytes-lost", f"scenario {sc}: the file had {size_committed} bytes after the completed session, "
                             f"{n_obs} after the death of a later {kind}"))
            # a reader: sees the committed records and a prefix of the victim's, each exact
            r = call(others[0], cmd="enter", h=path, w=False, timeout=5.0)
            labels.append("DM (MEnter 1 1 false)"); outs.append("Done ROk" if r == "ok" else "Refused" if r == "err:timeout" else f"Done ROther (* {r} *)")
            shown = []
            if r == "ok":
                rk = call(others[0], cmd="keys", h=path); labels.append("DM (MDo 1 (Keys 1))"); outs.append(_out_keys(rk))
                listed = json.loads(rk[5:]) if rk.startswith("keys:") else []
                for k in committed:
                    if k not in listed:
                        viol.append(("C04:death:committed-record-lost", f"scenario {sc} ({kind}): record {k!r} of a completed session is not listed after another process died"))
                shown = [k for k, _ in vputs if k in listed]
                if shown != [k for k, _ in vputs][:len(shown)]:
                    viol.append(("C04:death:not-a-prefix", f"scenario {sc}: of the dead writer's records {[k for k, _ in vputs]} the library shows {shown}"))
                for k in listed:
                    rg = call(others[0], cmd="get", h=path, k=k)
                    labels.append(f"DM (MDo 1 (Get 1 {U.cq_bytes(k.encode())}))"); outs.append(_out_get(rg))
                    want = committed.get(k, dict(vputs).get(k))
                    if want is None or rg != "val:" + want.hex():
                        viol.append(("C04:death:reader-saw-incomplete-record", f"scenario {sc}: get({k!r}) after the death returned {rg[:60]}... "
                                     f"instead of the {len(want) if want is not None else '?'} bytes that were put"))
                for k, _ in vputs[len(shown):len(shown) + 1]:
                    rg = call(others[0], cmd="get", h=path, k=k)
                    labels.append(f"DM (MDo 1 (Get 1 {U.cq_bytes(k.encode())}))"); outs.append(_out_get(rg))
                call(others[0], cmd="exit", h=path); labels.append("DM (MExit 1)"); outs.append("Done ROk")
            else:
                viol.append(("C04:death:lock-not-released", f"scenario {sc}: after a {kind} process was killed a reader cannot enter: {r}"))
            # the next writer: re-puts the first record the dead writer did not complete, and a fresh one
            r = call(others[1], cmd="enter", h=path, w=True, timeout=5.0)
            labels.append("DM (MEnter 2 2 true)"); outs.append("Done ROk" if r == "ok" else "Refused" if r == "err:timeout" else f"Done ROther (* {r} *)")
            if r == "ok":
                todo = [(k, U.Val(rng.randrange(256), rng.choice(sizes[:5]))) for k, _ in vputs[len(shown):len(shown) + 1]]
                todo.append(("n0", U.Val(rng.randrange(256), rng.choice(sizes[:5]))))
                if shown:
                    todo.append((shown[0], U.Val(1, 2)))            # a record the dead writer completed: duplicate
                for k, v in todo:
                    rp = call(others[1], cmd="put", h=path, k=k, v=v.b.hex())
                    labels.append(f"DM (MDo 2 (Put 2 {U.cq_bytes(k.encode())} {v.coq()}))"); outs.append(_out_put(rp))
                    if rp == "ok":
                        rg = call(others[1], cmd="get", h=path, k=k)
                        labels.append(f"DM (MDo 2 (Get 2 {U.cq_bytes(k.encode())}))"); outs.append(_out_get(rg))
                        if rg != "val:" + v.b.hex():
                            viol.append(("C04:death:append-after-recovery-wrong", f"scenario {sc}: put({k!r}) after the recovery reads back as {rg[:60]}"))
                    elif k not in shown:
                        viol.append(("C04:death:append-after-recovery-refused", f"scenario {sc}: put({k!r}) after the recovery failed: {rp}"))
                call(others[1], cmd="exit", h=path); labels.append("DM (MExit 2)"); outs.append("Done ROk")
            else:
                viol.append(("C04:death:lock-not-released", f"scenario {sc}: after a {kind} process was killed a writer cannot enter: {r}"))
            final = open(path, "rb").read()
            recs, torn = U.parse_file(final, bof)
            if torn:
                viol.append(("C04:death:torn-tail-survives-writer", f"scenario {sc}: the file still ends in an incomplete block after a completed writing session"))
            cases.append(f"(({U.bytes_coq(init, bof)}, 3%nat, [{'; '.join(labels)}]), ([{'; '.join(outs)}], {U.bytes_coq(final, bof)}))")
            metas.append(dict(scenario=sc, kind=kind, labels=labels, outcomes=outs, cut=n_obs - size_committed,
                              session_bytes=sum(5 + len(k) + len(v) for k, v in vputs), shown=len(shown), puts=len(vputs)))
            os.remove(path)
    finally:
        for q in others + [nxt]:
            try:
                q.kill()
            except Exception:
                pass
    return cases, metas, viol


# ------------------------------------------------------------------ (d) two processes create the same fresh library
def creation_race(ctx, k):
    """Process A opens a library that does not exist yet and is slow right after it looked for the file (its j-th look,
    for every j it makes); meanwhile process B opens it too and completes a writing session; then A completes one.
    Both records must be there."""
    work = ctx.sub("c04create")
    pw = os.path.join(work, "worker.py")
    open(pw, "w").write(WORKER)
    env = dict(os.environ, MOLLI_REPO_DIR=vlib.REPO)
    viol, raced, j, nlooks = [], 0, 1, 1
    while j <= min(nlooks, 6):
        path = os.path.join(work, f"fresh{k}_{j}.ukv"); marker = os.path.join(work, f"looked{k}_{j}")
        for f in (path, marker):
            if os.path.exists(f):
                os.remove(f)
        A, B = [subprocess.Popen([vlib.PY, pw], stdin=subprocess.PIPE, stdout=subprocess.PIPE, text=True, env=env) for _ in range(2)]

        def send(pr, **m):
            pr.stdin.write(json.dumps(m) + "\n"); pr.stdin.flush()

        def call(pr, **m):
            send(pr, **m); return reply(pr, limit_of(m), f"creation race: {m.get('cmd')} timeout={m.get('timeout')}")
        try:
            send(A, cmd="new", h=path, path=path, slow_look=0.5, marker=marker, look_index=j)
            t0 = time.time()
            while not os.path.exists(marker) and time.time() - t0 < 5 and A.poll() is None:
                time.sleep(0.01)
            raced += os.path.exists(marker)
            rb = [call(B, cmd="new", h=path, path=path), call(B, cmd="enter", h=path, w=True, timeout=10.0),
                  call(B, cmd="put", h=path, k="from_B", v=(b"b" * 100).hex()), call(B, cmd="exit", h=path)]
            ra0 = reply(A, 60, "creation race: new")
            if ra0.startswith("ok:"):
                nlooks = max(nlooks, int(ra0[3:])); ra0 = "ok"
            ra = [ra0, call(A, cmd="enter", h=path, w=True, timeout=10.0),
                  call(A, cmd="put", h=path, k="from_A", v=(b"a" * 101).hex()), call(A, cmd="exit", h=path)]
            C = subprocess.Popen([vlib.PY, pw], stdin=subprocess.PIPE, stdout=subprocess.PIPE, text=True, env=env)
            try:
                rk = [call(C, cmd="new", h=path, path=path), call(C, cmd="enter", h=path, w=False, timeout=10.0), call(C, cmd="keys", h=path),
                      call(C, cmd="exit", h=path)]
            finally:
                C.kill()
            if os.environ.get("C04_DEBUG"): print("race:", j, nlooks, rb, ra, rk)
            if any(r != "ok" for r in rb + ra) or rk[1] != "ok" or not rk[2].startswith("keys:"):
                viol.append(("C04:create:session-failed", f"creation race (look {j}): B {rb}, A {ra}, reader {rk}"))
            else:
                keys = json.loads(rk[2][5:])
                for want in ("from_A", "from_B"):
                    if want not in keys:
                        viol.append(("C04:create:record-of-completed-session-lost",
                                     f"two processes opened the same not-yet-existing library; B completed a writing session (record 'from_B') while A "
                                     f"was between its look #{j} for the file and its creation; afterwards a fresh handle lists {keys}: {want!r} is lost"))
        finally:
            for q in (A, B):
                try:
                    q.kill()
                except Exception:
                    pass
        j += 1
    return viol, raced
