"""C12 -- joining fragments at attachment points builds exactly the intended molecule.

Theorems (coq/Props/C12.v, over R) are about the Fops-parametric model coq/Model/Join.v, which reuses C11's
rotation model (Model/Rot.v).  Tie H: random tree/ring fragments with exact rational (dyadic) coordinates are
driven through the REAL Structure.join / Molecule.join and molli.scripts.combine._ml_assemble; the product is read
back (atoms keyed by a uid carried in Atom.attrib, bonds, charge, multiplicity exactly; coordinates as exact
rationals via Fraction(float)) and compared INSIDE Coq with the same model run over Q (function `check` of
Model/Join.v, tolerance 1e-8 stated there), by vm_compute.  Every case is run twice under different np.random
states; the two results must coincide bit for bit.
Oracle (implementation alone): atom/bond sets, internal distances and signed volumes of each fragment, new bond
length and direction (and B facing A), charge/mult, sources unchanged (deep snapshot incl. object identities and
parents), product made of new objects, determinism.
"""
import math, json, random, sys, types, inspect
from fractions import Fraction as Fr
import vlib
from vlib import cq_list, cq_Q, cq_Z, cq_opt, cq_bool
from c11 import qsqrt, shape_violation, quat_matrix, pyth_vec

HEADER = ("From Coq Require Import List ZArith QArith PArith.\nImport ListNotations.\n"
          "From Molli Require Import Common.Field3 Model.Rot Model.Join.\n")
GRID = 1024                      # coordinates live on the 2^-10 grid: exact in binary64 and small in Q
JOIN_TOL = Fr(1, 10 ** 6)        # tol=1e-6 passed by join to rotation_matrix_from_vectors
ORACLE_EPS = 1e-6
ELEMENTS = ["H", "C", "N", "O", "F", "Si", "P", "S", "Cl", "Br", "B", "Li", "Unknown"]
KNOWN_MULT0 = "C12:mult:zero-becomes-one"


def np_():
    import numpy as np
    return np


def ml_():
    import molli as ml
    return ml


def combine_mod():
    """molli.scripts.combine imports molli.external.openbabel at module level, which raises when the optional
    OpenBabel bindings are absent (as here).  _ml_assemble itself never touches it: stub the module name."""
    try:
        import molli.external.openbabel  # noqa
    except ImportError:
        import molli.external as ext
        stub = types.ModuleType("molli.external.openbabel")
        sys.modules["molli.external.openbabel"] = stub
        ext.openbabel = stub
    from molli.scripts import combine
    return combine


# ------------------------------------------------------------------ fragment descriptions (pure data)
def rnd_coord(rng, span=4):
    return [Fr(rng.randint(-span * GRID, span * GRID), GRID) for _ in range(3)]


def snap(x):
    return Fr(round(Fr(x) * GRID), GRID)


def gen_frag(rng, uid0, n_ap=1, n_min=1, n_max=7, ap_typed=None):
    """A connected fragment: a random tree over `n` heavy/other atoms, optional ring closures, and `n_ap` attachment
    atoms, each a leaf bonded to any atom of the body; atom order shuffled; random rational pose.
    Returns dict(atoms=[{uid, el, iso, label, atype, stereo, geom, fc, fs, extra}], bonds=[{i, j, label, btype,
    stereo, forder}], coords=[[Fr]*3], aps=[positions], charge, mult)."""
    ml = ml_()
    n = rng.randint(n_min, n_max)
    body = list(range(n))
    bonds = []
    for k in range(1, n):
        bonds.append((rng.randrange(k), k))
    for _ in range(rng.choice([0, 0, 1, 2]) if n >= 3 else 0):          # ring closures
        i, j = rng.sample(body, 2)
        if (i, j) not in bonds and (j, i) not in bonds:
            bonds.append((i, j))
    aps = []
    for k in range(n_ap):
        aps.append(n + k)
        bonds.append((rng.randrange(n), n + k))
    tot = n + n_ap
    # distinct positions, then a random rational rotation + translation, snapped back to the grid
    while True:
        X = [rnd_coord(rng, 3) for _ in range(tot)]
        if len({tuple(x) for x in X}) == tot:
            break
    M = quat_matrix(rng)
    t = rnd_coord(rng, 6)
    X = [[snap(sum(x[k] * M[k][c] for k in range(3)) + t[c]) for c in range(3)] for x in X]
    if len({tuple(x) for x in X}) != tot:
        return gen_frag(rng, uid0, n_ap, n_min, n_max, ap_typed)
    atypes = [ml.AtomType.Regular] * 4 + [ml.AtomType.Aromatic, ml.AtomType.Dummy]
    atoms = []
    for i in range(tot):
        is_ap = i >= n
        typed = (rng.random() < 0.7) if ap_typed is None else ap_typed
        if is_ap and typed:
            el, at = "Unknown", ml.AtomType.AttachmentPoint
        elif is_ap:
            el, at = rng.choice(["H", "Cl", "Unknown"]), ml.AtomType.Regular     # any atom with exactly one bond may serve
        else:
            el, at = rng.choice(ELEMENTS), rng.choice(atypes)
        atoms.append(dict(el=el, iso=rng.choice([None, None, None, 2, 13]), label=rng.choice([None, "a", "b", "AP1", ""]),
                          atype=at.name, stereo=rng.choice(list(ml.AtomStereo)).name, geom=rng.choice(list(ml.AtomGeom)).name,
                          fc=rng.choice([0, 0, 0, 1, -1]), fs=rng.choice([0, 0, 1]), extra=rng.choice([None, "x", 7])))
    bl = []
    for (i, j) in bonds:
        if rng.random() < 0.5:
            i, j = j, i
        bl.append(dict(i=i, j=j, label=rng.choice([None, None, "r"]),
                       btype=rng.choice(["Single", "Single", "Double", "Aromatic", "Triple", "FractionalOrder"]),
                       stereo=rng.choice(list(ml.BondStereo)).name, forder=rng.choice([1.0, 1.0, 1.5, 2.0])))
    # shuffle the atom order (the attachment point may be anywhere in the list), and the bond order
    perm = list(range(tot))
    rng.shuffle(perm)                      # new position p holds old atom perm[p]
    inv = {old: new for new, old in enumerate(perm)}
    atoms = [atoms[perm[p]] for p in range(tot)]
    X = [X[perm[p]] for p in range(tot)]
    for b in bl:
        b["i"], b["j"] = inv[b["i"]], inv[b["j"]]
    rng.shuffle(bl)
    for p, a in enumerate(atoms):
        a["uid"] = uid0 + p
    return dict(atoms=atoms, bonds=bl, coords=X, aps=sorted(inv[a] for a in aps),
                charge=rng.choice([0, 0, 1, -1, 2, -2]), mult=rng.choice([1, 1, 1, 2, 3]))


def neighbour_of(fr, p):
    """position of the first-listed bond partner of atom p"""
    for b in fr["bonds"]:
        if b["i"] == p:
            return b["j"]
        if b["j"] == p:
            return b["i"]
    return None


def pythagorize(rng, fr, p):
    """Re-place atom p at its neighbour + an integer vector with integer norm / 2^k (length 0.75 .. 1.5): the
    attachment vector then has a rational norm, which keeps the numbers Coq has to reduce small.  Directions are the
    rational points of the sphere with small height: dense enough to count as general position."""
    r = neighbour_of(fr, p)
    if r is None:
        return False
    w = pyth_vec(rng)
    n = math.isqrt(sum(x * x for x in w))
    k = 1
    while n / k > 1.5:
        k *= 2
    new = [fr["coords"][r][c] + Fr(w[c], k) for c in range(3)]
    if any(tuple(new) == tuple(x) for i, x in enumerate(fr["coords"]) if i != p):
        return False
    fr["coords"][p] = new
    return True


def force_direction(rng, frA, pA, frB, pB, k):
    """Move B's attachment atom so that v2 = k * v1 exactly (k > 0: rotation v2 -> -v1 is a half turn, the
    antiparallel branch; k < 0: v2 already equals -v1 direction, the identity)."""
    rA, rB = neighbour_of(frA, pA), neighbour_of(frB, pB)
    v1 = [frA["coords"][pA][c] - frA["coords"][rA][c] for c in range(3)]
    new = [frB["coords"][rB][c] + k * v1[c] for c in range(3)]
    if any(tuple(new) == tuple(x) for i, x in enumerate(frB["coords"]) if i != pB):
        return False
    frB["coords"][pB] = new
    return True


def axis_align(frA, pA, axis, length):
    """Put A's attachment atom on a coordinate axis from its neighbour (exercises the ties of the deterministic
    orthogonal-vector choice)."""
    rA = neighbour_of(frA, pA)
    new = [frA["coords"][rA][c] + (length if c == axis else 0) for c in range(3)]
    if any(tuple(new) == tuple(x) for i, x in enumerate(frA["coords"]) if i != pA):
        return False
    frA["coords"][pA] = new
    return True


# ------------------------------------------------------------------ building molli objects
def build(fr, cls_name="Molecule"):
    ml, np = ml_(), np_()
    from molli.chem import Atom, Bond
    atoms = []
    for a in fr["atoms"]:
        attrib = {"uid": a["uid"]}
        if a["extra"] is not None:
            attrib["extra"] = a["extra"]
        atoms.append(Atom(a["el"], isotope=a["iso"], label=a["label"], atype=ml.AtomType[a["atype"]],
                          stereo=ml.AtomStereo[a["stereo"]], geom=ml.AtomGeom[a["geom"]], formal_charge=a["fc"],
                          formal_spin=a["fs"], attrib=attrib))
    cls = getattr(ml, cls_name)
    m = cls(atoms, charge=fr["charge"], mult=fr["mult"], name="frag%d" % fr["atoms"][0]["uid"])
    m.charge, m.mult = fr["charge"], fr["mult"]          # the constructor stores `mult or 1`; plain attributes
    m.coords = np.array([[float(x) for x in r] for r in fr["coords"]], dtype=float)
    for b in fr["bonds"]:
        m.append_bond(Bond(atoms[b["i"]], atoms[b["j"]], label=b["label"], btype=ml.BondType[b["btype"]],
                           stereo=ml.BondStereo[b["stereo"]], f_order=b["forder"]))
    return m


def snapshot(m):
    """Everything observable about a structure, including object identities and parents."""
    np = np_()
    return (id(m), type(m).__name__, m.name, m.charge, m.mult,
            tuple((id(a), int(a.element), a.isotope, a.label, a.atype.value, a.stereo.value, a.geom.value,
                   a.formal_charge, a.formal_spin, repr(sorted(a.attrib.items(), key=repr)), id(a.attrib), id(a.parent))
                  for a in m.atoms),
            tuple((id(b), id(b.a1), id(b.a2), b.label, b.btype.value, b.stereo.value, b.f_order,
                   repr(sorted(b.attrib.items(), key=repr)), id(b.parent)) for b in m.bonds),
            np.asarray(m.coords, dtype=float).tobytes(), np.asarray(m.coords).shape,
            np.asarray(getattr(m, "atomic_charges", []), dtype=float).tobytes())


# ------------------------------------------------------------------ encodings
class Intern:
    def __init__(self):
        self.d = {}

    def __call__(self, x):
        if x is None:
            return -1
        return self.d.setdefault(repr(x), len(self.d))


def atom_data_live(a, it):
    extra = {k: v for k, v in a.attrib.items() if k != "uid"}
    return [int(a.element), -1 if a.isotope is None else int(a.isotope), it(a.label), int(a.atype.value), int(a.stereo.value),
            int(a.geom.value), int(a.formal_charge), int(a.formal_spin), it(sorted(extra.items(), key=repr) or None)]


def atom_data_desc(a, it):
    ml = ml_()
    extra = {} if a["extra"] is None else {"extra": a["extra"]}
    return [int(ml.Element.get(a["el"])), -1 if a["iso"] is None else a["iso"], it(a["label"]), int(ml.AtomType[a["atype"]].value),
            int(ml.AtomStereo[a["stereo"]].value), int(ml.AtomGeom[a["geom"]].value), a["fc"], a["fs"],
            it(sorted(extra.items(), key=repr) or None)]


def bond_data(label, btype_v, stereo_v, forder, attrib, it):
    n, d = float(forder).as_integer_ratio()
    return [it(label), int(btype_v), int(stereo_v), n, d, it(sorted(attrib.items(), key=repr) or None)]


def zl(l):
    return cq_list(cq_Z(int(x)) for x in l)


def posq(n):
    return f"{int(n)}%positive"


def vq(v):
    return "(" + ", ".join(cq_Q(Fr(x)) for x in v) + ")"


def frag_term(fr, it):
    ml = ml_()
    ats = cq_list(f"(mkAtom {posq(a['uid'])} {cq_bool(a['atype'] == 'AttachmentPoint')} {zl(atom_data_desc(a, it))})" for a in fr["atoms"])
    bs = cq_list("(mkBond %s %s %s)" % (posq(fr["atoms"][b["i"]]["uid"]), posq(fr["atoms"][b["j"]]["uid"]),
                                        zl(bond_data(b["label"], ml.BondType[b["btype"]].value, ml.BondStereo[b["stereo"]].value, b["forder"], {}, it)))
                 for b in fr["bonds"])
    return f"(mkFrag {ats} {bs} {cq_list(vq(r) for r in fr['coords'])} {cq_Z(fr['charge'])} {cq_Z(fr['mult'])})"


def observe(res, it):
    """(obs term, python view) of a product structure; None if a product atom cannot be identified."""
    np = np_()
    X = np.asarray(res.coords, dtype=float)
    if X.shape != (len(res.atoms), 3) or not np.isfinite(X).all():
        return None, None
    uid_of = {}
    atoms = []
    for k, a in enumerate(res.atoms):
        u = a.attrib.get("uid") if isinstance(a.attrib, dict) else None
        if not isinstance(u, int):
            return None, None
        uid_of[id(a)] = u
        atoms.append((u, a.atype.name == "AttachmentPoint", atom_data_live(a, it), [Fr(float(x)) for x in X[k]]))
    bonds = []
    for b in res.bonds:
        if id(b.a1) not in uid_of or id(b.a2) not in uid_of:
            return None, None
        bonds.append((uid_of[id(b.a1)], uid_of[id(b.a2)], bond_data(b.label, b.btype.value, b.stereo.value, b.f_order, b.attrib, it)))
    try:
        q, m = int(res.charge), int(res.mult)
        if q != res.charge or m != res.mult:
            return None, None
    except Exception:  # noqa
        return None, None
    term = ("(Some (mkObs %s %s %s %s))" % (
        cq_list(f"(mkAtom {posq(u)} {cq_bool(ap)} {zl(d)}, {vq(x)})" for u, ap, d, x in atoms),
        cq_list(f"(mkBond {posq(u)} {posq(v)} {zl(d)})" for u, v, d in bonds), cq_Z(q), cq_Z(m)))
    return term, dict(atoms=atoms, bonds=bonds, charge=q, mult=m, X=X)


# ------------------------------------------------------------------ the model's geometry in floats / fractions (witnesses only)
def fdot(a, b):
    return sum(x * y for x, y in zip(a, b))


def least_axis(b):
    ax, ay, az = (abs(x) for x in b)
    if ax <= ay:
        return (1, 0, 0) if ax <= az else (0, 0, 1)
    return (0, 1, 0) if ay <= az else (0, 0, 1)


def det_ort(b):
    e = least_axis(b)
    k = fdot(e, b)
    return [e[c] - k * b[c] for c in range(3)]


def witnesses(v1, v2):
    """n1, n2, |det_ort(-v1/n1)| as the model computes them (exact Fractions), and the branch."""
    n1, n2 = qsqrt(fdot(v1, v1)), qsqrt(fdot(v2, v2))
    b = [-x / n1 for x in v1]
    ort = det_ort(b)
    nort = qsqrt(fdot(ort, ort))
    c = fdot([x / n2 for x in v2], b)
    return n1, n2, nort, c


def rod(a, b):
    np = np_()
    c = float(np.dot(a, b))
    U = np.outer(a, b) - np.outer(b, a)
    return np.eye(3) + U + U @ U / (1 + c)


def ref_place(v1, v2, r2, d, XB, anti):
    """float rendering of Model/Join.v place_B with ov = det_ov and no twist (used only to measure the twist)."""
    np = np_()
    v1, v2 = np.array([float(x) for x in v1]), np.array([float(x) for x in v2])
    a = v2 / np.linalg.norm(v2)
    b = -v1 / np.linalg.norm(v1)
    if anti:
        o = np.array([float(x) for x in det_ort([Fr(float(x)) for x in b])])
        o = o / np.linalg.norm(o)
        R = rod(a, o) @ rod(o, b)
    else:
        R = rod(a, b)
    t = v1 * d / np.linalg.norm(v1)
    return (np.asarray(XB, dtype=float) - np.array([float(x) for x in r2])) @ R + t


def measure_twist(v1, Yref, Yobs):
    """(sin, cos) of the rotation about v1 (row action of rotation_matrix_from_axis) taking Yref to Yobs; None if
    every point is on the axis."""
    np = np_()
    u = np.array([float(x) for x in v1])
    u = u / np.linalg.norm(u)
    P = Yref - np.outer(Yref @ u, u)
    Q = Yobs - np.outer(Yobs @ u, u)
    if len(P) == 0:
        return None
    j = int(np.argmax((P * P).sum(axis=1)))
    p, q = P[j], Q[j]
    lp, lq = np.linalg.norm(p), np.linalg.norm(q)
    if lp < 1e-6 or lq < 1e-6:
        return None
    c = float(np.dot(p, q) / (lp * lq))
    s = float(-np.dot(u, np.cross(p, q)) / (lp * lq))
    n = math.hypot(s, c)
    return s / n, c / n


def wit_term(n1, n2, nort, sc):
    scq = "None" if sc is None else f"(Some ({cq_Q(Fr(sc[0]))}, {cq_Q(Fr(sc[1]))}))"
    return f"(mkQwit {cq_Q(n1)} {cq_Q(n2)} {cq_Q(nort)} {scq})"


def rcov(el):
    ml = ml_()
    r = ml.Element.get(el).cov_radius_1
    return None if r is None else Fr(float(r))


# ------------------------------------------------------------------ one join case
def gen_join(seed, flavour):
    """Pure description of one join call."""
    rng = random.Random(seed)
    A = gen_frag(rng, 1, n_ap=rng.choice([1, 1, 1, 2]))
    B = gen_frag(rng, 101, n_ap=rng.choice([1, 1, 2]))
    pA, pB = rng.choice(A["aps"]), rng.choice(B["aps"])
    tag = flavour
    if rng.random() < 0.8:                 # 20 % keep fully generic (irrational-norm) attachment vectors
        pythagorize(rng, A, pA)
        pythagorize(rng, B, pB)
    if flavour == "antiparallel":
        if rng.random() < 0.4:
            axis_align(A, pA, rng.randrange(3), rng.choice([Fr(1), Fr(-1), Fr(3, 2), Fr(-5, 4)]))
        if not force_direction(rng, A, pA, B, pB, rng.choice([Fr(1), Fr(1, 2), Fr(2), Fr(3, 4)])):
            tag = "general"
    elif flavour == "parallel":
        if not force_direction(rng, A, pA, B, pB, -rng.choice([Fr(1), Fr(1, 2), Fr(2), Fr(3, 4)])):
            tag = "general"
    elif flavour == "axis":
        axis_align(A, pA, rng.randrange(3), rng.choice([Fr(1), Fr(-1), Fr(3, 2)]))
    elif flavour == "invalid":
        kind = rng.choice(["two-bonds", "no-bond", "foreign"])
        if kind == "two-bonds":                       # the chosen atom has two bonds
            others = [i for i in range(len(A["atoms"])) if i != pA and i != neighbour_of(A, pA)]
            if others:
                A["bonds"].append(dict(i=pA, j=rng.choice(others), label=None, btype="Single", stereo="Unknown", forder=1.0))
            else:
                kind = "no-bond"
        if kind == "no-bond":
            A["bonds"] = [b for b in A["bonds"] if pA not in (b["i"], b["j"])]
        tag = "invalid:" + kind
    opts = dict(
        dist=rng.choice([None, None, float(Fr(rng.randint(4, 48), 16))]),
        scan=rng.random() < 0.5,
        charge=rng.choice([None, None, None, 0, 0, 1, -2]),
        mult=rng.choice([None, None, None, 1, 2, 3]),
        btype=rng.choice(["Single", "Single", "Double", "Aromatic"]), bstereo=rng.choice(["Unknown", "Unknown", "E"]),
        bforder=rng.choice([1.0, 1.0, 1.5]),
        cls=rng.choice(["Molecule", "Molecule", "Structure"]),
        by_index=(rng.random() < 0.5, rng.random() < 0.3), neg_index=rng.random() < 0.15)
    if flavour == "mult0":
        # region of the recorded finding C12:mult:zero-becomes-one
        how = rng.choice(["override", "source"])
        if how == "override":
            opts["mult"] = 0
        else:
            A["mult"], B["mult"], opts["mult"] = rng.choice([(0, 1), (1, 0)]) + (None,)
    elif rng.random() < 0.1:
        A["mult"], B["mult"] = rng.choice([(0, 2), (3, 0), (0, 3)])        # a multiplicity of 0 on one side, sum-1 != 0
    return dict(A=A, B=B, pA=pA, pB=pB, opts=opts, tag=tag)


def expected_mult(desc):
    o = desc["opts"]
    return o["mult"] if o["mult"] is not None else desc["A"]["mult"] + desc["B"]["mult"] - 1


def call_join(desc, np_seed):
    """Builds fresh objects, calls join under the given np.random state.  Returns dict(res|exc, A, B, snaps...)."""
    ml, np = ml_(), np_()
    o = desc["opts"]
    A, B = build(desc["A"], o["cls"]), build(desc["B"], o["cls"])
    a1 = desc["pA"] if o["by_index"][0] else A.atoms[desc["pA"]]
    a2 = desc["pB"] if o["by_index"][1] else B.atoms[desc["pB"]]
    if o["neg_index"] and o["by_index"][0]:
        a1 = desc["pA"] - len(A.atoms)
    if desc["tag"] == "invalid:foreign":
        a1 = B.atoms[desc["pB"]]
    kw = dict(optimize_rotation=o["scan"], btype=ml.BondType[o["btype"]], bstereo=ml.BondStereo[o["bstereo"]], bforder=o["bforder"])
    if o["dist"] is not None:
        kw["dist"] = o["dist"]
    if o["charge"] is not None:
        kw["charge"] = o["charge"]
    if o["mult"] is not None:
        kw["mult"] = o["mult"]
    sA, sB = snapshot(A), snapshot(B)
    state = np.random.get_state()
    np.random.seed(np_seed)
    try:
        res, exc = getattr(ml, o["cls"]).join(A, B, a1, a2, **kw), None
    except Exception as e:   # noqa
        res, exc = None, e
    finally:
        np.random.set_state(state)
    return dict(res=res, exc=exc, A=A, B=B, sA=sA, sB=sB, sA2=snapshot(A), sB2=snapshot(B))


def frag_geometry(desc):
    A, B, pA, pB = desc["A"], desc["B"], desc["pA"], desc["pB"]
    rA, rB = neighbour_of(A, pA), neighbour_of(B, pB)
    if rA is None or rB is None:
        return None
    v1 = [A["coords"][pA][c] - A["coords"][rA][c] for c in range(3)]
    v2 = [B["coords"][pB][c] - B["coords"][rB][c] for c in range(3)]
    return rA, rB, v1, v2


def requested_length(desc, rA, rB):
    o = desc["opts"]
    if o["dist"]:
        return float(o["dist"])
    ml = ml_()
    rc = float(ml.Element.C.cov_radius_1)
    r1 = ml.Element.get(desc["A"]["atoms"][rA]["el"]).cov_radius_1
    r2 = ml.Element.get(desc["B"]["atoms"][rB]["el"]).cov_radius_1
    return float((r1 or rc) + (r2 or rc)) or 1.5


def oracle_join(desc, run, run2):
    """Judges the property on what the implementation returned.  List of (signature, text)."""
    np = np_()
    out = []
    o = desc["opts"]
    valid = not desc["tag"].startswith("invalid")
    if run["sA"] != run["sA2"] or run["sB"] != run["sB2"]:
        which = "A" if run["sA"] != run["sA2"] else "B"
        out.append(("C12:sources:modified", f"join changed its input structure {which} (deep snapshot before/after differs: atoms, "
                    f"parents, bonds, coordinates, charge or multiplicity)"))
    if not valid:
        if run["exc"] is None:
            out.append(("C12:invalid-attachment:accepted", f"join accepted an atom that is not a valid attachment point ({desc['tag']})"))
        return out
    if run["exc"] is not None:
        out.append(("C12:raises-" + type(run["exc"]).__name__, f"join raised {run['exc']!r} on a valid pair of attachment points"))
        return out
    res = run["res"]
    A, B, pA, pB = desc["A"], desc["B"], desc["pA"], desc["pB"]
    rA, rB, v1, v2 = frag_geometry(desc)
    # determinism: same arguments, different np.random state
    if run2 is not None:
        r2 = run2["res"]
        same = (r2 is not None and len(r2.atoms) == len(res.atoms)
                and np.array_equal(np.asarray(r2.coords), np.asarray(res.coords))
                and [a.attrib.get("uid") for a in r2.atoms] == [a.attrib.get("uid") for a in res.atoms]
                and (r2.charge, r2.mult) == (res.charge, res.mult))
        if not same:
            dev = float(np.abs(np.asarray(r2.coords) - np.asarray(res.coords)).max()) if r2 is not None and np.asarray(r2.coords).shape == np.asarray(res.coords).shape else float("nan")
            out.append(("C12:hidden-state:result-depends-on-np-random", f"the same join under two np.random states gives different results "
                        f"(largest coordinate difference {dev:.6f})"))
    it = Intern()
    _, view = observe(res, it)
    if view is None:
        Xr = np.asarray(res.coords, dtype=float)
        if Xr.shape != (len(res.atoms), 3):
            out.append(("C12:geometry:rows-not-aligned", f"the product has {len(res.atoms)} atoms but a coordinate array of shape {Xr.shape}"))
        elif not np.isfinite(Xr).all():
            out.append(("C12:geometry:not-finite", "the product has non-finite coordinates (the fragments have distinct atom positions)"))
        else:
            out.append(("C12:atoms:unidentifiable", "a product atom does not carry the attributes of any source atom (attrib lost), or "
                        "charge/multiplicity are not integers"))
        return out
    # new objects, owned by the product
    src_ids = {id(a) for a in run["A"].atoms} | {id(a) for a in run["B"].atoms} | {id(b) for b in run["A"].bonds} | {id(b) for b in run["B"].bonds}
    if any(id(a) in src_ids for a in res.atoms) or any(id(b) in src_ids for b in res.bonds):
        out.append(("C12:sources:objects-shared", "the product contains atom or bond objects of its inputs (not copies)"))
    if any(a.parent is not res for a in res.atoms) or any(b.parent is not res for b in res.bonds):
        out.append(("C12:product:parent-not-set", "an atom or bond of the product does not name the product as its parent"))
    # atoms
    want = {}
    for fr, ap in ((A, pA), (B, pB)):
        for p, a in enumerate(fr["atoms"]):
            if p != ap:
                want[a["uid"]] = (a["atype"] == "AttachmentPoint", atom_data_desc(a, it))
    got = {}
    for u, ap, d, x in view["atoms"]:
        if u in got:
            out.append(("C12:atoms:duplicated", f"source atom uid {u} appears twice in the product"))
        got[u] = (ap, d)
    if set(got) != set(want):
        miss, extra = sorted(set(want) - set(got)), sorted(set(got) - set(want))
        out.append(("C12:atoms:wrong-set", f"product atoms differ from (A minus apA) + (B minus apB): missing uids {miss}, unexpected uids {extra} "
                    f"(attachment points are {A['atoms'][pA]['uid']} and {B['atoms'][pB]['uid']})"))
        return out
    bad = [u for u in want if want[u] != got[u]]
    if bad:
        out.append(("C12:atoms:attributes-changed", f"element/isotope/label/type/stereo/geometry/formal charge/attrib of atoms {bad[:5]} were not copied"))
    # bonds
    def key(u, v, d):
        return (frozenset((u, v)), tuple(d))
    ml = ml_()
    wantb = []
    for fr, ap in ((A, pA), (B, pB)):
        for b in fr["bonds"]:
            if ap not in (b["i"], b["j"]):
                wantb.append(key(fr["atoms"][b["i"]]["uid"], fr["atoms"][b["j"]]["uid"],
                                 bond_data(b["label"], ml.BondType[b["btype"]].value, ml.BondStereo[b["stereo"]].value, b["forder"], {}, it)))
    nbk = key(A["atoms"][rA]["uid"], B["atoms"][rB]["uid"],
              bond_data(None, ml.BondType[o["btype"]].value, ml.BondStereo[o["bstereo"]].value, o["bforder"], {}, it))
    wantb.append(nbk)
    gotb = [key(u, v, d) for u, v, d in view["bonds"]]
    n_new = sum(1 for k in gotb if k[0] == nbk[0])
    if n_new != 1:
        out.append(("C12:bonds:new-bond-count", f"{n_new} bonds join the former neighbours {sorted(nbk[0])} (expected exactly one)"))
    elif sorted(gotb, key=repr) != sorted(wantb, key=repr):
        out.append(("C12:bonds:wrong-set", f"product bonds differ from the bonds of A and B not touching an attachment point plus the new bond: "
                    f"missing {[sorted(k[0]) for k in wantb if k not in gotb][:4]}, unexpected {[sorted(k[0]) for k in gotb if k not in wantb][:4]}"))
    # geometry
    pos = {u: np.array([float(c) for c in x]) for u, ap, d, x in view["atoms"]}
    d = requested_length(desc, rA, rB)
    n1 = math.sqrt(float(fdot(v1, v1)))
    n2f = math.sqrt(float(fdot(v2, v2)))
    for name, fr, ap, r, v, n, far in (("A", A, pA, rA, v1, n1, B["atoms"][rB]["uid"]), ("B", B, pB, rB, v2, n2f, A["atoms"][rA]["uid"])):
        idx = [p for p in range(len(fr["atoms"])) if p != ap]
        X0 = [[float(c) for c in fr["coords"][p]] for p in idx]
        X1 = [pos[fr["atoms"][p]["uid"]] for p in idx]
        sv = shape_violation(X0, X1, range(len(idx)), 5)
        if sv:
            out.append((f"C12:geometry:{name}-{sv[0]}", f"fragment {name} was not moved rigidly: {sv[1]} (positions within the fragment, attachment point excluded)"))
            continue
        # the partner's former neighbour must sit where the attachment point pointed, at distance d
        virt = [float(fr["coords"][r][c]) + d * float(v[c]) / n for c in range(3)]
        sv = shape_violation(X0 + [virt], X1 + [pos[far]], range(len(idx) + 1), 6)
        if sv:
            if name == "A":
                bl = float(np.linalg.norm(pos[far] - pos[fr["atoms"][r]["uid"]]))
                if abs(bl - d) > ORACLE_EPS:
                    out.append(("C12:geometry:new-bond-length", f"the new bond is {bl:.6f} long, requested/expected {d:.6f}"))
                else:
                    out.append(("C12:geometry:new-bond-direction", f"the new bond does not point along A's former attachment direction: {sv[1]} "
                                f"(last index = B's former neighbour vs the point at distance d along the attachment vector)"))
            else:
                out.append(("C12:geometry:B-not-facing-A", f"B's former attachment direction does not point at A's former neighbour: {sv[1]}"))
    # charge / multiplicity
    wq = o["charge"] if o["charge"] is not None else A["charge"] + B["charge"]
    wm = expected_mult(desc)
    if view["charge"] != wq:
        out.append(("C12:charge:" + ("override-ignored" if o["charge"] is not None else "not-summed"),
                    f"charge {view['charge']}, expected {wq} (qA={A['charge']}, qB={B['charge']}, override={o['charge']})"))
    if view["mult"] != wm:
        if wm == 0 and view["mult"] == 1:
            out.append((KNOWN_MULT0, f"multiplicity {view['mult']}, expected {wm} (mA={A['mult']}, mB={B['mult']}, override={o['mult']})"))
        else:
            out.append(("C12:mult:" + ("override-ignored" if o["mult"] is not None else "not-combined"),
                        f"multiplicity {view['mult']}, expected {wm} (mA={A['mult']}, mB={B['mult']}, override={o['mult']})"))
    return out


def join_case(desc):
    """Runs the implementation twice, returns (term or None, violations, info)."""
    np = np_()
    run = call_join(desc, 12345)
    run2 = call_join(desc, 987) if run["exc"] is None else None
    viol = oracle_join(desc, run, run2)
    it = Intern()
    o = desc["opts"]
    info = {"tag": desc["tag"], "raised": run["exc"] is not None}
    A, B, pA, pB = desc["A"], desc["B"], desc["pA"], desc["pB"]
    ml = ml_()
    nb = bond_data(None, ml.BondType[o["btype"]].value, ml.BondStereo[o["bstereo"]].value, o["bforder"], {}, it)
    # term pieces that do not depend on the outcome
    At, Bt = frag_term(A, it), frag_term(B, it)

    def sel(by_index, pos, fr, neg):
        if by_index:
            return f"(ByIdx {cq_Z(pos - len(fr['atoms']) if neg else pos)})"
        return f"(ById {posq(fr['atoms'][pos]['uid'])})"
    s1 = sel(o["by_index"][0], pA, A, o["neg_index"])
    s2 = sel(o["by_index"][1], pB, B, False)
    if desc["tag"] == "invalid:foreign":
        s1 = f"(ById {posq(B['atoms'][pB]['uid'])})"
    geo = frag_geometry(desc)
    anti = False
    if desc["tag"] == "invalid:foreign":
        geo = None
    if geo is None:
        n1 = n2 = nort = Fr(1)
        sc = None
        rA = rB = None
    else:
        rA, rB, v1, v2 = geo
        n1, n2, nort, c = witnesses(v1, v2)
        anti = c <= JOIN_TOL - 1
        info["branch"] = "antiparallel" if anti else ("identity" if c == 1 else "general")
        info["one_plus_c"] = float(1 + c)
        sc = None
        if abs(c - (JOIN_TOL - 1)) < Fr(1, 10 ** 9):
            return None, viol, dict(info, skipped="branch decision too close to the threshold")
        if (not anti) and 1 + c < Fr(1, 1000):
            return None, viol, dict(info, skipped="general branch amplified by 1/(1+c) beyond the stated tolerance")
    obs_t = "None"
    if run["exc"] is None:
        obs_t, view = observe(run["res"], it)
        if obs_t is None:
            return None, viol, dict(info, skipped="product not observable")
        if geo is not None and (o["scan"] or anti):
            keepB = [p for p in range(len(B["atoms"])) if p != pB]
            d = requested_length(desc, rA, rB)
            Yref = ref_place(v1, v2, B["coords"][rB], d, [[float(x) for x in B["coords"][p]] for p in keepB], anti)
            pos = {u: np.array([float(x) for x in xx]) for u, ap, dd, xx in view["atoms"]}
            try:
                Yobs = np.array([pos[B["atoms"][p]["uid"]] for p in keepB])
                sc = measure_twist(v1, Yref, Yobs)
            except KeyError:
                sc = None
            info["twist"] = None if sc is None else round(math.degrees(math.atan2(sc[0], sc[1])), 3)
    rc1 = None if rA is None else rcov(A["atoms"][rA]["el"])
    rc2 = None if rB is None else rcov(B["atoms"][rB]["el"])
    op = (f"(mkOpts {cq_opt(o['dist'], lambda x: cq_Q(Fr(x)))} {cq_opt(o['charge'], cq_Z)} {cq_opt(o['mult'], cq_Z)} {zl(nb)} "
          f"{cq_opt(rc1, cq_Q)} {cq_opt(rc2, cq_Q)} {cq_Q(rcov('C'))})")
    term = f"(CJoin {At} {Bt} {s1} {s2} {op} {cq_bool(o['scan'])} {wit_term(n1, n2, nort, sc)} {obs_t})"
    return term, viol, info


# ------------------------------------------------------------------ iterated joins as in `molli combine`
def gen_combine(seed, ascending=True):
    rng = random.Random(seed)
    k = rng.choice([2, 2, 3])
    core = gen_frag(rng, 1, n_ap=k, n_min=2, n_max=6, ap_typed=True)
    subs = [gen_frag(rng, 100 * (i + 1) + 1, n_ap=rng.choice([1, 1, 2]), n_min=1, n_max=4, ap_typed=True) for i in range(k)]
    if rng.random() < 0.85:
        for p in core["aps"]:
            pythagorize(rng, core, p)
        for sfr in subs:
            for p in sfr["aps"]:
                pythagorize(rng, sfr, p)
    aps = list(core["aps"])
    if not ascending:
        while aps == sorted(aps):
            rng.shuffle(aps)
    return dict(core=core, subs=subs, aps=aps)


def first_ap_pos(fr):
    for p, a in enumerate(fr["atoms"]):
        if a["atype"] == "AttachmentPoint":
            return p
    return None


def call_combine(desc, np_seed):
    ml, np = ml_(), np_()
    cm = combine_mod()
    core = build(desc["core"])
    subs = [build(s) for s in desc["subs"]]
    snaps = [snapshot(core)] + [snapshot(s) for s in subs]
    state = np.random.get_state()
    np.random.seed(np_seed)
    try:
        f, a, kw = cm._ml_assemble(core, tuple(desc["aps"]), [tuple(subs)], hadd=False, obopt=None)
        out = f(*a, **kw)
        res, exc = list(out.values())[0], None
    except Exception as e:  # noqa
        res, exc = None, e
    finally:
        np.random.set_state(state)
    snaps2 = [snapshot(core)] + [snapshot(s) for s in subs]
    return dict(res=res, exc=exc, snaps=snaps, snaps2=snaps2, objs=[core] + subs)


def combine_expect(desc):
    """Independent description of the intended product: atoms (uid -> data) and bonds as sets."""
    it = Intern()
    core, subs, aps = desc["core"], desc["subs"], desc["aps"]
    removed = {core["atoms"][p]["uid"] for p in aps}
    new_bonds = []
    for p, s in zip(aps, subs):
        q = first_ap_pos(s)
        removed.add(s["atoms"][q]["uid"])
        new_bonds.append((core["atoms"][neighbour_of(core, p)]["uid"], s["atoms"][neighbour_of(s, q)]["uid"]))
    return removed, new_bonds


def oracle_combine(desc, run, run2):
    np = np_()
    out = []
    if run["snaps"] != run["snaps2"]:
        out.append(("C12:sources:modified", "_ml_assemble changed the core or a substituent it was given"))
    if run["exc"] is not None:
        out.append(("C12:combine:raises-" + type(run["exc"]).__name__, f"_ml_assemble raised {run['exc']!r} (core_aps={desc['aps']})"))
        return out
    res = run["res"]
    it = Intern()
    _, view = observe(res, it)
    if view is None:
        out.append(("C12:atoms:unidentifiable", "a product atom of _ml_assemble does not carry the attributes of a source atom"))
        return out
    if run2 is not None and (run2["res"] is None or not np.array_equal(np.asarray(run2["res"].coords), np.asarray(res.coords))):
        out.append(("C12:hidden-state:result-depends-on-np-random", "_ml_assemble gives different coordinates under two np.random states"))
    removed, new_bonds = combine_expect(desc)
    frs = [desc["core"]] + desc["subs"]
    want = {a["uid"] for fr in frs for a in fr["atoms"]} - removed
    got = [u for u, ap, d, x in view["atoms"]]
    if sorted(got) != sorted(want):
        out.append(("C12:combine:wrong-attachment-point", f"iterated join with core_aps={desc['aps']}: product atoms are not (core + substituents) minus the "
                    f"addressed attachment points: missing {sorted(want - set(got))}, unexpected {sorted(set(got) - want)}"))
        return out
    gotb = [frozenset((u, v)) for u, v, d in view["bonds"]]
    for u, v in new_bonds:
        if gotb.count(frozenset((u, v))) != 1:
            out.append(("C12:combine:new-bond-missing", f"iterated join: {gotb.count(frozenset((u, v)))} bonds between former neighbours {u} and {v}"))
    wantb = [frozenset((fr["atoms"][b["i"]]["uid"], fr["atoms"][b["j"]]["uid"])) for fr in frs for b in fr["bonds"]
             if fr["atoms"][b["i"]]["uid"] not in removed and fr["atoms"][b["j"]]["uid"] not in removed] + [frozenset(p) for p in new_bonds]
    if sorted(map(sorted, gotb)) != sorted(map(sorted, wantb)) and not out:
        out.append(("C12:combine:wrong-bonds", "iterated join: bond set differs from the intended one"))
    pos = {u: np.array([float(c) for c in x]) for u, ap, d, x in view["atoms"]}
    for name, fr in zip(["core"] + ["sub%d" % i for i in range(len(desc["subs"]))], frs):
        idx = [p for p, a in enumerate(fr["atoms"]) if a["uid"] not in removed]
        sv = shape_violation([[float(c) for c in fr["coords"][p]] for p in idx], [pos[fr["atoms"][p]["uid"]] for p in idx], range(len(idx)), 7)
        if sv:
            out.append((f"C12:combine:{name.rstrip('0123456789')}-{sv[0]}", f"iterated join: {name} was not moved rigidly: {sv[1]}"))
    wq = sum(fr["charge"] for fr in frs)
    wm = sum(fr["mult"] for fr in frs) - len(desc["subs"])
    if view["charge"] != wq or view["mult"] != wm:
        out.append(("C12:combine:charge-mult", f"iterated join: charge/mult {view['charge']}/{view['mult']}, expected {wq}/{wm}"))
    return out


def combine_case(desc):
    np = np_()
    ml = ml_()
    run = call_combine(desc, 4242)
    run2 = call_combine(desc, 17) if run["exc"] is None else None
    viol = oracle_combine(desc, run, run2)
    info = {"tag": "combine:%d:%s" % (len(desc["aps"]), "ascending" if sorted(desc["aps"]) == list(desc["aps"]) else "shuffled"), "raised": run["exc"] is not None}
    it = Intern()
    core, subs, aps = desc["core"], desc["subs"], desc["aps"]
    sig = inspect.signature(ml.Structure.join).parameters
    nb = bond_data(None, sig["btype"].default.value, sig["bstereo"].default.value, sig["bforder"].default, {}, it)
    core_t = frag_term(core, it)
    sub_ts = [frag_term(s, it) for s in subs]
    obs_t, view = ("None", None)
    if run["exc"] is None:
        obs_t, view = observe(run["res"], it)
        if obs_t is None:
            return None, viol, dict(info, skipped="product not observable")
    steps = []
    for i, (p, s) in enumerate(zip(aps, subs)):
        q = first_ap_pos(s)
        # the atom the (repaired) loop addresses at step i is core atom p whatever the order of core_aps (theorem
        # C12_iterated); witnesses are computed for that atom and re-checked inside Coq on the atom the model addresses
        rA, rB = neighbour_of(core, p), neighbour_of(s, q)
        v1 = [core["coords"][p][c] - core["coords"][rA][c] for c in range(3)]
        v2 = [s["coords"][q][c] - s["coords"][rB][c] for c in range(3)]
        n1, n2, nort, c = witnesses(v1, v2)
        anti = c <= JOIN_TOL - 1
        if abs(c - (JOIN_TOL - 1)) < Fr(1, 10 ** 9) or ((not anti) and 1 + c < Fr(1, 1000)):
            return None, viol, dict(info, skipped="a step is too close to the antiparallel threshold")
        sc = None
        if view is not None:
            keepB = [k for k in range(len(s["atoms"])) if k != q]
            ml_d = float((ml.Element.get(core["atoms"][rA]["el"]).cov_radius_1 or ml.Element.C.cov_radius_1)
                         + (ml.Element.get(s["atoms"][rB]["el"]).cov_radius_1 or ml.Element.C.cov_radius_1))
            Yref = ref_place(v1, v2, s["coords"][rB], ml_d, [[float(x) for x in s["coords"][k]] for k in keepB], anti)
            pos = {u: np.array([float(x) for x in xx]) for u, ap, dd, xx in view["atoms"]}
            try:
                # later joins translate everything; positions relative to the core atom the substituent is bonded to
                o0 = pos[core["atoms"][rA]["uid"]]
                live = [k for k in keepB if s["atoms"][k]["uid"] in pos]
                if len(live) == len(keepB):
                    sc = measure_twist(v1, Yref, np.array([pos[s["atoms"][k]["uid"]] - o0 for k in keepB]))
            except KeyError:
                sc = None
        rc = f"({cq_opt(rcov(core['atoms'][rA]['el']), cq_Q)}, {cq_opt(rcov(s['atoms'][rB]['el']), cq_Q)})"
        steps.append(f"({sub_ts[i]}, {rc}, {wit_term(n1, n2, nort, sc)})")
    term = f"(CCombine {core_t} {cq_list(cq_Z(a) for a in aps)} {zl(nb)} {cq_Q(rcov('C'))} {cq_list(steps)} {obs_t})"
    return term, viol, info


# ------------------------------------------------------------------ the run
def plan(ctx):
    """[(kind, seed, flavour)]"""
    rng = ctx.rng
    n = 1 if not ctx.thorough else 12
    out = []
    for flavour, cnt in (("general", 150), ("antiparallel", 60), ("parallel", 25), ("axis", 25), ("invalid", 20), ("mult0", 6)):
        out += [("join", rng.randrange(2 ** 40), flavour) for _ in range(cnt * n)]
    out += [("combine", rng.randrange(2 ** 40), "ascending") for _ in range(45 * n)]
    out += [("combine", rng.randrange(2 ** 40), "shuffled") for _ in range(30 * n)]
    return out


def run_one(kind, seed, flavour):
    if kind == "join":
        desc = gen_join(seed, flavour)
        return join_case(desc)
    desc = gen_combine(seed, ascending=(flavour == "ascending"))
    return combine_case(desc)


def run(ctx, rep):
    rep.rule = ("a case = one join(A, B, apA, apB, ...) call (or one _ml_assemble call on a 2-3 attachment core) on generated fragments with "
                "exact dyadic coordinates, executed twice under different np.random states; non-trivial when the product (or the exception) "
                "was compared with the model inside Coq; distinct by generator seed and flavour")
    rep.trusted += ["harness/c12.py: fragment generator, uid tagging through Atom.attrib, float -> exact rational encoding (Fraction(float)), "
                    "2^-60 square-root witnesses (re-checked inside Coq), measurement of the angle about the new bond left free by the rotamer "
                    "scan / the antiparallel branch, stub for the absent optional module molli.external.openbabel (import of molli.scripts.combine)",
                    "CPython/numpy executing molli (array arithmetic, IEEE rounding), molli_xt.cdist32_eu2 inside the rotamer scan"]
    rep.assumptions += ["model vs implementation coordinates agree within 1e-8 absolute (inputs on the 2^-10 grid, |coordinates| <= ~40); general-branch "
                        "cases with 1 + cos < 1e-3 are not compared (amplification by 1/(1+c): C11 covers that neighbourhood at matrix level)",
                        "which rotamer the scan selects (argmin of a float32 steric loss over 12 angles) is NOT modelled: the model takes the angle "
                        "as an argument, the theorems hold for every angle; the harness measures it on the product",
                        "antiparallel branch: the model runs with the repaired deterministic orthogonal vector; any other valid choice differs by a "
                        "rotation about the new bond, which is measured and admitted (determinism is judged by running every case under two np.random states)",
                        "sources untouched / product made of new objects: judged by the Python oracle on deep snapshots (object identities, parents, "
                        "attributes, bonds, coordinates); the functional model cannot express mutation",
                        "covalent radii (Element.cov_radius_1) are read from molli's own table"]
    ok, out, where = vlib.build_props(ctx, rep, "C12")
    items = plan(ctx)
    terms, owners, viols_by_item = [], [], {}
    found = False
    known_hit = set()
    for i, (kind, seed, flavour) in enumerate(items):
        rd = {"kind": kind, "seed": seed, "flavour": flavour}
        try:
            term, viol, info = run_one(kind, seed, flavour)
        except Exception as e:  # noqa  (harness trouble is not a verdict about molli)
            rep.count("harness-error")
            rep.extra.setdefault("harness_errors", []).append(f"{rd}: {e!r}"[:300])
            rep.case(key=None)
            continue
        rep.count(kind + ":" + (str(info.get("tag", flavour)).split(":")[0] if kind == "join" else flavour))
        if info.get("branch"):
            rep.count("branch:" + info["branch"])
        if info.get("twist") not in (None, 0.0):
            rep.count("twist-nonzero")
        if info.get("raised"):
            rep.count("raised")
        for sig, text in viol:
            found = True
            viols_by_item.setdefault(i, []).append(sig)
            rep.violate(sig, text, rd)
            if sig == KNOWN_MULT0:
                known_hit.add(sig)
        if term is None:
            rep.case(key=None)
            rep.count("not-compared")
            continue
        rep.case(key=f"{kind}:{flavour}:{seed}", sample=(dict(rd, info=info) if i % 61 == 0 else None))
        terms.append(term)
        owners.append(i)
    size = 12 if not ctx.thorough else 40
    nsh = max(1, -(-len(terms) // size))
    order = [j for s0 in range(nsh) for j in range(s0, len(terms), nsh)]
    terms = [terms[j] for j in order]
    owners = [owners[j] for j in order]
    size = max(1, -(-len(terms) // nsh))
    bad = vlib.run_shards(ctx, rep, "c12", HEADER, "check", terms, shard=size, timeout=900, case_type="jcase")
    rep.extra["shard_cases"] = len(terms)
    if bad is None:
        vlib.broken_obligation(rep, "corr_c12", "a correspondence shard did not compile: " + str(rep.extra.get("shard_errors", ""))[-800:], found)
    elif bad:
        unexplained = [owners[b] for b in bad if not [s for s in viols_by_item.get(owners[b], []) if s != KNOWN_MULT0]]
        rep.extra["mismatching_cases"] = [dict(kind=items[owners[b]][0], seed=items[owners[b]][1], flavour=items[owners[b]][2]) for b in bad[:10]]
        if unexplained:
            more = False
            for i in unexplained[:10]:
                for v in neighbourhood(ctx, items[i]):
                    more = True
                    rep.violate(v.sig, v.what, v.replay)
            if not more:
                k, s, f = items[unexplained[0]]
                vlib.broken_obligation(rep, "corr_c12", f"{len(unexplained)} case(s) differ from the model (structure exactly / coordinates beyond 1e-8) "
                                       f"although the oracle accepts them, e.g. kind={k} seed={s} flavour={f}", found)
    if not ok:
        vlib.broken_obligation(rep, "C12_props", f"{where}\n{out[-1500:]}", found)
    return tuple(sorted(known_hit))


def neighbourhood(ctx, item):
    """Oracle over a widened neighbourhood of a mismatching case: other seeds of the same flavour, and every flavour."""
    kind, seed, flavour = item
    out = []
    r = random.Random(seed)
    trials = [(kind, seed, flavour)] + [(kind, r.randrange(2 ** 40), f) for f in
                                         (["general", "antiparallel", "parallel", "axis"] if kind == "join" else ["ascending", "shuffled"]) for _ in range(15)]
    for k, s, f in trials:
        try:
            _, viol, _ = run_one(k, s, f)
        except Exception:  # noqa
            continue
        for sig, text in viol:
            if sig != KNOWN_MULT0:
                out.append(vlib.Violation(sig, text, {"kind": k, "seed": s, "flavour": f}))
        if out:
            break
    return out


def replay(ctx, data):
    _, viol, _ = run_one(data["kind"], data["seed"], data["flavour"])
    return [vlib.Violation(sig, text, data) for sig, text in viol]
