"""C04 part 1: the control skeleton of reading()/writing().

Tie S: a fail-closed `ast` walker turns the two context managers of CollectionBackendBase into terms of the
command language of coq/Common/Exc.v (calls, sequence, try/finally) -> Gen/SessionSkel.v.
Tie T: the REAL context managers are run under every fault vector (each step made to raise, in every
combination) with recording wrappers; the observed call traces, the lock state seen from another process
and the file state are emitted as Gen/SessionFaults.v.  Coq checks that the skeleton's denotation equals the
observed trace for every vector, and proves the session contract for ALL fault assignments.
"""
import ast, os, sys, json, subprocess, itertools, textwrap, inspect
import vlib
from vlib import cq_str, cq_list, cq_bool


class Refuse(Exception):
    pass


def _call_name(node):
    """self.f(...) / self._lock.f(...) -> 'f'"""
    if isinstance(node, ast.Call) and isinstance(node.func, ast.Attribute):
        base = node.func.value
        ok = (isinstance(base, ast.Name) and base.id == "self") or \
             (isinstance(base, ast.Attribute) and isinstance(base.value, ast.Name) and base.value.id == "self")
        if ok:
            return node.func.attr
    raise Refuse(f"unsupported call shape: {ast.dump(node)[:120]}")


def _stmts(body):
    out = []
    for st in body:
        if isinstance(st, ast.Expr) and isinstance(st.value, ast.Constant):
            continue                                             # docstring
        if isinstance(st, ast.Expr) and isinstance(st.value, ast.Call):
            out.append(f'(Call {cq_str(_call_name(st.value))})')
        elif isinstance(st, ast.Expr) and isinstance(st.value, ast.Yield):
            out.append('(Call "body")')
        elif isinstance(st, ast.Assign) and all(isinstance(t, ast.Attribute) and isinstance(t.value, ast.Name)
                                                and t.value.id == "self" for t in st.targets) \
                and isinstance(st.value, ast.Constant):
            out.append("Skip")                                   # self._state = "..." cannot raise
        elif isinstance(st, ast.If) and not st.orelse and len(st.body) == 1 and isinstance(st.body[0], ast.Raise):
            t = st.test
            if isinstance(t, ast.Attribute) and isinstance(t.value, ast.Name) and t.value.id == "self":
                out.append(f'(Call {cq_str("guard:" + t.attr)})')   # raises iff the flag is set
            elif isinstance(t, ast.UnaryOp) and isinstance(t.op, ast.Not):
                out.append(f'(Call {cq_str(_call_name(t.operand))})')  # raises iff the call returns false
            else:
                raise Refuse(f"unsupported guard: {ast.dump(t)[:120]}")
        elif isinstance(st, ast.Try):
            if st.handlers or st.orelse or not st.finalbody:
                raise Refuse("try with handlers/else (only try/finally is in the grammar)")
            out.append(f"(TryFin {_seq(_stmts(st.body))} {_seq(_stmts(st.finalbody))})")
        elif isinstance(st, ast.Pass):
            out.append("Skip")
        else:
            raise Refuse(f"statement outside the grammar: {ast.dump(st)[:160]}")
    return out


def _seq(items):
    items = [i for i in items if i != "Skip"] or ["Skip"]
    t = items[-1]
    for i in reversed(items[:-1]):
        t = f"(Seq {i} {t})"
    return t


def extract(repo):
    src = open(os.path.join(repo, "molli", "storage", "backends.py")).read()
    tree = ast.parse(src)
    progs = {}
    for cls in tree.body:
        if isinstance(cls, ast.ClassDef) and cls.name == "CollectionBackendBase":
            for fn in cls.body:
                if isinstance(fn, ast.FunctionDef) and fn.name in ("reading", "writing"):
                    if not any((isinstance(d, ast.Name) and d.id == "contextmanager") for d in fn.decorator_list):
                        raise Refuse(f"{fn.name} is not a @contextmanager generator")
                    progs[fn.name] = _seq(_stmts(fn.body))
    if set(progs) != {"reading", "writing"}:
        raise Refuse("reading()/writing() not found in CollectionBackendBase")
    return progs


# ------------------------------------------------------------------ tie T: every fault vector on the real code
PROBE = r'''
import sys, os
sys.path.insert(0, os.environ["MOLLI_REPO_DIR"])
from fasteners import InterProcessReaderWriterLock
from molli._aux.lock import rwlock
for line in sys.stdin:
    path = line.strip()
    if not path:
        break
    lk = InterProcessReaderWriterLock(rwlock(path))
    ok = lk.acquire_write_lock(timeout=0.05)
    if ok:
        lk.release_write_lock()
    print("free" if ok else "held", flush=True)
'''


class Probe:
    """A helper PROCESS that reports whether the inter-process lock of a path can be taken."""
    def __init__(self, ctx):
        p = os.path.join(ctx.sub("c04"), "probe.py")
        open(p, "w").write(PROBE)
        env = dict(os.environ, MOLLI_REPO_DIR=vlib.REPO)
        self.env = env
        self.p = subprocess.Popen([vlib.PY, p], stdin=subprocess.PIPE, stdout=subprocess.PIPE, text=True, env=env)

    def free(self, path):
        import select
        self.p.stdin.write(path + "\n"); self.p.stdin.flush()
        r, _, _ = select.select([self.p.stdout], [], [], 60)
        if not r:                      # the probe itself hangs in the lock: it is not free
            self.p.kill()
            self.p = subprocess.Popen(self.p.args, stdin=subprocess.PIPE, stdout=subprocess.PIPE, text=True, env=self.env)
            return False
        return self.p.stdout.readline().strip() == "free"

    def close(self):
        try:
            self.p.stdin.write("\n"); self.p.stdin.flush(); self.p.wait(timeout=5)
        except Exception:
            self.p.kill()


class Boom(Exception):
    pass


def run_vector(path, kind, faulty, probe):
    """Run one session of `kind` (reading/writing) on the real backend with the calls in `faulty` raising.
    Returns (trace [(name, raised)], exn propagated, lock free afterwards, file closed afterwards, keys on disk)."""
    from molli.storage import Collection, UkvCollectionBackend
    from molli.storage.ukvfile import UKVFile
    if os.path.exists(path):
        os.remove(path)
    ro = "guard:_readonly" in faulty
    if ro:
        UKVFile(path, "x").close()
    c = Collection(path, UkvCollectionBackend, readonly=ro, bufsize=10 ** 6)
    be = c._backend
    tr = []

    def wrap(obj, name, label=None, on_false=False, after=False):
        orig = getattr(obj, name)
        label = label or name

        def w(*a, **k):
            bad = label in faulty
            if on_false:                       # acquire_*: a fault means "not acquired" -> returns False
                if bad:
                    tr.append((label, True)); return False
                r = orig(*a, **k); tr.append((label, not r)); return r
            if bad and not after:
                tr.append((label, True)); raise Boom(label)
            r = orig(*a, **k)
            if bad:                            # `after`: do the real work, then raise (a failing close still closes)
                tr.append((label, True)); raise Boom(label)
            tr.append((label, False)); return r
        setattr(obj, name, w)

    W = kind == "writing"
    wrap(be._lock, "acquire_write_lock" if W else "acquire_read_lock", on_false=True)
    wrap(be._lock, "release_write_lock" if W else "release_read_lock")
    wrap(be, "begin_write" if W else "begin_read")
    wrap(be, "update_keys")
    wrap(be, "end_write" if W else "end_read", after=True)
    if W:
        wrap(be, "flush")
    if ro and W:
        tr.append(("guard:_readonly", True))
    elif W:
        tr.append(("guard:_readonly", False))
    exn = False
    try:
        with (c.writing(timeout=0.05) if W else c.reading(timeout=0.05)):
            tr.append(("body", "body" in faulty))
            if W:
                be._write_queue.append(("k1", b"v1")); be._keys.add("k1")
            if "body" in faulty:
                raise Boom("body")
    except BaseException:
        exn = True
    free = probe.free(path)
    closed = (not hasattr(be, "_ukvfile")) or be._ukvfile.closed
    be._write_queue.clear()
    return tr, exn, free, closed


def run_ctor(path, exists, overwrite, readonly):
    """Construct a UkvCollectionBackend on `path` and record, from outside, the order of: the inter-process write lock
    being acquired / released, every look whether the file exists, and every creation (open in mode x / w) of the
    library file.  Returns the event list."""
    import pathlib
    import fasteners
    import molli.storage.backends as B
    import molli.storage.ukvfile as UF
    if os.path.exists(path):
        os.remove(path)
    if exists:
        UF.UKVFile(path, "x").close()
    ev = []
    L = fasteners.InterProcessReaderWriterLock
    real = os.path.realpath(path)
    saved = []

    def patch(obj, name, fn):
        saved.append((obj, name, obj.__dict__[name] if name in obj.__dict__ else None, getattr(obj, name)))
        setattr(obj, name, fn)
    o_acq, o_rel = L.acquire_write_lock, L.release_write_lock

    def acq(self, *a, **k):
        r = o_acq(self, *a, **k)
        if r:
            ev.append("acquire")
        return r

    def rel(self, *a, **k):
        ev.append("release")
        return o_rel(self, *a, **k)
    patch(L, "acquire_write_lock", acq); patch(L, "release_write_lock", rel)
    for nm in ("is_file", "exists"):
        orig = getattr(pathlib.Path, nm)

        def look(self, *a, _o=orig, **k):
            if os.path.realpath(str(self)) == real:
                ev.append("exists")
            return _o(self, *a, **k)
        patch(pathlib.Path, nm, look)
    for nm in ("isfile", "exists"):
        orig = getattr(os.path, nm)

        def look2(p_, *a, _o=orig, **k):
            try:
                if os.path.realpath(os.fspath(p_)) == real:
                    ev.append("exists")
            except TypeError:
                pass
            return _o(p_, *a, **k)
        patch(os.path, nm, look2)
    o_init = UF.UKVFile.__init__

    def init(self, path_, *a, **k):
        mode = k.get("mode", a[0] if a else "r")
        if mode in ("x", "w") and os.path.realpath(os.fspath(path_)) == real:
            ev.append("create")
        return o_init(self, path_, *a, **k)
    patch(UF.UKVFile, "__init__", init)
    try:
        B.UkvCollectionBackend(path, overwrite=overwrite, readonly=readonly)
    finally:
        for obj, name, own, val in reversed(saved):
            if own is None and name in obj.__dict__ and obj is not os.path:
                delattr(obj, name)
            else:
                setattr(obj, name, own if own is not None else val)
    return [e for e in ev]


def gen(ctx):
    """Regenerates Gen/SessionSkel.v and Gen/SessionFaults.v; returns (rows, refusal or None)."""
    import molli  # noqa
    refusal = None
    try:
        progs = extract(vlib.REPO)
    except Refuse as e:
        refusal = str(e)
        progs = {"reading": "Skip", "writing": "Skip"}
    head = ("(* REGENERATED on every run by harness/c04_skel.py -- do not edit. *)\n"
            "From Coq Require Import List String.\nImport ListNotations.\nFrom Molli Require Import Common.Exc.\nOpen Scope string_scope.\n\n")
    skel = head + ("(* the control skeleton of CollectionBackendBase.writing() / reading(), extracted from the AST of\n"
                   "   molli/storage/backends.py (fail-closed walker; refusal: %s) *)\n" % (refusal or "none")
                   + f"Definition writing_prog : cmd :=\n  {progs['writing']}.\n\nDefinition reading_prog : cmd :=\n  {progs['reading']}.\n"
                   + f"Definition extraction_refused : bool := {cq_bool(refusal is not None)}.\n")
    vlib.write_if_changed(os.path.join(vlib.COQ, "Gen", "SessionSkel.v"), skel)
    probe = Probe(ctx)
    rows = {"writing": [], "reading": []}
    try:
        names = {"writing": ["guard:_readonly", "acquire_write_lock", "begin_write", "update_keys", "body", "flush", "end_write"],
                 "reading": ["acquire_read_lock", "begin_read", "update_keys", "body", "end_read"]}
        path = os.path.join(ctx.sub("c04"), "skel.ukv")
        for kind in ("writing", "reading"):
            for r in range(len(names[kind]) + 1):
                for S in itertools.combinations(names[kind], r):
                    tr, exn, free, closed = run_vector(path, kind, set(S), probe)
                    rows[kind].append((list(S), tr, exn, free, closed))
    finally:
        probe.close()

    def row(r):
        S, tr, exn, free, closed = r
        return (f"({cq_list(cq_str(x) for x in S)}, ({cq_list(f'({cq_str(n)}, {cq_bool(b)})' for n, b in tr)}, {cq_bool(exn)}), "
                f"{cq_bool(free)}, {cq_bool(closed)})")
    tab = head + ("(* observed on the real context managers: (calls made to raise, (call trace, exception propagated),\n"
                  "   lock free afterwards as seen from ANOTHER process, file closed afterwards) *)\n"
                  "Definition fault_row := (list string * (trace * bool) * bool * bool)%type.\n")
    for kind in ("writing", "reading"):
        tab += f"Definition {kind}_rows : list fault_row := [\n  " + ";\n  ".join(row(r) for r in rows[kind]) + "\n].\n"
    # the constructor's critical section: every configuration (file exists?, overwrite?, readonly?)
    crows = []
    cpath = os.path.join(ctx.sub("c04"), "ctor.ukv")
    for ex in (False, True):
        for ov in (False, True):
            for ro in (False, True):
                crows.append((ex, ov, ro, run_ctor(cpath, ex, ov, ro)))
    tab += ("(* UkvCollectionBackend(path, overwrite, readonly) observed from outside: (file existed, overwrite, readonly,\n"
            "   order of: write lock acquired / released, looks whether the file exists, creations (open in mode x or w)) *)\n"
            "Definition ctor_rows : list (bool * bool * bool * list string) := [\n  "
            + ";\n  ".join(f"({cq_bool(ex)}, {cq_bool(ov)}, {cq_bool(ro)}, {cq_list(cq_str(e) for e in evs)})" for ex, ov, ro, evs in crows) + "\n].\n")
    vlib.write_if_changed(os.path.join(vlib.COQ, "Gen", "SessionFaults.v"), tab)
    rows["ctor"] = crows
    return rows, refusal
