"""C16 -- adding implicit hydrogens only completes valences.

Ties
  T  Gen/Valence.v   every Element: group, valence_electrons (None = KeyError), cov_radius_1, and whether
                     add_implicit_hydrogens() selects it by default (observed by running it on a lone hinted atom);
                     IMPLICIT_VALENCE, VALENCE_ELECTRONS; Bond.order for every BondType member (constant or
                     the bond's f_order); TETRAHEDRON; defaults of Atom("H") / Bond(a, h).
  S  Gen/HaddExpr.v  fail-closed ast extraction of the hydrogen-count arithmetic of add_implicit_hydrogens
                     (electrons, bonded, hs_to_add, inlined) into Common/HExpr.hexpr, plus the shape of the
                     hint override (`(hs := a.attrib.pop(KEY, None)) is not None: pass`) and of the `> 0` guard.
  H  random organic-like molecules with exact rational coordinates and every bundled CDXML fragment driven
     through the real Structure/Molecule.add_implicit_hydrogens; the molecule before, the square-root /
     plane-normal witnesses and the molecule after go to Coq, where Model/Hadd.check re-runs the model
     (counts, new atoms, new bonds exactly; coordinates within 1e-9) by vm_compute.
     Sessions: ONE live object driven through several calls with in-place edits in between (element, formal charge,
     spin, hint, atom type, bond type/order, coordinates, hydrogens or bonds deleted, atoms added, a clone taken), a
     call restricted to a few atoms followed by the whole-molecule call, every accessor read before the edits; each
     call is judged and sent to Coq (Model/Hadd.check_steps) against the object's state AT THAT MOMENT.
Oracle (implementation alone): deep snapshot before/after (nothing but new hydrogens), per-atom count against an
independent valence calculation, each new H bonded once to its atom, distance = sum of covalent radii
(relative 1e-4, see Props/C16.v C16_dist2), finite, pointing away from the centroid of the old neighbours,
second call on a hint-free molecule adds nothing.
"""
import ast, os, math, json, glob, warnings, copy
from fractions import Fraction as Fr
import vlib
from vlib import cq_list, cq_Q, cq_Z, cq_N, cq_nat, cq_opt, cq_bool, cq_str

HINT = "__implicit_hydrogens"
STRUCTURE_PY = "molli/chem/structure.py"


class Refuse(Exception):
    pass


# =================================================================== tie T: tables
def vq(v):
    return "(" + ", ".join(cq_Q(Fr(float(x))) for x in v) + ")"


def observe_selected(ml, e):
    """Does add_implicit_hydrogens() (no arguments) process an atom of element e?  Observed on a lone atom that
    carries the hint 1: one hydrogen appears iff the atom was selected."""
    from molli.chem import Structure, Atom
    s = Structure()
    a = Atom(e, attrib={HINT: 1})
    s.add_atom(a, [0.0, 0.0, 0.0])
    s.add_implicit_hydrogens()
    if s.n_atoms == 1 and HINT in a.attrib:
        return False
    if s.n_atoms == 2 and HINT not in a.attrib:
        return True
    raise Refuse(f"default selection of {e!r}: {s.n_atoms} atoms afterwards, hint {'kept' if HINT in a.attrib else 'consumed'}")


def table_rows(ml):
    from molli.chem import Element, Atom, Bond, BondType, AtomType
    from molli.chem import atom as atom_mod
    from molli.math.polyhedra import TETRAHEDRON
    els = []
    for e in Element:
        g = e.group
        try:
            ve = Atom(e).valence_electrons
        except KeyError:
            ve = None
        r = e.cov_radius_1
        try:
            sel = observe_selected(ml, e)
        except Refuse:
            raise
        except Exception as ex:           # e.g. no covalent radius: selected and then failed
            raise Refuse(f"default selection of {e!r} raised {type(ex).__name__}: {ex}")
        if g is not None and not isinstance(g, int):
            raise Refuse(f"group of {e!r} is {g!r}")
        els.append((int(e), g, ve, None if r is None else Fr(float(r)), sel))
    a, b = Atom("C"), Atom("C")
    orders = []
    for bt in BondType:
        o1 = Bond(a, b, btype=bt, f_order=0.25).order
        o2 = Bond(a, b, btype=bt, f_order=0.75).order
        if o1 == 0.25 and o2 == 0.75:
            orders.append((int(bt), None))
        elif o1 == o2:
            orders.append((int(bt), Fr(float(o1))))
        else:
            raise Refuse(f"Bond.order of {bt!r} depends on f_order in an unexpected way: {o1}, {o2}")
    h = Atom("H")
    nb = Bond(a, h)
    return {
        "elements": els,
        "implicit_valence": sorted((int(k), int(v)) for k, v in atom_mod.IMPLICIT_VALENCE.items()),
        "valence_electrons": sorted((int(k), int(v)) for k, v in atom_mod.VALENCE_ELECTRONS.items()),
        "orders": orders,
        "tet": [[float(x) for x in r] for r in TETRAHEDRON],
        "h": (int(h.element), int(h.formal_charge), int(h.formal_spin), int(h.atype)),
        "newbond": (int(nb.btype), Fr(float(nb.f_order))),
        "cc": int(AtomType.CoordinationCenter),
    }


def gen_valence_text(t):
    def optZ(x):
        return cq_opt(x, cq_Z)
    els = ";\n".join(f"  ({cq_N(z)}, {optZ(g)}, {optZ(ve)}, {cq_opt(r, cq_Q)}, {cq_bool(sel)})" for z, g, ve, r, sel in t["elements"])
    orders = ";\n".join(f"  ({cq_N(bt)}, {'OFrac' if o is None else '(OConst ' + cq_Q(o) + ')'})" for bt, o in t["orders"])
    if len(t["tet"]) != 4:
        raise Refuse("TETRAHEDRON does not have four rows")
    return ("(* regenerated from /repo on every run by harness/c16.py (tie T):\n"
            "   elements          Element -> (atomic number, group, valence_electrons (None: KeyError), cov_radius_1,\n"
            "                     selected by add_implicit_hydrogens() without arguments -- observed by running it)\n"
            "   implicit_valence  atom.IMPLICIT_VALENCE      valence_electrons  atom.VALENCE_ELECTRONS   (group -> n)\n"
            "   bond_orders       BondType member -> Bond.order (a constant, or the bond's own f_order)\n"
            "   tetrahedron       molli.math.polyhedra.TETRAHEDRON, the doubles as exact rationals\n"
            "   h_defaults        Atom(\"H\"): (element, formal_charge, formal_spin, atype)\n"
            "   newbond_defaults  Bond(a, h): (btype, f_order)      cc_atype  AtomType.CoordinationCenter *)\n"
            "From Coq Require Import List ZArith NArith QArith.\nFrom Molli Require Import Common.Field3 Common.HExpr.\nImport ListNotations.\n"
            f"Definition elements : list (N * option Z * option Z * option Q * bool) := [\n{els}\n].\n"
            "Definition implicit_valence : list (Z * Z) := " + cq_list(f"({cq_Z(k)}, {cq_Z(v)})" for k, v in t["implicit_valence"]) + ".\n"
            "Definition valence_electrons : list (Z * Z) := " + cq_list(f"({cq_Z(k)}, {cq_Z(v)})" for k, v in t["valence_electrons"]) + ".\n"
            f"Definition bond_orders : list (N * ord) := [\n{orders}\n].\n"
            "Definition tetrahedron : list (vec Q) := " + cq_list(vq(r) for r in t["tet"]) + ".\n"
            f"Definition h_defaults : N * Z * Z * N := ({cq_N(t['h'][0])}, {cq_Z(t['h'][1])}, {cq_Z(t['h'][2])}, {cq_N(t['h'][3])}).\n"
            f"Definition newbond_defaults : N * Q := ({cq_N(t['newbond'][0])}, {cq_Q(t['newbond'][1])}).\n"
            f"Definition cc_atype : N := {cq_N(t['cc'])}.\n")


# =================================================================== tie S: the count expression
def _is_name(n, s):
    return isinstance(n, ast.Name) and n.id == s


def find_hadd(tree):
    fns = [f for c in ast.walk(tree) if isinstance(c, ast.ClassDef) and c.name == "Structure"
           for f in c.body if isinstance(f, ast.FunctionDef) and f.name == "add_implicit_hydrogens"]
    if len(fns) != 1:
        raise Refuse(f"{len(fns)} definitions of Structure.add_implicit_hydrogens")
    return fns[0]


def check_math_names(tree):
    """ceil / floor must be math's, bound once at module level; abs / max / min must not be rebound anywhere."""
    bound = {}
    for n in ast.walk(tree):
        if isinstance(n, ast.ImportFrom):
            for al in n.names:
                bound.setdefault(al.asname or al.name, []).append(("from", n.module, al.name))
        elif isinstance(n, ast.Import):
            for al in n.names:
                bound.setdefault((al.asname or al.name).split(".")[0], []).append(("import", al.name, None))
        elif isinstance(n, (ast.FunctionDef, ast.ClassDef, ast.AsyncFunctionDef)):
            bound.setdefault(n.name, []).append(("def", None, None))
        elif isinstance(n, ast.Name) and isinstance(n.ctx, ast.Store):
            bound.setdefault(n.id, []).append(("store", None, None))
        elif isinstance(n, ast.arg):
            bound.setdefault(n.arg, []).append(("arg", None, None))
    for nm in ("ceil", "floor"):
        bs = bound.get(nm, [])
        if bs and not all(b == ("from", "math", nm) for b in bs):
            raise Refuse(f"`{nm}` is not (only) math.{nm}: {bs}")
    for nm in ("abs", "max", "min"):
        if bound.get(nm):
            raise Refuse(f"builtin `{nm}` is rebound in structure.py")
    return {nm for nm in ("ceil", "floor") if bound.get(nm)}


def conv(n, env, var, mathnames):
    """Python expression -> Coq hexpr term (string).  Refuses everything outside the grammar."""
    if isinstance(n, ast.Constant) and not isinstance(n.value, bool):
        if isinstance(n.value, int) or (isinstance(n.value, float) and n.value == int(n.value)):
            return f"(EInt {cq_Z(int(n.value))})"
        raise Refuse(f"non-integer constant {n.value!r}")
    if isinstance(n, ast.Name):
        if n.id in env:
            return env[n.id]
        raise Refuse(f"free name {n.id!r}")
    if isinstance(n, ast.NamedExpr):
        raise Refuse("assignment expression inside the count formula")
    if isinstance(n, ast.Attribute) and _is_name(n.value, var):
        leaf = {"valence_electrons": "EVe", "formal_charge": "EFc", "formal_spin": "ESpin"}.get(n.attr)
        if leaf:
            return leaf
        raise Refuse(f"atom attribute {n.attr!r}")
    if isinstance(n, ast.UnaryOp) and isinstance(n.op, ast.USub):
        return f"(ENeg {conv(n.operand, env, var, mathnames)})"
    if isinstance(n, ast.UnaryOp) and isinstance(n.op, ast.UAdd):
        return conv(n.operand, env, var, mathnames)
    if isinstance(n, ast.BinOp) and isinstance(n.op, (ast.Add, ast.Sub)):
        c = "EAdd" if isinstance(n.op, ast.Add) else "ESub"
        return f"({c} {conv(n.left, env, var, mathnames)} {conv(n.right, env, var, mathnames)})"
    if isinstance(n, ast.Call) and not n.keywords:
        f = n.func
        fname = f.id if isinstance(f, ast.Name) else (f.attr if isinstance(f, ast.Attribute) and _is_name(f.value, "math") else None)
        if fname == "abs" and isinstance(f, ast.Name) and len(n.args) == 1:
            return f"(EAbs {conv(n.args[0], env, var, mathnames)})"
        if fname in ("max", "min") and isinstance(f, ast.Name) and len(n.args) >= 2 and not any(isinstance(a, ast.Starred) for a in n.args):
            c = "EMax" if fname == "max" else "EMin"
            out = conv(n.args[0], env, var, mathnames)
            for a in n.args[1:]:
                out = f"({c} {out} {conv(a, env, var, mathnames)})"
            return out
        if fname in ("ceil", "floor") and len(n.args) == 1 and (isinstance(f, ast.Attribute) or fname in mathnames):
            a = n.args[0]
            if isinstance(a, ast.Name) and a.id in env and env[a.id] == "<bv>":
                return "ECeilBv" if fname == "ceil" else "EFloorBv"
            if is_bv_call(a, var):
                return "ECeilBv" if fname == "ceil" else "EFloorBv"
            raise Refuse(f"{fname}() of something that is not self.bonded_valence({var})")
    raise Refuse("outside the grammar: " + ast.dump(n)[:160])


def is_bv_call(a, var):
    return (isinstance(a, ast.Call) and isinstance(a.func, ast.Attribute) and a.func.attr == "bonded_valence"
            and _is_name(a.func.value, "self") and len(a.args) == 1 and not a.keywords and _is_name(a.args[0], var))


def extract_count(path):
    """Returns dict(expr=<coq term>, key=<hint key>, var=<loop variable>).  Raises Refuse."""
    tree = ast.parse(open(path).read())
    mathnames = check_math_names(tree)
    fn = find_hadd(tree)
    loops = [s for s in fn.body if isinstance(s, ast.For)]
    if len(loops) != 1 or not isinstance(loops[0].target, ast.Name) or not _is_name(loops[0].iter, "atoms") or loops[0].orelse:
        raise Refuse("add_implicit_hydrogens: expected exactly one `for <a> in atoms:` loop at the top level")
    loop = loops[0]
    var = loop.target.id
    body = [s for s in loop.body if not (isinstance(s, ast.Expr) and isinstance(s.value, ast.Constant))]
    if len(body) != 2 or not all(isinstance(s, ast.If) for s in body):
        raise Refuse("loop body is not `if <hint> ... else <formula>` followed by `if hs_to_add > 0:`")
    first, second = body
    # --- the hint override
    t = first.test
    ok = (isinstance(t, ast.Compare) and len(t.ops) == 1 and isinstance(t.ops[0], ast.IsNot)
          and isinstance(t.comparators[0], ast.Constant) and t.comparators[0].value is None
          and isinstance(t.left, ast.NamedExpr) and isinstance(t.left.target, ast.Name))
    if not ok:
        raise Refuse("hint test is not `(<hs> := ...) is not None`")
    hs = t.left.target.id
    call = t.left.value
    ok = (isinstance(call, ast.Call) and isinstance(call.func, ast.Attribute) and call.func.attr in ("pop", "get")
          and isinstance(call.func.value, ast.Attribute) and call.func.value.attr == "attrib" and _is_name(call.func.value.value, var)
          and not call.keywords and len(call.args) in (1, 2) and isinstance(call.args[0], ast.Constant) and isinstance(call.args[0].value, str)
          and (len(call.args) == 1 and call.func.attr == "get" or
               len(call.args) == 2 and isinstance(call.args[1], ast.Constant) and call.args[1].value is None))
    if not ok:
        raise Refuse(f"hint is not read by `{var}.attrib.pop(<key>, None)`")
    key = call.args[0].value
    if not all(isinstance(s, ast.Pass) or (isinstance(s, ast.Expr) and isinstance(s.value, ast.Constant)) for s in first.body):
        raise Refuse("the hint branch does something else than keeping the hint")
    # --- the formula branch: straight-line assignments to plain names, the last one to <hs>
    env = {}
    for s in first.orelse:
        if isinstance(s, ast.Expr) and isinstance(s.value, ast.Constant):
            continue
        if not (isinstance(s, ast.Assign) and len(s.targets) == 1 and isinstance(s.targets[0], ast.Name)):
            raise Refuse("formula branch: not a plain assignment: " + ast.dump(s)[:120])
        nm = s.targets[0].id
        if nm in (var, "self", "atoms"):
            raise Refuse(f"formula branch rebinds {nm}")
        env[nm] = "<bv>" if is_bv_call(s.value, var) else conv(s.value, env, var, mathnames)
    if hs not in env or env[hs] == "<bv>":
        raise Refuse(f"formula branch does not assign {hs}")
    if not first.orelse or not (isinstance(first.orelse[-1], ast.Assign) and _is_name(first.orelse[-1].targets[0], hs)):
        raise Refuse(f"the last statement of the formula branch does not assign {hs}")
    # --- the guard
    g = second.test
    ok = (isinstance(g, ast.Compare) and len(g.ops) == 1 and not second.orelse and
          ((isinstance(g.ops[0], ast.Gt) and _is_name(g.left, hs) and isinstance(g.comparators[0], ast.Constant) and g.comparators[0].value == 0)
           or (isinstance(g.ops[0], ast.Lt) and _is_name(g.comparators[0], hs) and isinstance(g.left, ast.Constant) and g.left.value == 0)
           or (isinstance(g.ops[0], ast.GtE) and _is_name(g.left, hs) and isinstance(g.comparators[0], ast.Constant) and g.comparators[0].value == 1)))
    if not ok:
        raise Refuse(f"second statement of the loop is not `if {hs} > 0:`")
    # <hs> must not be reassigned inside the guarded block
    for n in ast.walk(second):
        if isinstance(n, ast.Name) and n.id == hs and isinstance(n.ctx, ast.Store):
            raise Refuse(f"{hs} is reassigned inside the placement block")
    return {"expr": env[hs], "key": key, "var": var}


def gen_expr_text(x):
    return ("(* regenerated by the fail-closed ast extractor of harness/c16.py on every run (tie S):\n"
            "   hs_expr         the value assigned to hs_to_add in the formula branch of add_implicit_hydrogens,\n"
            "                   with the local names (electrons, bonded, ...) inlined\n"
            "   hint_key        the attrib key popped before the formula is consulted\n"
            "   hint_overrides  the loop body starts with `if (hs := a.attrib.pop(key, None)) is not None: pass  else: <formula>`\n"
            "   guard_positive  ... and continues with `if hs > 0: <placement>` and nothing else *)\n"
            "From Coq Require Import ZArith String.\nFrom Molli Require Import Common.HExpr.\nLocal Open Scope string_scope.\n"
            f"Definition hs_expr : hexpr := {x['expr']}.\n"
            f"Definition hint_key : string := {cq_str(x['key'])}.\n"
            "Definition hint_overrides : bool := true.\nDefinition guard_positive : bool := true.\n")


def regen(ml):
    """Rewrites Gen/Valence.v and Gen/HaddExpr.v.  Returns (tables, extraction, refusal text or None)."""
    refusal = None
    tables = extraction = None
    with vlib.CoqLock():
        try:
            tables = table_rows(ml)
            vlib.write_if_changed(os.path.join(vlib.COQ, "Gen", "Valence.v"), gen_valence_text(tables))
        except Refuse as e:
            refusal = "T(Valence): " + str(e)
        try:
            extraction = extract_count(os.path.join(vlib.REPO, STRUCTURE_PY))
            vlib.write_if_changed(os.path.join(vlib.COQ, "Gen", "HaddExpr.v"), gen_expr_text(extraction))
        except (Refuse, SyntaxError, OSError) as e:
            refusal = (refusal + "; " if refusal else "") + "S(HaddExpr): " + str(e)
    return tables, extraction, refusal


# =================================================================== independent chemistry (oracle side; NOT from molli)
GROUPS = {13: "B Al Ga In Tl Nh", 14: "C Si Ge Sn Pb Fl", 15: "N P As Sb Bi Mc", 16: "O S Se Te Po Lv",
          17: "F Cl Br I At Ts", 18: "He Ne Ar Kr Xe Rn Og"}
GROUP_OF = {s: g for g, ss in GROUPS.items() for s in ss.split()}
# single-bond covalent radii (Pyykko & Atsumi 2009), Angstrom
RCOV = {"H": 0.32, "B": 0.85, "C": 0.75, "N": 0.71, "O": 0.63, "F": 0.64, "Al": 1.26, "Si": 1.16, "P": 1.11, "S": 1.03,
        "Cl": 0.99, "Ga": 1.24, "Ge": 1.21, "As": 1.21, "Se": 1.16, "Br": 1.14, "I": 1.33, "Sn": 1.40, "Sb": 1.40, "Te": 1.36}
STD_ORDER = {"Single": 1, "Double": 2, "Triple": 3, "Quadruple": 4, "Quintuple": 5, "Sextuple": 6, "Aromatic": Fr(3, 2), "Amide": 1,
             "Dummy": 0, "NotConnected": 0, "Ligand": 0, "H_Acceptor": 0, "H_Donor": 1, "Unknown": 0}
REL_TOL = 1e-4            # |h - a| against the sum of covalent radii (the two-hydrogen branch is 5.3e-5 long, C16_dist2)


def expected_count(sym, fc, spin, hint, orders):
    """The count the property states; None when the atom is outside groups 13-18 and carries no hint."""
    if hint is not None:
        return int(hint)
    g = GROUP_OF.get(sym)
    if g is None:
        return None
    ve = g - 10
    bv = sum((Fr(o) for o in orders), Fr(0))
    return max(0, 4 - abs(4 - (ve - fc - abs(spin))) - math.ceil(bv))


# =================================================================== exact arithmetic (witnesses for the model)
def qsqrt(q, bits=66):
    """Rational n > 0 with |n^2 - q| <= q 2^-60 (checked again inside Coq by sqrt_witness_ok)."""
    q = Fr(q)
    assert q > 0
    rn, rd = math.isqrt(q.numerator), math.isqrt(q.denominator)
    if rn * rn == q.numerator and rd * rd == q.denominator:
        return Fr(rn, rd)
    k = bits + max(0, (q.numerator.bit_length() - q.denominator.bit_length()) // 2 + 2)
    m = math.isqrt(((1 << (2 * k)) * q.denominator) // q.numerator)
    r = Fr(1 << k, m)
    assert abs(r * r - q) <= q / (1 << 60), (q, r)
    return r


def vsub(a, b): return [x - y for x, y in zip(a, b)]
def vdot(a, b): return sum(x * y for x, y in zip(a, b))
def vcross(a, b): return [a[1] * b[2] - a[2] * b[1], a[2] * b[0] - a[0] * b[2], a[0] * b[1] - a[1] * b[0]]
def vmean(vs): return [sum(c) / len(vs) for c in zip(*vs)]


def least_axis(u):
    ab = [abs(x) for x in u]
    i = 0 if (ab[0] <= ab[1] and ab[0] <= ab[2]) else (1 if ab[1] <= ab[2] else 2)
    return [Fr(int(j == i)) for j in range(3)]


def witness(a, nb, k, nrm, tet0):
    """Witnesses for one target: a, nb exact coordinates, k hydrogens, nrm the unit normal observed from mean_plane
    (three neighbours).  Returns dict(ok, n, nz, ov, nrm, degenerate=<why>)."""
    one, zero = Fr(1), Fr(0)
    w = {"ok": True, "n": one, "nz": one, "ov": [one, zero, zero], "nrm": nrm or [zero, zero, one], "why": None, "planar": False,
         "anti": False}
    if k <= 0:
        return w
    if len(nb) == 0:
        vec = [one, zero, zero]
    elif len(nb) == 3:
        al = vdot(w["nrm"], vsub(vmean(nb), a))
        if abs(abs(al) - Fr(1, 20)) < Fr(1, 10**6):
            return dict(w, ok=False, why="align at the 0.05 threshold")
        w["planar"] = abs(al) <= Fr(1, 20)
        vec = list(w["nrm"]) if w["planar"] else [al * x for x in w["nrm"]]
    else:
        vec = vmean([vsub(p, a) for p in nb])
    n2 = vdot(vec, vec)
    if n2 < Fr(1, 10**12):
        return dict(w, ok=False, why="neighbours' centroid coincides with the atom")
    w["n"] = qsqrt(n2)
    u = [x / w["n"] for x in vec]
    if k == 2:
        z = vcross(vsub(nb[0], a), vsub(nb[1], a)) if len(nb) == 2 else vcross(u, least_axis(u))
        z2 = vdot(z, z)
        if z2 < Fr(1, 10**12):
            return dict(w, ok=False, why="two neighbours collinear with the atom")
        w["nz"] = qsqrt(z2)
    if k in (3, 4):
        c = vdot(tet0, u)
        tol = Fr(1, 10**8)
        if abs(c - (-1 + tol)) < Fr(1, 10**10):
            return dict(w, ok=False, why="rotation at the antiparallel threshold")
        if c <= -1 + tol:
            w["anti"] = True
            rv = least_axis(u)
            d = vdot(rv, u)
            ort = [r - x * d for r, x in zip(rv, u)]
            no = qsqrt(vdot(ort, ort))
            w["ov"] = [x / no for x in ort]
    return w


# =================================================================== building and observing molecules
def build(ml, spec):
    """spec -> (molecule, atoms list).  Random specs are built atom by atom; CDXML specs are parsed from the bundled file."""
    from molli.chem import Molecule, Structure, Atom, Bond, BondType, AtomType
    if "cdxml" in spec:
        cf = ml.CDXMLFile(os.path.join(os.path.dirname(ml.files.__file__), spec["cdxml"]))
        m = cf[spec["key"]]
        return m
    m = (Molecule if spec["cls"] == "Molecule" else Structure)()
    ats = []
    for sym, fc, spin, hint, aty, xyz in spec["atoms"]:
        a = Atom(sym, formal_charge=fc, formal_spin=spin, atype=AtomType[aty])
        if hint is not None:
            a.attrib[HINT] = hint
        m.add_atom(a, [float(x) for x in xyz])
        ats.append(a)
    for i, j, bt, fo in spec["bonds"]:
        m.append_bond(Bond(ats[i], ats[j], btype=BondType[bt], f_order=float(fo)))
    return m


def snap_atom(a):
    at = {k: copy.deepcopy(v) for k, v in a.attrib.items() if k != HINT}
    return (id(a), int(a.element), a.isotope, a.label, int(a.atype), int(a.stereo), int(a.geom), a.formal_charge, a.formal_spin,
            json.dumps(at, sort_keys=True, default=repr))


def snap_bond(b):
    return (id(b), id(b.a1), id(b.a2), int(b.btype), int(b.stereo), float(b.f_order), b.label,
            json.dumps(b.attrib, sort_keys=True, default=repr))


def snapshot(m):
    import numpy as np
    s = {"atoms": [snap_atom(a) for a in m.atoms], "bonds": [snap_bond(b) for b in m.bonds],
         "coords": np.array(m.coords, dtype=float).copy(), "objs": list(m.atoms), "bobjs": list(m.bonds),
         "hints": [a.attrib.get(HINT) for a in m.atoms],
         "mol": (getattr(m, "name", None), json.dumps(getattr(m, "attrib", {}), sort_keys=True, default=repr))}
    if hasattr(m, "atomic_charges"):
        s["q"] = np.array(m.atomic_charges, dtype=float).copy()
        s["mol"] += (m.charge, m.mult)
    return s


def hatom_term(el, fc, spin, hint, aty):
    return f"(mkHA {cq_N(el)} {cq_Z(fc)} {cq_Z(spin)} {cq_opt(hint, cq_Z)} {cq_N(aty)})"


def hbond_term(i, j, bt, fo):
    return f"(mkHB {cq_nat(i)} {cq_nat(j)} {cq_N(bt)} {cq_Q(Fr(float(fo)))})"


def vterm(v):
    return "(" + ", ".join(cq_Q(Fr(x)) for x in v) + ")"


def wit_term(w):
    return f"(mkWit {cq_bool(w['ok'])} {cq_Q(w['n'])} {cq_Q(w['nz'])} {vterm(w['ov'])} {vterm(w['nrm'])})"


def chem_of(snap):
    """Chemistry-level description (atoms, bonds by position, exact coordinates) of a snapshot."""
    pos = {s[0]: i for i, s in enumerate(snap["atoms"])}
    atoms0 = [(s[1], s[7], s[8], h, s[4]) for s, h in zip(snap["atoms"], snap["hints"])]
    bonds0 = [(pos[s[1]], pos[s[2]], s[3], s[5]) for s in snap["bonds"]]          # KeyError: a bond to a foreign atom
    X0 = [[Fr(float(x)) for x in r] for r in snap["coords"]]                       # ValueError: a non-finite coordinate
    return atoms0, bonds0, X0


def observe_obj(ml, m, tg):
    """Run the implementation on the live object m (targets tg: None = no arguments).  Returns a dict with everything
    the model comparison (term) and the oracle need."""
    import numpy as np
    before = snapshot(m)
    n0, nb0 = len(before["atoms"]), len(before["bonds"])
    pos = {id(a): i for i, a in enumerate(m.atoms)}
    raised = None
    with np.errstate(all="ignore"):
        try:
            if tg is None:
                m.add_implicit_hydrogens()
            else:
                m.add_implicit_hydrogens(*[m.atoms[i] for i in tg])
        except Exception as e:
            raised = f"{type(e).__name__}: {e}"
    after = snapshot(m)
    out = {"m": m, "before": before, "after": after, "raised": raised, "n0": n0, "nb0": nb0, "pos": pos}
    # ---- chemistry-level description of the molecule before the call
    try:
        atoms0, bonds0, X0 = chem_of(before)
    except KeyError:
        return dict(out, error="a bond of the input joins an atom that is not in the molecule")
    out.update(atoms0=atoms0, bonds0=bonds0, X0=X0)
    return out


def observe(ml, spec):
    """Build the molecule described by spec and run the implementation on it; 'error' when building failed."""
    try:
        m = build(ml, spec)
    except Exception as e:
        return {"error": f"build: {type(e).__name__}: {e}"}
    return observe_obj(ml, m, spec.get("targets"))


def sym_of(ml, z):
    from molli.chem import Element
    return Element(z).symbol


def analyse(ml, spec, ob):
    """Independent per-target analysis (expected counts, neighbours, witnesses).  Uses only the molecule BEFORE."""
    import numpy as np
    from molli.math import mean_plane
    from molli.chem import BondType, AtomType
    from molli.math.polyhedra import TETRAHEDRON
    atoms0, bonds0, X0 = ob["atoms0"], ob["bonds0"], ob["X0"]
    cc = int(AtomType.CoordinationCenter)
    tet0 = [Fr(float(x)) for x in TETRAHEDRON[0]]
    tg = spec.get("targets")
    if tg is None:
        tg = [i for i, a in enumerate(atoms0) if GROUP_OF.get(sym_of(ml, a[0])) in (13, 14, 15, 16)]
    info = []
    for t in tg:
        el, fc, spin, hint, aty = atoms0[t]
        inc = [(i, j, bt, fo) for (i, j, bt, fo) in bonds0 if i == t or j == t]
        orders = [Fr(float(fo)) if BondType(bt).name == "FractionalOrder" else STD_ORDER[BondType(bt).name] for (_, _, bt, fo) in inc]
        k = expected_count(sym_of(ml, el), fc, spin, hint, orders)
        allnb = [(j if i == t else i) for (i, j, _, _) in inc]
        nb = [j for j in allnb if atoms0[j][4] != cc]
        nrm = None
        if len(nb) == 3:
            with np.errstate(all="ignore"):
                nrm = [Fr(float(x)) for x in mean_plane(np.array([[float(c) for c in X0[j]] for j in nb]))]
        w = witness(X0[t], [X0[j] for j in nb], k if k is not None else 0, nrm, tet0)
        info.append({"t": t, "k": k, "nb": nb, "allnb": allnb, "w": w, "orders": orders, "hint": hint})
    return tg, info


def call_parts(ob, targets, info):
    """Coq text of one call: the molecule before (A0 B0 X0), targets, witnesses, the molecule after (A1 B1 X1)."""
    after = ob["after"]
    m = ob["m"]
    pos = {id(a): i for i, a in enumerate(m.atoms)}
    atoms1 = [(s[1], s[7], s[8], h, s[4]) for s, h in zip(after["atoms"], after["hints"])]
    try:
        bonds1 = [(pos[s[1]], pos[s[2]], s[3], s[5]) for s in after["bonds"]]
    except KeyError:
        return None
    X1 = []
    for r in after["coords"]:
        X1.append([Fr(float(x)) if math.isfinite(float(x)) else Fr(0) for x in r])
    return {"A0": cq_list(hatom_term(*a) for a in ob["atoms0"]), "B0": cq_list(hbond_term(*b) for b in ob["bonds0"]),
            "X0": cq_list(vterm(x) for x in ob["X0"]),
            "T": "None" if targets is None else "(Some " + cq_list(cq_nat(i) for i in targets) + ")",
            "W": cq_list(wit_term(i["w"]) for i in info),
            "A1": cq_list(hatom_term(*a) for a in atoms1), "B1": cq_list(hbond_term(*b) for b in bonds1),
            "X1": cq_list(vterm(x) for x in X1)}


def case_term(ml, spec, ob, tg, info):
    p = call_parts(ob, spec.get("targets"), info)
    if p is None:
        return None
    return (f"(CMol {p['A0']}\n  {p['B0']}\n  {p['X0']}\n  {p['T']} {p['W']}\n  {p['A1']}\n  {p['B1']}\n  {p['X1']})")


# =================================================================== the oracle: the property judged on the implementation alone
def judge(ml, spec, ob, tg, info):
    import numpy as np
    out = []
    b, a, n0, nb0 = ob["before"], ob["after"], ob["n0"], ob["nb0"]
    m = ob["m"]
    if ob["raised"]:
        out.append(("C16:raised", f"add_implicit_hydrogens raised {ob['raised']}"))
        return out
    # ---- nothing but new hydrogens
    if a["atoms"][:n0] != b["atoms"]:
        out.append(("C16:frame:atoms", "an existing atom was replaced or modified (element, label, type, charge, spin or attributes)"))
    if a["bonds"][:nb0] != b["bonds"]:
        out.append(("C16:frame:bonds", "an existing bond was replaced, reordered or modified"))
    if a["coords"].shape != (len(a["atoms"]), 3) or not np.array_equal(a["coords"][:n0], b["coords"]):
        out.append(("C16:frame:coords", "coordinates of existing atoms changed (or the coordinate array lost its shape)"))
    if "q" in b:
        if a["q"].shape != (len(a["atoms"]),) or not np.array_equal(a["q"][:n0], b["q"]):
            out.append(("C16:frame:charges", "partial charges of existing atoms changed (or the charge array lost its shape)"))
        elif np.any(a["q"][n0:] != 0.0):
            out.append(("C16:new-h:charge", "a new hydrogen has a non-zero partial charge"))
    if a["mol"] != b["mol"]:
        out.append(("C16:frame:molecule", f"molecule-level data changed: {b['mol']} -> {a['mol']}"))
    tset = set(tg)
    for i, (h0, h1) in enumerate(zip(b["hints"], a["hints"][:n0])):
        if i not in tset and h0 != h1:
            out.append(("C16:frame:hint", f"the hint of atom {i}, which was not a target, changed"))
    # ---- the new atoms are hydrogens, each bonded once, by a single bond, to an old atom
    from molli.chem import Element, BondType, AtomType
    new_atoms, new_bonds = m.atoms[n0:], m.bonds[nb0:]
    pos = {id(x): i for i, x in enumerate(m.atoms)}
    per = {}
    hb = {}
    for bd in new_bonds:
        i1, i2 = pos.get(id(bd.a1)), pos.get(id(bd.a2))
        if i1 is None or i2 is None or (i1 < n0) == (i2 < n0):
            out.append(("C16:new-bond:ends", "a new bond does not join an existing atom and a new hydrogen"))
            continue
        old, new = (i1, i2) if i1 < n0 else (i2, i1)
        if bd.btype != BondType.Single or bd.order != 1.0:
            out.append(("C16:new-bond:order", f"the bond to a new hydrogen is {bd.btype.name}"))
        hb.setdefault(new, []).append(old)
        per.setdefault(old, []).append(new)
    for j, x in enumerate(new_atoms):
        j += n0
        if x.element != Element.H or x.formal_charge != 0 or x.formal_spin != 0 or HINT in x.attrib:
            out.append(("C16:new-atom:not-plain-H", f"new atom {j} is {x.element.name} charge {x.formal_charge} spin {x.formal_spin}"))
        if len(hb.get(j, [])) != 1:
            out.append(("C16:new-h:bond-count", f"new hydrogen {j} has {len(hb.get(j, []))} bonds"))
    # ---- per-atom counts against the independent valence calculation
    by_t = {i["t"]: i for i in info}
    for old in sorted(set(per) | tset):
        got = len(per.get(old, []))
        if old not in by_t:
            if got:
                out.append(("C16:count:bystander", f"atom {old} ({m.atoms[old].element.name}) is not a target but received {got} hydrogens"))
            continue
        want = by_t[old]["k"]
        if want is None:
            continue
        if got != max(want, 0):
            src = "hint" if by_t[old]["hint"] is not None else "formula"
            out.append((f"C16:count:{src}:want={max(want, 0)}:got={got}",
                        f"atom {old} ({m.atoms[old].element.name}, charge {m.atoms[old].formal_charge}, spin {m.atoms[old].formal_spin}, "
                        f"bond orders {[str(o) for o in by_t[old]['orders']]}) should receive {want} hydrogens ({src}), received {got}"))
    # ---- geometry
    X = a["coords"]
    for old, hs in per.items():
        if old not in by_t:
            continue
        it = by_t[old]
        sym = m.atoms[old].element.symbol
        L = RCOV.get(sym, None)
        L = (L + RCOV["H"]) if L is not None else float(m.atoms[old].element.cov_radius_1) + RCOV["H"]
        nbx = [b["coords"][j] for j in it["allnb"]]
        cent = np.mean(nbx, axis=0) if nbx else None
        has_cc = len(it["nb"]) != len(it["allnb"])
        for j in hs:
            h = X[j]
            tag = f"k={len(hs)}:nn={len(it['nb'])}"
            if not np.all(np.isfinite(h)):
                if it["w"]["ok"]:
                    out.append((f"C16:geom:not-finite:{tag}", f"hydrogen {j} on atom {old} ({sym}) has coordinates {h.tolist()}"))
                else:
                    out.append((f"C16:geom:not-finite:degenerate", f"hydrogen {j} on atom {old}: {h.tolist()} ({it['w']['why']})"))
                continue
            d = float(np.linalg.norm(h - X[old]))
            if abs(d - L) > REL_TOL * L:
                out.append((f"C16:geom:distance:{tag}", f"hydrogen {j} is {d:.6f} A from atom {old} ({sym}); sum of covalent radii {L:.4f}"))
            # judged where a tetrahedral arrangement exists at all (neighbours + hydrogens <= 4)
            if cent is not None and it["w"]["ok"] and not it["w"]["planar"] and not has_cc and len(hs) + len(it["allnb"]) <= 4:
                dp = float(np.dot(h - X[old], cent - X[old]))
                if not dp < 0:
                    out.append((f"C16:geom:towards-neighbours:{tag}", f"hydrogen {j} on atom {old} ({sym}) points towards the centroid of "
                                f"the existing neighbours (dot product {dp:.4f})"))
    # ---- new hydrogens do not coincide with each other
    return out


def judge_idempotent(ml, ob):
    """On a hint-free molecule a second call adds nothing (and changes nothing)."""
    import numpy as np
    m = ob["m"]
    s1 = snapshot(m)
    with np.errstate(all="ignore"):
        try:
            m.add_implicit_hydrogens()
        except Exception as e:
            return [("C16:second-call:raised", f"the second call raised {type(e).__name__}: {e}")]
    s2 = snapshot(m)
    if len(s2["atoms"]) != len(s1["atoms"]) or len(s2["bonds"]) != len(s1["bonds"]):
        return [("C16:second-call:adds", f"a second call added {len(s2['atoms']) - len(s1['atoms'])} atoms / "
                 f"{len(s2['bonds']) - len(s1['bonds'])} bonds")]
    if s2["atoms"] != s1["atoms"] or s2["bonds"] != s1["bonds"] or not np.array_equal(s1["coords"], s2["coords"], equal_nan=True):
        return [("C16:second-call:changes", "a second call modified the molecule")]
    return []


# =================================================================== generators
MAIN = ["B", "C", "C", "C", "C", "N", "N", "O", "O", "Si", "P", "S"]
BYST = ["F", "Cl", "Br", "I", "H", "H", "Li", "Na", "Mg", "Fe", "Pd", "Zn", "Cu"]
DIRS = None


def directions():
    """Rational bond vectors: components in eighths, length between 1.0 and 1.7; axis-parallel ones included."""
    global DIRS
    if DIRS is None:
        out = []
        rng = range(-13, 14)
        for x in rng:
            for y in rng:
                for z in rng:
                    n2 = x * x + y * y + z * z
                    if 64 <= n2 <= 185:
                        out.append((Fr(x, 8), Fr(y, 8), Fr(z, 8)))
        axis = [v for v in out if sum(1 for c in v if c == 0) == 2]
        DIRS = (out, axis)
    return DIRS


def nondegenerate(X, i, nbs):
    """Is the neighbourhood of atom i (indices nbs) non-degenerate in the sense of the property?"""
    a = X[i]
    if not nbs:
        return True
    rs = [vsub(X[j], a) for j in nbs]
    c = vmean(rs)
    if vdot(c, c) < Fr(1, 25):
        return False
    if len(nbs) == 2:
        z = vcross(rs[0], rs[1])
        if vdot(z, z) < Fr(1, 25):
            return False
    if len(nbs) == 3:
        nrm = vcross(vsub(rs[1], rs[0]), vsub(rs[2], rs[0]))
        n2 = vdot(nrm, nrm)
        if n2 < Fr(1, 25):
            return False
        al2 = vdot(nrm, c) ** 2 / n2               # align^2
        if al2 < Fr(1, 100):                        # |align| < 0.1: planar or close to the 0.05 threshold
            return False
    return True


def gen_spec(rng, planar=False):
    """Random organic-like molecule: a tree (plus the odd ring closure) of 1..9 atoms, main-group atoms with at most
    three neighbours in non-degenerate geometry, exact dyadic coordinates."""
    alld, axis = directions()
    n = rng.choice([1, 1, 2, 2, 3, 3, 4, 5, 6, 7, 8, 9])
    X = [tuple(Fr(rng.randint(-16, 16), 8) for _ in range(3))]
    syms = [rng.choice(MAIN)]
    nbr = {0: []}
    bonds = []
    tries = 0
    while len(X) < n and tries < 400:
        tries += 1
        p = rng.randrange(len(X))
        if len(nbr[p]) >= 3:
            continue
        d = rng.choice(axis) if rng.random() < 0.25 else rng.choice(alld)
        q = tuple(a + b for a, b in zip(X[p], d))
        if any(vdot(vsub(q, x), vsub(q, x)) < Fr(81, 100) for x in X):
            continue
        k = len(X)
        if not nondegenerate(X + [q], p, nbr[p] + [k]):
            continue
        X.append(q)
        syms.append(rng.choice(MAIN) if rng.random() < 0.7 else rng.choice(BYST))
        nbr[p].append(k)
        nbr[k] = [p]
        bonds.append([p, k])
    # a ring closure now and then
    if len(X) >= 4 and rng.random() < 0.25:
        for _ in range(20):
            i, j = rng.sample(range(len(X)), 2)
            if j in nbr[i] or len(nbr[i]) >= 3 or len(nbr[j]) >= 3:
                continue
            if nondegenerate(X, i, nbr[i] + [j]) and nondegenerate(X, j, nbr[j] + [i]):
                nbr[i].append(j); nbr[j].append(i); bonds.append([i, j])
                break
    main = lambda s: s in MAIN
    bl = []
    for i, j in bonds:
        r = rng.random()
        if main(syms[i]) and main(syms[j]):
            bt = ("Single" if r < 0.5 else "Double" if r < 0.68 else "Triple" if r < 0.76 else "Aromatic" if r < 0.9
                  else "FractionalOrder" if r < 0.96 else "Amide")
        elif main(syms[i]) or main(syms[j]):
            bt = "Single" if r < 0.85 else "Double" if r < 0.93 else "FractionalOrder"
        else:
            bt = rng.choice(["Single", "Dummy", "Ligand", "NotConnected", "H_Acceptor", "H_Donor", "Unknown", "Quadruple"])
        # fractional orders below 1 (three half-bonds and two hydrogens on one carbon) are outside the property's quantifier
        fo = rng.choice([1.0, 1.25, 1.5, 1.75, 2.5] if (main(syms[i]) or main(syms[j])) else [0.5, 1.5]) if bt == "FractionalOrder" else 1.0
        bl.append([i, j, bt, fo])
    hinted = rng.random() < 0.2
    atoms = []
    for s, x in zip(syms, X):
        fc = rng.choice([0] * 8 + [1, -1]) if main(s) else 0
        spin = rng.choice([0] * 10 + [1, 1, 2, -1]) if main(s) else 0       # 2S; the property says |spin|, so a signed value is tried too
        # a drawing hint that fits the valence shell: neighbours + hydrogens <= 4
        hint = rng.choice([h for h in (0, 0, 1, 2, 3, 4) if h + len(nbr[len(atoms)]) <= 4]) if (hinted and rng.random() < 0.5) else None
        aty = "CoordinationCenter" if (s in ("Fe", "Pd", "Zn", "Cu") and rng.random() < 0.3) else rng.choice(["Regular", "Regular", "Aromatic", "Unknown"])
        atoms.append([s, fc, spin, hint, aty, [float(c) for c in x]])
    spec = {"cls": rng.choice(["Molecule", "Structure"]), "atoms": atoms, "bonds": bl, "targets": None}
    if rng.random() < 0.15:
        cand = [i for i, a in enumerate(atoms) if GROUP_OF.get(a[0]) is not None or a[3] is not None]
        rng.shuffle(cand)
        spec["targets"] = cand[:rng.randint(0, min(3, len(cand)))]
        if not spec["targets"]:
            spec["targets"] = None
    return spec


def planar_spec(rng):
    """A main-group atom in the plane of its three neighbours (the |align| <= 0.05 branch): outside the
    'non-degenerate' quantifier for the direction, inside it for everything else."""
    c = rng.choice(["C", "N", "B", "Si"])
    X = [[0, 0, 0], [1.5, 0, 0], [-0.75, 1.25, 0], [-0.75, -1.25, 0]]
    perm = rng.sample(range(3), 3)
    X = [[x[perm[0]], x[perm[1]], x[perm[2]]] for x in X]
    atoms = [[c, 0, 0, None, "Regular", X[0]]] + [[rng.choice(["C", "F", "Cl"]), 0, 0, None, "Regular", x] for x in X[1:]]
    return {"cls": "Molecule", "atoms": atoms, "bonds": [[0, 1, "Single", 1.0], [0, 2, "Single", 1.0], [0, 3, "Single", 1.0]], "targets": None}


FIXED = [
    # the three repaired defects, and small named molecules
    ("methane", {"cls": "Molecule", "atoms": [["C", 0, 0, None, "Regular", [0, 0, 0]]], "bonds": [], "targets": None}),
    ("water", {"cls": "Molecule", "atoms": [["O", 0, 0, None, "Regular", [0.5, 0.25, -1]]], "bonds": [], "targets": None}),
    ("ammonia", {"cls": "Structure", "atoms": [["N", 0, 0, None, "Regular", [0, 0, 0]]], "bonds": [], "targets": None}),
    ("borane", {"cls": "Structure", "atoms": [["B", 0, 0, None, "Regular", [0, 0, 0]]], "bonds": [], "targets": None}),
    ("hydroxide", {"cls": "Molecule", "atoms": [["O", -1, 0, None, "Regular", [0, 0, 0]]], "bonds": [], "targets": None}),
    ("silane", {"cls": "Molecule", "atoms": [["Si", 0, 0, None, "Regular", [1, 2, 3]]], "bonds": [], "targets": None}),
    ("HF-explicit", {"cls": "Molecule", "atoms": [["F", 0, 0, None, "Regular", [0, 0, 0]]], "bonds": [], "targets": [0]}),
    ("ethene-z", {"cls": "Molecule", "atoms": [["C", 0, 0, None, "Regular", [0, 0, 0]], ["C", 0, 0, None, "Regular", [0, 0, 1.25]]],
                  "bonds": [[0, 1, "Double", 1.0]], "targets": None}),
    ("ethene-x", {"cls": "Molecule", "atoms": [["C", 0, 0, None, "Regular", [0, 0, 0]], ["C", 0, 0, None, "Regular", [1.25, 0, 0]]],
                  "bonds": [[0, 1, "Double", 1.0]], "targets": None}),
    ("ethane-z", {"cls": "Molecule", "atoms": [["C", 0, 0, None, "Regular", [0, 0, 0]], ["C", 0, 0, None, "Regular", [0, 0, 1.5]]],
                  "bonds": [[0, 1, "Single", 1.0]], "targets": None}),
    ("ethane-y", {"cls": "Structure", "atoms": [["C", 0, 0, None, "Regular", [0, 0, 0]], ["C", 0, 0, None, "Regular", [0, -1.5, 0]]],
                  "bonds": [[0, 1, "Single", 1.0]], "targets": None}),
    ("hinted-methyl", {"cls": "Molecule", "atoms": [["C", 0, 0, 3, "Regular", [0, 0, 0]], ["Cl", 0, 0, None, "Regular", [1.5, 0.5, 0.25]]],
                       "bonds": [[0, 1, "Single", 1.0]], "targets": None}),
    ("hint-zero", {"cls": "Molecule", "atoms": [["C", 0, 0, 0, "Regular", [0, 0, 0]], ["C", 0, 0, None, "Regular", [1.5, 0.5, 0.25]]],
                   "bonds": [[0, 1, "Single", 1.0]], "targets": None}),
]


def cdxml_specs(ml):
    d = os.path.dirname(ml.files.__file__)
    out = []
    for f in sorted(glob.glob(os.path.join(d, "*.cdxml"))):
        try:
            cf = ml.CDXMLFile(f)
            keys = list(cf.keys())
        except Exception:
            continue
        for k in keys:
            out.append({"cdxml": os.path.basename(f), "key": k})
    return out


# =================================================================== sessions: call -> edit in place -> call again
# The routine is a method of a mutable object.  A session drives ONE live object through several calls with in-place
# edits in between (element, formal charge, spin, hint, atom type, bond type/order, coordinates, hydrogens deleted,
# bonds deleted, atoms added, a clone taken), or first through a call restricted to a few atoms and then through the
# whole-molecule call, or reads every accessor of the object before editing it.  Before EVERY call the expected
# counts, neighbours and directions are recomputed independently from the object's CURRENT state, so anything the
# implementation remembers from an earlier call or read (a memoised electron count, bonded valence, neighbour list,
# selection, radius, coordinate block ...) shows up as a violation on a concrete, replayable session.
SESSION_ELEMS = ["B", "C", "C", "N", "N", "O", "O", "Si", "P", "S", "Al", "Ge", "As", "Se", "F", "Cl", "Fe"]
EDIT_KINDS = ["element", "charge", "spin", "hint", "atype", "btype", "move", "shift", "strip", "delbond", "addatom", "clone"]


def touch(m):
    """Read every public property of every atom and the per-atom accessors of the structure (no mutation intended):
    whatever the implementation memoises is now primed with the state BEFORE the edits."""
    props = [n for n in dir(type(m.atoms[0])) if not n.startswith("_") and isinstance(getattr(type(m.atoms[0]), n, None), property)] if m.atoms else []
    for a in list(m.atoms):
        for n in props:
            try:
                getattr(a, n)
            except Exception:
                pass
        for f in ("bonded_valence", "connected_atoms", "bonds_with_atom", "get_atom_coord", "n_bonds_with_atom", "get_atom_index"):
            try:
                r = getattr(m, f)(a)
                if not isinstance(r, (int, float, str)) and hasattr(r, "__iter__"):
                    list(r)
            except Exception:
                pass
    for n in ("formula", "n_atoms", "n_bonds", "elements", "coords"):
        try:
            getattr(m, n)
        except Exception:
            pass


def find_bond(m, i, j):
    if max(i, j) >= len(m.atoms):
        return None
    ai, aj = m.atoms[i], m.atoms[j]
    for b in m.bonds:
        if (b.a1 is ai and b.a2 is aj) or (b.a1 is aj and b.a2 is ai):
            return b
    return None


def neighbours_of(m, i):
    ai = m.atoms[i]
    return [(b.a2 if b.a1 is ai else b.a1) for b in m.bonds if b.a1 is ai or b.a2 is ai]


def apply_edit(ml, m, e, n_base):
    """One in-place edit of the live object, resolved against its current state.  Returns (object, applied?)."""
    import numpy as np
    from molli.chem import Atom, Bond, BondType, AtomType, Element
    kind = e[0]
    if kind == "clone":
        return type(m)(m), True
    if kind == "shift":
        d = np.array([float(x) for x in e[1]])
        if e[2]:
            m.translate(d)
        else:
            m.coords = m.coords + d
        return m, True
    i = e[1]
    if i >= len(m.atoms):
        return m, False
    a = m.atoms[i]
    if kind == "element":
        sym, how = e[2], e[3]
        a.element = sym if how == "str" else Element[sym] if how == "enum" else int(Element[sym])
    elif kind == "charge":
        a.formal_charge = e[2]
    elif kind == "spin":
        a.formal_spin = e[2]
    elif kind == "hint":
        if e[2] is None:
            a.attrib.pop(HINT, None)
        else:                                        # a hint that fits the valence shell: neighbours + hydrogens <= 4
            a.attrib[HINT] = max(0, min(e[2], 4 - len(neighbours_of(m, i))))
    elif kind == "atype":
        a.atype = AtomType[e[2]]
    elif kind == "btype":
        b = find_bond(m, i, e[2])
        if b is None:
            return m, False
        b.btype = BondType[e[3]]
        b.f_order = float(e[4])
    elif kind == "delbond":
        b = find_bond(m, i, e[2])
        if b is None:
            return m, False
        m.del_bond(b)
    elif kind == "move":
        d = np.array([float(x) for x in e[2]])
        if e[3]:
            m.coords[i] = m.coords[i] + d
        else:
            c = np.array(m.coords, dtype=float)
            c[i] += d
            m.coords = c
    elif kind == "strip":                            # delete up to n of the hydrogens the routine put on atom i
        idx = {id(x): k for k, x in enumerate(m.atoms)}
        hs = [x for x in neighbours_of(m, i) if idx[id(x)] >= n_base and int(x.element) == 1]
        hs = (hs if e[3] else hs[::-1])[:e[2]]
        if not hs:
            return m, False
        for h in hs:
            m.del_atom(h)
    elif kind == "addatom":
        if len(neighbours_of(m, i)) >= 4:
            return m, False
        c = np.array(m.coords[i], dtype=float) + np.array([float(x) for x in e[3]])
        if np.min(np.linalg.norm(np.array(m.coords, dtype=float) - c, axis=1)) < 0.9:
            return m, False
        x = Atom(e[2])
        m.add_atom(x, c)
        m.append_bond(Bond(a, x, btype=BondType[e[4]]))
    else:
        raise ValueError(kind)
    return m, True


def degenerate_target(X0, it):
    """Would placing hydrogens on this target divide by (nearly) zero?  Such geometry is outside the property's
    quantifier ('non-degenerate geometry'); in a session it can arise from the edits, and the target is left out."""
    if (it["k"] or 0) <= 0 or not it["nb"]:
        return False
    a = X0[it["t"]]
    rs = [vsub(X0[j], a) for j in it["nb"]]
    eps = Fr(1, 25)
    if len(rs) == 3:
        n = vcross(vsub(rs[1], rs[0]), vsub(rs[2], rs[0]))
        return vdot(n, n) < eps
    c = vmean(rs)
    if vdot(c, c) < eps:
        return True
    if len(rs) == 2 and it["k"] == 2:
        z = vcross(rs[0], rs[1])
        return vdot(z, z) < eps
    return False


def run_session(ml, sess):
    """Drive one live object through the session.  Returns (Coq term or None, violations, stats).  The session stops at
    the first call on which the oracle objects (what follows would be judged on a state that is already wrong)."""
    stats = {"calls": 0, "phases": [], "edits": [], "branches": [], "anti": 0, "added": 0, "excluded": 0, "adds_after": 0, "steps": 0}
    try:
        m = build(ml, sess["base"])
    except Exception as e:
        return None, [("C16:input", f"build: {type(e).__name__}: {e}")], dict(stats, skipped=str(e))
    n_base = len(m.atoms)
    viol, init, steps = [], None, []
    since, log = set(), []
    for st in sess["steps"]:
        stats["steps"] += 1
        if st[0] == "touch":
            touch(m)
            since.add("touch")
            continue
        if st[0] == "edit":
            try:
                m, done = apply_edit(ml, m, st[1], n_base)
            except Exception as e:
                viol.append(("C16:session:edit-raised:" + st[1][0], f"the in-place edit {st[1]} raised {type(e).__name__}: {e}"))
                break
            if done:
                since.add("edit")
                log.append(st[1])
                stats["edits"].append(st[1][0])
            continue
        # ---- a call: everything expected is recomputed from the object's current state
        try:
            pre = dict(zip(("atoms0", "bonds0", "X0"), chem_of(snapshot(m))))
        except (KeyError, ValueError, OverflowError):
            break
        req = st[1]
        if req is not None:
            req = [t for k, t in enumerate(req) if t < len(pre["atoms0"]) and t not in req[:k]
                   and (GROUP_OF.get(sym_of(ml, pre["atoms0"][t][0])) is not None or pre["atoms0"][t][3] is not None)]
            if not req:
                continue
        tg, info = analyse(ml, {"targets": req}, pre)
        bad = {i["t"] for i in info if degenerate_target(pre["X0"], i)}
        targets = req
        if bad:
            stats["excluded"] += len(bad)
            info = [i for i in info if i["t"] not in bad]
            tg = targets = [t for t in tg if t not in bad]
            if not targets:
                continue
        phase = (("first" if not since else "after-read" if since == {"touch"} else "after-read-and-edit") if stats["calls"] == 0
                 else ("after-call-and-edit" if "edit" in since else "after-call"))
        ob = observe_obj(ml, m, targets)
        if "error" in ob:
            break
        v = judge(ml, {"targets": targets}, ob, tg, info)
        stats["calls"] += 1
        stats["phases"].append(phase)
        stats["branches"] += [f"k={max(i['k'] or 0, 0)}:nn={len(i['nb'])}" + (":planar" if i["w"]["planar"] else "")
                              + ("" if i["w"]["ok"] else ":degenerate") for i in info]
        stats["anti"] += sum(1 for i in info if i["w"]["anti"])
        added = len(ob["after"]["atoms"]) - ob["n0"]
        stats["added"] += added
        if added and phase != "first":
            stats["adds_after"] += 1
        for sig, text in v:
            viol.append(("C16:session:" + phase + ":" + sig[4:],
                         f"call {stats['calls']} of a session on one object ({phase}; edits since the previous call: "
                         f"{json.dumps(log) if log else 'none'}; targets {targets}): {text}"))
        parts = None if ob["raised"] else call_parts(ob, targets, info)
        if parts is not None:
            if init is None:
                init = f"{parts['A0']}\n  {parts['B0']}\n  {parts['X0']}"
            elif "edit" in since:
                steps.append(f"OEdit {parts['A0']}\n   {parts['B0']}\n   {parts['X0']}")
            steps.append(f"OCall {parts['T']} {parts['W']}\n   {parts['A1']}\n   {parts['B1']}\n   {parts['X1']}")
        since, log = set(), []
        if v or parts is None:
            break
    term = None if init is None else "(CSess " + init + "\n  [" + ";\n   ".join(steps) + "])"
    return term, viol, stats


def gen_edits(rng, base, syms, hot=None):
    """1-3 in-place edits of base atoms.  `syms` (current element of every base atom) is updated."""
    alld, _ = directions()
    n = len(base["atoms"])
    main = [i for i in range(n) if GROUP_OF.get(syms[i]) in (13, 14, 15, 16)] or list(range(n))
    out = []

    def pick():
        if hot is not None and rng.random() < 0.5:
            return hot
        return rng.choice(main) if rng.random() < 0.8 else rng.randrange(n)

    def element(i):
        new = rng.choice([x for x in SESSION_ELEMS if x != syms[i]])
        syms[i] = new
        return ["element", i, new, rng.choice(["str", "enum", "int"])]

    for _ in range(rng.choice([1, 1, 2, 2, 3])):
        r = rng.random()
        i = pick()
        if r < 0.22:
            out.append(element(i))
        elif r < 0.42:                                  # the hydrogens go, the atom becomes something else
            out.append(["strip", i, rng.choice([1, 1, 2, 4]), rng.random() < 0.5])
            if rng.random() < 0.8:
                out.append(element(i))
        elif r < 0.50:
            out.append(["charge", i, rng.choice([-1, 0, 1, 1])])
        elif r < 0.57:
            out.append(["spin", i, rng.choice([0, 1, 2, -1])])
        elif r < 0.68 and base["bonds"]:
            b = rng.choice(base["bonds"])
            bt = rng.choice(["Single", "Single", "Double", "Triple", "Aromatic", "FractionalOrder", "Amide", "Dummy"])
            out.append(["btype", b[0], b[1], bt, rng.choice([1.25, 1.5, 1.75, 2.5]) if bt == "FractionalOrder" else 1.0])
        elif r < 0.73:
            out.append(["hint", i, rng.choice([None, None, 0, 1, 2, 3])])
        elif r < 0.77:
            out.append(["atype", i, rng.choice(["Regular", "Aromatic", "Unknown", "CoordinationCenter"])])
        elif r < 0.83:
            out.append(["move", i, [rng.randint(-2, 2) / 16 for _ in range(3)], rng.random() < 0.5])
        elif r < 0.86:
            out.append(["shift", [rng.randint(-8, 8) / 4 for _ in range(3)], rng.random() < 0.5])
        elif r < 0.90 and base["bonds"]:
            b = rng.choice(base["bonds"])
            out.append(["delbond", b[0], b[1]])
        elif r < 0.96:
            out.append(["addatom", i, rng.choice(["C", "N", "O", "F", "Cl", "S"]), [float(c) for c in rng.choice(alld)],
                        rng.choice(["Single", "Single", "Double"])])
        else:
            out.append(["clone"])
    return [["edit", e] for e in out]


def gen_session(rng):
    base = gen_spec(rng)
    base["targets"] = None
    syms = [a[0] for a in base["atoms"]]
    n = len(syms)

    def subset():
        cand = [i for i in range(n) if GROUP_OF.get(syms[i]) is not None or base["atoms"][i][3] is not None]
        rng.shuffle(cand)
        return cand[:rng.randint(1, min(3, max(1, len(cand))))]

    main = [i for i in range(n) if GROUP_OF.get(syms[i]) in (13, 14, 15, 16)]
    hot = rng.choice(main) if main else None
    pat = rng.random()
    if pat < 0.40:                                      # call, edit, call (, call)
        steps = [["call", None]] + gen_edits(rng, base, syms, hot) + [["call", None]]
        if rng.random() < 0.4:
            steps.append(["call", None])
    elif pat < 0.52:                                    # a few atoms first, then the whole molecule, then again
        steps = [["call", subset()], ["call", None], ["call", None]]
    elif pat < 0.66:                                    # a few atoms, edit, the whole molecule
        steps = [["call", subset()]] + gen_edits(rng, base, syms, hot) + [["call", None]]
    elif pat < 0.80:                                    # read everything, edit, call
        steps = [["touch"]] + gen_edits(rng, base, syms, hot) + [["call", None]]
        if rng.random() < 0.5:
            steps += gen_edits(rng, base, syms, hot) + [["call", rng.choice([None, None, subset()])]]
    else:                                               # two rounds of edits
        steps = ([["call", None]] + gen_edits(rng, base, syms, hot) + [["call", rng.choice([None, None, subset()])]]
                 + gen_edits(rng, base, syms, hot) + [["call", None]])
    return {"base": base, "steps": steps}


def ring_session(rng):
    """An aromatic six-ring skeleton (the atoms keep three neighbours after the first call) whose atoms are then
    exchanged for other elements with or without losing their hydrogen."""
    k = rng.randint(0, 5)
    X = [[1.375 * math.cos(i * math.pi / 3 + 0.25 * k), 1.375 * math.sin(i * math.pi / 3 + 0.25 * k), 0.0625 * i] for i in range(6)]
    syms = [rng.choice(["C", "C", "C", "N"]) for _ in range(6)]
    base = {"cls": rng.choice(["Molecule", "Structure"]), "atoms": [[s, 0, 0, None, "Regular", [round(c * 64) / 64 for c in x]] for s, x in zip(syms, X)],
            "bonds": [[i, (i + 1) % 6, "Aromatic", 1.0] for i in range(6)], "targets": None}
    steps = [["call", None]]
    for _ in range(rng.randint(1, 2)):
        i = rng.randrange(6)
        if rng.random() < 0.6:
            steps.append(["edit", ["strip", i, 1, True]])
        new = rng.choice([x for x in ["B", "C", "N", "O", "Si", "P", "S"] if x != syms[i]])
        syms[i] = new
        steps.append(["edit", ["element", i, new, rng.choice(["str", "enum", "int"])]])
    steps += [["call", None], ["call", None]]
    return {"base": base, "steps": steps}


FIXED_SESSIONS = [
    # isolated atom: call, the caller strips the hydrogens and exchanges the element, call, call
    ("lone:" + a + "->" + b, {"base": {"cls": cls, "atoms": [[a, 0, 0, None, "Regular", [0.25, -0.25, 1]]], "bonds": [], "targets": None},
                             "steps": [["call", None], ["edit", ["strip", 0, 4, True]], ["edit", ["element", 0, b, how]], ["call", None], ["call", None]]})
    for a, b, cls, how in [("C", "N", "Structure", "enum"), ("N", "C", "Molecule", "str"), ("O", "B", "Molecule", "int"), ("C", "O", "Structure", "str"),
                           ("S", "Si", "Molecule", "enum"), ("B", "P", "Structure", "int"), ("C", "F", "Molecule", "str"), ("Cl", "C", "Molecule", "enum")]
] + [
    # nothing stripped: the saturated atom becomes an element with more room
    ("kept:" + a + "->" + b, {"base": {"cls": "Molecule", "atoms": [[a, 0, 0, None, "Regular", [0, 0, 0]], ["Cl", 0, 0, None, "Regular", [1.5, 0.5, 0.25]]],
                                      "bonds": [[0, 1, "Single", 1.0]], "targets": None},
                             "steps": [["call", None], ["edit", ["element", 0, b, "str"]], ["call", None], ["call", None]]})
    for a, b in [("N", "C"), ("O", "N"), ("O", "C"), ("B", "C"), ("S", "Si"), ("P", "C")]
] + [
    ("charge-then-call", {"base": {"cls": "Molecule", "atoms": [["N", 1, 0, None, "Regular", [0, 0, 0]], ["C", 0, 0, None, "Regular", [1.25, 0.5, 0.25]]],
                                   "bonds": [[0, 1, "Single", 1.0]], "targets": None},
                          "steps": [["call", None], ["edit", ["strip", 0, 1, True]], ["edit", ["charge", 0, 0]], ["call", None], ["call", None]]}),
    ("bond-then-call", {"base": {"cls": "Structure", "atoms": [["C", 0, 0, None, "Regular", [0, 0, 0]], ["C", 0, 0, None, "Regular", [1.25, 0.25, 0.5]]],
                                 "bonds": [[0, 1, "Triple", 1.0]], "targets": None},
                        "steps": [["call", None], ["edit", ["btype", 0, 1, "Double", 1.0]], ["call", None], ["call", None]]}),
    ("subset-then-all", {"base": {"cls": "Molecule", "atoms": [["C", 0, 0, None, "Regular", [0, 0, 0]], ["N", 0, 0, None, "Regular", [1.25, 0.5, 0.25]],
                                                             ["O", 0, 0, None, "Regular", [2.0, 1.5, 0.5]]],
                                  "bonds": [[0, 1, "Single", 1.0], [1, 2, "Single", 1.0]], "targets": None},
                         "steps": [["call", [1]], ["call", None], ["call", None]]}),
]


# =================================================================== run / replay
HEADER = ("From Coq Require Import List ZArith NArith QArith.\nImport ListNotations.\n"
          "From Molli Require Import Common.Field3 Model.Hadd.\n")


def process(ml, spec, idem=True):
    """One molecule: observe, analyse, judge.  Returns (term or None, violations, stats dict)."""
    ob = observe(ml, spec)
    if "error" in ob:
        return None, [("C16:input", ob["error"])] if "cdxml" not in spec else [], {"skipped": ob["error"]}
    tg, info = analyse(ml, spec, ob)
    viol = judge(ml, spec, ob, tg, info)
    stats = {"targets": len(tg), "branches": [f"k={max(i['k'] or 0, 0)}:nn={len(i['nb'])}" + (":planar" if i["w"]["planar"] else "")
                                              + ("" if i["w"]["ok"] else ":degenerate") for i in info],
             "anti": sum(1 for i in info if i["w"]["anti"]),
             "hinted": any(h is not None for h in ob["before"]["hints"]), "added": len(ob["after"]["atoms"]) - ob["n0"]}
    term = None if ob["raised"] else case_term(ml, spec, ob, tg, info)
    if idem and not ob["raised"] and not stats["hinted"] and spec.get("targets") is None:
        viol += judge_idempotent(ml, ob)
        stats["idem"] = True
    return term, viol, stats


def all_specs(ctx, ml):
    rng = ctx.rng
    n_rand = 420 if not ctx.thorough else 6000
    items = [("fixed:" + nm, sp) for nm, sp in FIXED]
    items += [("planar", planar_spec(rng)) for _ in range(6 if not ctx.thorough else 40)]
    items += [("random", gen_spec(rng)) for _ in range(n_rand)]
    items += [("cdxml", sp) for sp in cdxml_specs(ml)]
    return items


def all_sessions(ctx):
    rng = ctx.rng
    items = [("session-fixed:" + nm, se) for nm, se in FIXED_SESSIONS]
    items += [("session-ring", ring_session(rng)) for _ in range(12 if not ctx.thorough else 120)]
    items += [("session-random", gen_session(rng)) for _ in range(110 if not ctx.thorough else 1200)]
    return items


def search_count_witness(ml, rep, tables):
    """The S/T obligations broke: look for an atom on which the implementation's count differs from the property's
    (small exhaustive family: element x charge x spin x bond pattern on a lone centre with dummy-free neighbours)."""
    found = False
    pats = [[], ["Single"], ["Double"], ["Triple"], ["Aromatic", "Aromatic"], ["Single", "Single"], ["Single", "Double"],
            ["Single", "Single", "Single"], ["Aromatic", "Aromatic", "Single"], ["FractionalOrder"], ["Single", "FractionalOrder"]]
    pos = [[1.5, 0.25, 0.5], [-0.75, 1.25, 0.5], [-0.5, -1.25, 0.75]]
    for sym in ["B", "C", "N", "O", "Si", "P", "S", "F", "Cl", "Fe", "H"]:
        for fc in (-1, 0, 1):
            for spin in (0, 1, 2, -1, -2):
                for pat in pats:
                    atoms = [[sym, fc, spin, None, "Regular", [0, 0, 0]]] + [["Cl", 0, 0, None, "Regular", p] for p in pos[:len(pat)]]
                    bonds = [[0, i + 1, bt, 1.5 if bt == "FractionalOrder" else 1.0] for i, bt in enumerate(pat)]
                    spec = {"cls": "Molecule", "atoms": atoms, "bonds": bonds, "targets": None}
                    _, viol, _ = process(ml, spec)
                    for sig, text in viol:
                        found = True
                        rep.violate(sig, text, {"kind": "spec", "spec": spec})
    return found


def run(ctx, rep):
    warnings.simplefilter("ignore")
    import molli as ml
    rep.rule = ("a case = one molecule (random organic-like with exact dyadic coordinates, fixed small molecules, every bundled CDXML "
                "fragment) driven through add_implicit_hydrogens; non-trivial when at least one hydrogen was added and the "
                "molecule before/after was compared with the model inside Coq; distinct by molecule description.  "
                "A session (one live object: call, in-place edits, call again; or a call on a few atoms and then on the whole "
                "molecule) is one case, non-trivial when it has at least two compared calls and hydrogens were added")
    rep.trusted += ["harness/c16.py: T-emitter (tables, default selection observed by running the routine on a lone hinted atom of "
                    "every element), fail-closed ast extractor of the count expression, generators, float -> exact rational encoding, "
                    "2^-60 square-root witnesses and observed mean_plane normals (both re-checked inside Coq)",
                    "CPython/numpy executing molli (IEEE rounding, np.linalg.svd inside mean_plane, np.cross, np.argmin)",
                    "CDXML parsing itself is NOT verified here (C13): the parsed fragment is the input"]
    rep.assumptions += ["model vs implementation: atoms/bonds/hints exactly, old coordinate rows bit-identical, new rows within 1e-9",
                        "oracle: |H - atom| within a relative 1e-4 of the sum of single-bond covalent radii (Pyykko 2009); the two-hydrogen "
                        "branch is longer by a factor sqrt(0.5736^2 + 0.8192^2) = 1.0000528 (C16_dist2), accepted at this tolerance",
                        "targets are distinct atoms; explicit targets outside groups 13-18 carry a hint (otherwise valence_electrons raises)",
                        "'pointing away' is judged when the neighbourhood is non-degenerate (centroid off the atom, two neighbours not "
                        "collinear, three neighbours not coplanar with the atom: |align| > 0.05) and no CoordinationCenter neighbour is skipped",
                        "hints are integers in 0..4",
                        "sessions: the edits between the calls are the harness's own (attribute assignment on Atom/Bond, the coords "
                        "setter, del_atom/del_bond/add_atom/append_bond, the copy constructor); a target whose CURRENT neighbourhood is "
                        "degenerate (centroid within 0.2 A of the atom, two neighbours collinear with it, three collinear neighbours) "
                        "is left out of the call, which then names its targets explicitly; a session stops at its first violating call"]
    import time
    t0 = time.time()
    tables, extraction, refusal = regen(ml)
    ok, out, where = vlib.build_props(ctx, rep, "C16")
    t1 = time.time()
    rep.oblig("T/S-extraction", refusal is None)
    terms, owners, found = [], [], False
    items = all_specs(ctx, ml)
    viol_at = {}
    for n, (kind, spec) in enumerate(items):
        term, viol, stats = process(ml, spec)
        rep.count(kind.split(":")[0])
        for br in stats.get("branches", []):
            rep.count("branch:" + br)
        if stats.get("anti"):
            rep.count("rotation:antiparallel-branch", stats["anti"])
        if stats.get("hinted"):
            rep.count("hinted-molecule")
        if stats.get("idem"):
            rep.count("second-call-checked")
        for sig, text in viol:
            found = True
            viol_at.setdefault(n, []).append(sig)
            rep.violate(sig, f"[{kind}] {text}", {"kind": "spec", "spec": spec})
        if term is None:
            rep.case(key=None)
            rep.count("not-compared")
            continue
        rep.case(key=(json.dumps(spec, sort_keys=True) if stats.get("added") else None),
                 sample=({"kind": kind, "spec": spec, "branches": stats["branches"]} if n % 61 == 0 else None))
        terms.append(term)
        owners.append(n)
    # ---- sessions: several calls on one live object, edited in place between the calls
    weight = [1] * len(terms)
    for kind, sess in all_sessions(ctx):
        n = len(items)
        items.append((kind, sess))
        term, viol, stats = run_session(ml, sess)
        rep.count(kind.split(":")[0])
        rep.count("session:calls", stats["calls"])
        for ph in stats["phases"]:
            rep.count("session:call:" + ph)
        for ek in stats["edits"]:
            rep.count("session:edit:" + ek)
        for br in stats["branches"]:
            rep.count("session:branch:" + br)
        if stats["anti"]:
            rep.count("rotation:antiparallel-branch", stats["anti"])
        if stats["adds_after"]:
            rep.count("session:later-call-adds-hydrogens", stats["adds_after"])
        if stats["excluded"]:
            rep.count("session:degenerate-target-left-out", stats["excluded"])
        for sig, text in viol:
            found = True
            viol_at.setdefault(n, []).append(sig)
            rep.violate(sig, f"[{kind}] {text}", {"kind": "session", "session": sess})
        if term is None:
            rep.case(key=None)
            rep.count("not-compared")
            continue
        rep.case(key=(json.dumps(sess, sort_keys=True) if stats["added"] and stats["calls"] > 1 else None),
                 sample=({"kind": kind, "session": sess, "phases": stats["phases"]} if n % 37 == 0 else None))
        terms.append(term)
        owners.append(n)
        weight.append(max(1, stats["calls"]))
    size = 30 if not ctx.thorough else 120
    nsh = max(1, -(-sum(weight) // size))
    if not ctx.thorough:
        nsh = min(nsh, max(1, (os.cpu_count() or 4)))            # one wave of coqc processes
    order = [j for s0 in range(nsh) for j in range(s0, len(terms), nsh)]
    terms = [terms[j] for j in order]
    owners = [owners[j] for j in order]
    size = max(1, -(-len(terms) // nsh))
    t2 = time.time()
    bad = vlib.run_shards(ctx, rep, "c16", HEADER, "check", terms, shard=size, timeout=900, case_type="case")
    rep.extra["shard_cases"] = len(terms)
    rep.extra["compared_calls"] = sum(weight)
    rep.extra["wall_s"] = {"tables+props": round(t1 - t0, 1), "drive+oracle": round(t2 - t1, 1), "shards": round(time.time() - t2, 1), "shard_files": nsh}
    if bad is None:
        vlib.broken_obligation(rep, "corr_c16", "a correspondence shard did not compile: " + str(rep.extra.get("shard_errors", ""))[-800:], found)
    elif bad:
        unexplained = [owners[b] for b in bad if owners[b] not in viol_at]
        rep.extra["mismatching_cases"] = [items[owners[b]][1] for b in bad[:6]]
        if unexplained:
            more = False
            for n in unexplained[:10]:
                for v in neighbourhood(ctx, ml, items[n][1]):
                    more = True
                    rep.violate(v.sig, v.what, v.replay)
            if not more:
                vlib.broken_obligation(rep, "corr_c16", f"{len(unexplained)} molecule(s) on which model and implementation differ although the "
                                       f"oracle accepts them, e.g. {json.dumps(items[unexplained[0]][1])[:700]}", found)
    if refusal or not ok:
        found = search_count_witness(ml, rep, tables) or found
        if refusal:
            vlib.broken_obligation(rep, "C16_extraction", refusal, found)
        if not ok:
            vlib.broken_obligation(rep, "C16_props", f"{where}\n{out[-1500:]}", found)


def neighbourhood(ctx, ml, spec):
    """Oracle over variations of a molecule on which model and implementation disagree."""
    out = []
    if "cdxml" in spec or "base" in spec:
        return out
    import random
    r = random.Random(7)
    for _ in range(40):
        s = copy.deepcopy(spec)
        for a in s["atoms"]:
            if r.random() < 0.3:
                a[0] = r.choice(MAIN)
            if r.random() < 0.2:
                a[1] = r.choice([-1, 0, 1])
            a[3] = None
        for b in s["bonds"]:
            if r.random() < 0.3:
                b[2] = r.choice(["Single", "Double", "Aromatic"])
        _, viol, _ = process(ml, s)
        out += [vlib.Violation(sig, text, {"kind": "spec", "spec": s}) for sig, text in viol]
        if out:
            break
    return out


def replay(ctx, data):
    warnings.simplefilter("ignore")
    import molli as ml
    if data.get("kind") == "session":
        _, viol, _ = run_session(ml, data["session"])
        return [vlib.Violation(sig, text, data) for sig, text in viol]
    if data.get("kind") != "spec":
        return []
    _, viol, _ = process(ml, data["spec"])
    return [vlib.Violation(sig, text, data) for sig, text in viol]
