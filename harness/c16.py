"""C16 -- adding implicit hydrogens only completes valences.

Ties
  T  Gen/Valence.v   every Element: group, valence_electrons (None = KeyError), cov_radius_1, and whether
                     add_implicit_hydrogens() selects it by default (observed by running it on a lone hinted atom);
                     IMPLICIT_VALENCE, VALENCE_ELECTRONS; Bond.order for every BondType member (constant or
                     the bond's f_order); TETRAHEDRON; defaults of Atom("H") / Bond(a, h).
  S  Gen/HaddExpr.v  fail-closed ast extraction of the hydrogen-count arithmetic of add_implicit_hydrogens
                     (electrons, bonded, hs_to_add, inlined) into Common/HExpr.hexpr, plus the shape of the
                     hint override (`(hs := a.attrib.pop(KEY, None)) is not None: pass`) and of the `> 0` guard.
  H  random organic-like molecules with exact rational coordinates and every bundled CDXML fragment driven
     through the real Structure/Molecule.add_implicit_hydrogens; the molecule before, the square-root /
     plane-normal witnesses and the molecule after go to Coq, where Model/Hadd.check re-runs the model
     (counts, new atoms, new bonds exactly; coordinates within 1e-9) by vm_compute.
Oracle (implementation alone): deep snapshot before/after (nothing but new hydrogens), per-atom count against an
independent valence calculation, each new H bonded once to its atom, distance = sum of covalent radii
(relative 1e-4, see Props/C16.v C16_dist2), finite, pointing away from the centroid of the old neighbours,
second call on a hint-free molecule adds nothing.
"""
import ast, os, math, json, glob, warnings, copy
from fractions import Fraction as Fr
import vlib
from vlib import cq_list, cq_Q, cq_Z, cq_N, cq_nat, cq_opt, cq_bool, cq_str

HINT = "__implicit_hydrogens"
STRUCTURE_PY = "molli/chem/structure.py"


class Refuse(Exception):
    pass


# =================================================================== tie T: tables
def vq(v):
    return "(" + ", ".join(cq_Q(Fr(float(x))) for x in v) + ")"


def observe_selected(ml, e):
    """Does add_implicit_hydrogens() (no arguments) process an atom of element e?  Observed on a lone atom that
    carries the hint 1: one hydrogen appears iff the atom was selected."""
    from molli.chem import Structure, Atom
    s = Structure()
    a = Atom(e, attrib={HINT: 1})
    s.add_atom(a, [0.0, 0.0, 0.0])
    s.add_implicit_hydrogens()
    if s.n_atoms == 1 and HINT in a.attrib:
        return False
    if s.n_atoms == 2 and HINT not in a.attrib:
        return True
    raise Refuse(f"default selection of {e!r}: {s.n_atoms} atoms afterwards, hint {'kept' if HINT in a.attrib else 'consumed'}")


def table_rows(ml):
    from molli.chem import Element, Atom, Bond, BondType, AtomType
    from molli.chem import atom as atom_mod
    from molli.math.polyhedra import TETRAHEDRON
    els = []
    for e in Element:
        g = e.group
        try:
            ve = Atom(e).valence_electrons
        except KeyError:
            ve = None
        r = e.cov_radius_1
        try:
            sel = observe_selected(ml, e)
        except Refuse:
            raise
        except Exception as ex:           # e.g. no covalent radius: selected and then failed
            raise Refuse(f"default selection of {e!r} raised {type(ex).__name__}: {ex}")
        if g is not None and not isinstance(g, int):
            raise Refuse(f"group of {e!r} is {g!r}")
        els.append((int(e), g, ve, None if r is None else Fr(float(r)), sel))
    a, b = Atom("C"), Atom("C")
    orders = []
    for bt in BondType:
        o1 = Bond(a, b, btype=bt, f_order=0.25).order
        o2 = Bond(a, b, btype=bt, f_order=0.75).order
        if o1 == 0.25 and o2 == 0.75:
            orders.append((int(bt), None))
        elif o1 == o2:
            orders.append((int(bt), Fr(float(o1))))
        else:
            raise Refuse(f"Bond.order of {bt!r} depends on f_order in an unexpected way: {o1}, {o2}")
    h = Atom("H")
    nb = Bond(a, h)
    return {
        "elements": els,
        "implicit_valence": sorted((int(k), int(v)) for k, v in atom_mod.IMPLICIT_VALENCE.items()),
        "valence_electrons": sorted((int(k), int(v)) for k, v in atom_mod.VALENCE_ELECTRONS.items()),
        "orders": orders,
        "tet": [[float(x) for x in r] for r in TETRAHEDRON],
        "h": (int(h.element), int(h.formal_charge), int(h.formal_spin), int(h.atype)),
        "newbond": (int(nb.btype), Fr(float(nb.f_order))),
        "cc": int(AtomType.CoordinationCenter),
    }


def gen_valence_text(t):
    def optZ(x):
        return cq_opt(x, cq_Z)
    els = ";\n".join(f"  ({cq_N(z)}, {optZ(g)}, {optZ(ve)}, {cq_opt(r, cq_Q)}, {cq_bool(sel)})" for z, g, ve, r, sel in t["elements"])
    orders = ";\n".join(f"  ({cq_N(bt)}, {'OFrac' if o is None else '(OConst ' + cq_Q(o) + ')'})" for bt, o in t["orders"])
    if len(t["tet"]) != 4:
        raise Refuse("TETRAHEDRON does not have four rows")
    return ("(* regenerated from /repo on every run by harness/c16.py (tie T):\n"
            "   elements          Element -> (atomic number, group, valence_electrons (None: KeyError), cov_radius_1,\n"
            "                     selected by add_implicit_hydrogens() without arguments -- observed by running it)\n"
            "   implicit_valence  atom.IMPLICIT_VALENCE      valence_electrons  atom.VALENCE_ELECTRONS   (group -> n)\n"
            "   bond_orders       BondType member -> Bond.order (a constant, or the bond's own f_order)\n"
            "   tetrahedron       molli.math.polyhedra.TETRAHEDRON, the doubles as exact rationals\n"
            "   h_defaults        Atom(\"H\"): (element, formal_charge, formal_spin, atype)\n"
            "   newbond_defaults  Bond(a, h): (btype, f_order)      cc_atype  AtomType.CoordinationCenter *)\n"
            "From Coq Require Import List ZArith NArith QArith.\nFrom Molli Require Import Common.Field3 Common.HExpr.\nImport ListNotations.\n"
            f"Definition elements : list (N * option Z * option Z * option Q * bool) := [\n{els}\n].\n"
            "Definition implicit_valence : list (Z * Z) := " + cq_list(f"({cq_Z(k)}, {cq_Z(v)})" for k, v in t["implicit_valence"]) + ".\n"
            "Definition valence_electrons : list (Z * Z) := " + cq_list(f"({cq_Z(k)}, {cq_Z(v)})" for k, v in t["valence_electrons"]) + ".\n"
            f"Definition bond_orders : list (N * ord) := [\n{orders}\n].\n"
            "Definition tetrahedron : list (vec Q) := " + cq_list(vq(r) for r in t["tet"]) + ".\n"
            f"Definition h_defaults : N * Z * Z * N := ({cq_N(t['h'][0])}, {cq_Z(t['h'][1])}, {cq_Z(t['h'][2])}, {cq_N(t['h'][3])}).\n"
            f"Definition newbond_defaults : N * Q := ({cq_N(t['newbond'][0])}, {cq_Q(t['newbond'][1])}).\n"
            f"Definition cc_atype : N := {cq_N(t['cc'])}.\n")


# =================================================================== tie S: the count expression
def _is_name(n, s):
    return isinstance(n, ast.Name) and n.id == s


def find_hadd(tree):
    fns = [f for c in ast.walk(tree) if isinstance(c, ast.ClassDef) and c.name == "Structure"
           for f in c.body if isinstance(f, ast.FunctionDef) and f.name == "add_implicit_hydrogens"]
    if len(fns) != 1:
        raise Refuse(f"{len(fns)} definitions of Structure.add_implicit_hydrogens")
    return fns[0]


def check_math_names(tree):
    """ceil / floor must be math's, bound once at module level; abs / max / min must not be rebound anywhere."""
    bound = {}
    for n in ast.walk(tree):
        if isinstance(n, ast.ImportFrom):
            for al in n.names:
                bound.setdefault(al.asname or al.name, []).append(("from", n.module, al.name))
        elif isinstance(n, ast.Import):
            for al in n.names:
                bound.setdefault((al.asname or al.name).split(".")[0], []).append(("import", al.name, None))
        elif isinstance(n, (ast.FunctionDef, ast.ClassDef, ast.AsyncFunctionDef)):
            bound.setdefault(n.name, []).append(("def", None, None))
        elif isinstance(n, ast.Name) and isinstance(n.ctx, ast.Store):
            bound.setdefault(n.id, []).append(("store", None, None))
        elif isinstance(n, ast.arg):
            bound.setdefault(n.arg, []).append(("arg", None, None))
    for nm in ("ceil", "floor"):
        bs = bound.get(nm, [])
        if bs and not all(b == ("from", "math", nm) for b in bs):
            raise Refuse(f"`{nm}` is not (only) math.{nm}: {bs}")
    for nm in ("abs", "max", "min"):
        if bound.get(nm):
            raise Refuse(f"builtin `{nm}` is rebound in structure.py")
    return {nm for nm in ("ceil", "floor") if bound.get(nm)}


def conv(n, env, var, mathnames):
    """Python expression -> Coq hexpr term (string).  Refuses everything outside the grammar."""
    if isinstance(n, ast.Constant) and not isinstance(n.value, bool):
        if isinstance(n.value, int) or (isinstance(n.value, float) and n.value == int(n.value)):
            return f"(EInt {cq_Z(int(n.value))})"
        raise Refuse(f"non-integer constant {n.value!r}")
    if isinstance(n, ast.Name):
        if n.id in env:
            return env[n.id]
        raise Refuse(f"free name {n.id!r}")
    if isinstance(n, ast.NamedExpr):
        raise Refuse("assignment expression inside the count formula")
    if isinstance(n, ast.Attribute) and _is_name(n.value, var):
        leaf = {"valence_electrons": "EVe", "formal_charge": "EFc", "formal_spin": "ESpin"}.get(n.attr)
        if leaf:
            return leaf
        raise Refuse(f"atom attribute {n.attr!r}")
    if isinstance(n, ast.UnaryOp) and isinstance(n.op, ast.USub):
        return f"(ENeg {conv(n.operand, env, var, mathnames)})"
    if isinstance(n, ast.UnaryOp) and isinstance(n.op, ast.UAdd):
        return conv(n.operand, env, var, mathnames)
    if isinstance(n, ast.BinOp) and isinstance(n.op, (ast.Add, ast.Sub)):
        c = "EAdd" if isinstance(n.op, ast.Add) else "ESub"
        return f"({c} {conv(n.left, env, var, mathnames)} {conv(n.right, env, var, mathnames)})"
    if isinstance(n, ast.Call) and not n.keywords:
        f = n.func
        fname = f.id if isinstance(f, ast.Name) else (f.attr if isinstance(f, ast.Attribute) and _is_name(f.value, "math") else None)
        if fname == "abs" and isinstance(f, ast.Name) and len(n.args) == 1:
            return f"(EAbs {conv(n.args[0], env, var, mathnames)})"
        if fname in ("max", "min") and isinstance(f, ast.Name) and len(n.args) >= 2 and not any(isinstance(a, ast.Starred) for a in n.args):
            c = "EMax" if fname == "max" else "EMin"
            out = conv(n.args[0], env, var, mathnames)
            for a in n.args[1:]:
                out = f"({c} {out} {conv(a, env, var, mathnames)})"
            return out
        if fname in ("ceil", "floor") and len(n.args) == 1 and (isinstance(f, ast.Attribute) or fname in mathnames):
            a = n.args[0]
            if isinstance(a, ast.Name) and a.id in env and env[a.id] == "<bv>":
                return "ECeilBv" if fname == "ceil" else "EFloorBv"
            if is_bv_call(a, var):
                return "ECeilBv" if fname == "ceil" else "EFloorBv"
            raise Refuse(f"{fname}() of something that is not self.bonded_valence({var})")
    raise Refuse("outside the grammar: " + ast.dump(n)[:160])


def is_bv_call(a, var):
    return (isinstance(a, ast.Call) and isinstance(a.func, ast.Attribute) and a.func.attr == "bonded_valence"
            and _is_name(a.func.value, "self") and len(a.args) == 1 and not a.keywords and _is_name(a.args[0], var))


def extract_count(path):
    """Returns dict(expr=<coq term>, key=<hint key>, var=<loop variable>).  Raises Refuse."""
    tree = ast.parse(open(path).read())
    mathnames = check_math_names(tree)
    fn = find_hadd(tree)
    loops = [s for s in fn.body if isinstance(s, ast.For)]
    if len(loops) != 1 or not isinstance(loops[0].target, ast.Name) or not _is_name(loops[0].iter, "atoms") or loops[0].orelse:
        raise Refuse("add_implicit_hydrogens: expected exactly one `for <a> in atoms:` loop at the top level")
    loop = loops[0]
    var = loop.target.id
    body = [s for s in loop.body if not (isinstance(s, ast.Expr) and isinstance(s.value, ast.Constant))]
    if len(body) != 2 or not all(isinstance(s, ast.If) for s in body):
        raise Refuse("loop body is not `if <hint> ... else <formula>` followed by `if hs_to_add > 0:`")
    first, second = body
    # --- the hint override
    t = first.test
    ok = (isinstance(t, ast.Compare) and len(t.ops) == 1 and isinstance(t.ops[0], ast.IsNot)
          and isinstance(t.comparators[0], ast.Constant) and t.comparators[0].value is None
          and isinstance(t.left, ast.NamedExpr) and isinstance(t.left.target, ast.Name))
    if not ok:
        raise Refuse("hint test is not `(<hs> := ...) is not None`")
    hs = t.left.target.id
    call = t.left.value
    ok = (isinstance(call, ast.Call) and isinstance(call.func, ast.Attribute) and call.func.attr in ("pop", "get")
          and isinstance(call.func.value, ast.Attribute) and call.func.value.attr == "attrib" and _is_name(call.func.value.value, var)
          and not call.keywords and len(call.args) in (1, 2) and isinstance(call.args[0], ast.Constant) and isinstance(call.args[0].value, str)
          and (len(call.args) == 1 and call.func.attr == "get" or
               len(call.args) == 2 and isinstance(call.args[1], ast.Constant) and call.args[1].value is None))
    if not ok:
        raise Refuse(f"hint is not read by `{var}.attrib.pop(<key>, None)`")
    key = call.args[0].value
    if not all(isinstance(s, ast.Pass) or (isinstance(s, ast.Expr) and isinstance(s.value, ast.Constant)) for s in first.body):
        raise Refuse("the hint branch does something else than keeping the hint")
    # --- the formula branch: straight-line assignments to plain names, the last one to <hs>
    env = {}
    for s in first.orelse:
        if isinstance(s, ast.Expr) and isinstance(s.value, ast.Constant):
            continue
        if not (isinstance(s, ast.Assign) and len(s.targets) == 1 and isinstance(s.targets[0], ast.Name)):
            raise Refuse("formula branch: not a plain assignment: " + ast.dump(s)[:120])
        nm = s.targets[0].id
        if nm in (var, "self", "atoms"):
            raise Refuse(f"formula branch rebinds {nm}")
        env[nm] = "<bv>" if is_bv_call(s.value, var) else conv(s.value, env, var, mathnames)
    if hs not in env or env[hs] == "<bv>":
        raise Refuse(f"formula branch does not assign {hs}")
    if not first.orelse or not (isinstance(first.orelse[-1], ast.Assign) and _is_name(first.orelse[-1].targets[0], hs)):
        raise Refuse(f"the last statement of the formula branch does not assign {hs}")
    # --- the guard
    g = second.test
    ok = (isinstance(g, ast.Compare) and len(g.ops) == 1 and not second.orelse and
          ((isinstance(g.ops[0], ast.Gt) and _is_name(g.left, hs) and isinstance(g.comparators[0], ast.Constant) and g.comparators[0].value == 0)
           or (isinstance(g.ops[0], ast.Lt) and _is_name(g.comparators[0], hs) and isinstance(g.left, ast.Constant) and g.left.value == 0)
           or (isinstance(g.ops[0], ast.GtE) and _is_name(g.left, hs) and isinstance(g.comparators[0], ast.Constant) and g.comparators[0].value == 1)))
    if not ok:
        raise Refuse(f"second statement of the loop is not `if {hs} > 0:`")
    # <hs> must not be reassigned inside the guarded block
    for n in ast.walk(second):
        if isinstance(n, ast.Name) and n.id == hs and isinstance(n.ctx, ast.Store):
            raise Refuse(f"{hs} is reassigned inside the placement block")
    return {"expr": env[hs], "key": key, "var": var}


def gen_expr_text(x):
    return ("(* regenerated by the fail-closed ast extractor of harness/c16.py on every run (tie S):\n"
            "   hs_expr         the value assigned to hs_to_add in the formula branch of add_implicit_hydrogens,\n"
            "                   with the local names (electrons, bonded, ...) inlined\n"
            "   hint_key        the attrib key popped before the formula is consulted\n"
            "   hint_overrides  the loop body starts with `if (hs := a.attrib.pop(key, None)) is not None: pass  else: <formula>`\n"
            "   guard_positive  ... and continues with `if hs > 0: <placement>` and nothing else *)\n"
            "From Coq Require Import ZArith String.\nFrom Molli Require Import Common.HExpr.\nLocal Open Scope string_scope.\n"
            f"Definition hs_expr : hexpr := {x['expr']}.\n"
            f"Definition hint_key : string := {cq_str(x['key'])}.\n"
            "Definition hint_overrides : bool := true.\nDefinition guard_positive : bool := true.\n")


def regen(ml):
    """Rewrites Gen/Valence.v and Gen/HaddExpr.v.  Returns (tables, extraction, refusal text or None)."""
    refusal = None
    tables = extraction = None
    with vlib.CoqLock():
        try:
            tables = table_rows(ml)
            vlib.write_if_changed(os.path.join(vlib.COQ, "Gen", "Valence.v"), gen_valence_text(tables))
        except Refuse as e:
            refusal = "T(Valence): " + str(e)
        try:
            extraction = extract_count(os.path.join(vlib.REPO, STRUCTURE_PY))
            vlib.write_if_changed(os.path.join(vlib.COQ, "Gen", "HaddExpr.v"), gen_expr_text(extraction))
        except (Refuse, SyntaxError, OSError) as e:
            refusal = (refusal + "; " if refusal else "") + "S(HaddExpr): " + str(e)
    return tables, extraction, refusal
