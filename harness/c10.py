"""C10 -- damaged or truncated mol2/xyz input is rejected, never returned as a partial molecule.

Model: coq/Model/Parse.v (line-at-a-time state machines for read_xyz / read_mol2 + the block -> molecule
conversions).  Theorems: coq/Props/C10.v (proofs: coq/Proofs/Parse.v, coq/Proofs/ParseRecords.v).  Tie H: bundled
and generated texts x damage operators (every line boundary, every byte offset of the last record, line
deletions / duplications, token corruptions, dropped tokens of the last records); the implementation runs under
a wall-clock limit; what it returned is compared with the model INSIDE Coq (vm_compute over `chk_xyz_read` /
`chk_mol2_read`).  The Python oracle judges the property directly against the undamaged file: counts AND content
of every returned molecule.  Two ways of fooling a count check have oracle clauses of their own:
  * `...:records-of-another-molecule` -- the declared counts are met with the records of a neighbouring molecule
    (family: texts whose molecules declare equal counts, cut at every structural boundary);
  * `...:short-record-accepted:<atom|bond>` -- a record that lost a mandatory column (cut mid-line, token dropped)
    was made into a different atom / bond.  This is NOT the format limit `last-numeric-token-truncated` (all columns
    present, the last one shortened), which is a recorded known finding for xyz and would otherwise hide it.

  * `...:dup:surplus-line-accepted:<atom|bond>` -- a text with one line MORE than the undamaged one is accepted and a record
    is doubled, the last one of its section lost (the counts are met).  The reader refuses a surplus line only while it
    is not skipping an unsupported TRIPOS section, so the family `gen-sect-*` varies the ORDER and KIND of the sections
    (unsupported blocks before ATOM / between ATOM and BOND / after BOND, blank and comment lines, UNITY sections next to
    unsupported ones, repeated tags, BOND before ATOM; generated and bundled records) under every damage operator; the
    skip state is part of the reader model (v_skip) and of the theorems of Proofs/ParseSections.v.

This module also hosts what harness/c08.py shares (generators, canonicalisation, Gen emitters).
"""
import io, os, sys, math, signal, time, json
from fractions import Fraction
import vlib
from vlib import cq_str, cq_list, cq_Z, cq_nat, cq_Q

LIMIT_S = 4.0           # wall-clock limit for ONE call of the reader under test (normal calls take milliseconds)
MAX_HANGS = 6           # per format: after that many non-terminating calls the remaining damages are not run


# ------------------------------------------------------------------ implementation driver
class Hang(Exception):
    pass


def run_limited(fn, *a, limit=LIMIT_S):
    """Run fn under a wall-clock limit. Returns ('ok', value) | ('err', exception class name) | ('hang', seconds)."""
    fired = []

    def on_alarm(signum, frame):
        fired.append(1)
        raise Hang()

    old = signal.signal(signal.SIGALRM, on_alarm)
    signal.setitimer(signal.ITIMER_REAL, limit)
    t0 = time.time()
    try:
        try:
            r = fn(*a)
            out = ("ok", r)
        except Hang:
            out = ("hang", time.time() - t0)
        except BaseException as e:  # noqa: every exception is an acceptable rejection
            out = ("err", type(e).__name__)
    finally:
        signal.setitimer(signal.ITIMER_REAL, 0)
        signal.signal(signal.SIGALRM, old)
    if fired and out[0] != "hang":      # a bare `except:` in the code under test swallowed the alarm
        out = ("hang", time.time() - t0)
    return out


def mol_sig(m):
    """Full content of a returned molecule (for the oracle)."""
    idx = {id(a): i for i, a in enumerate(m.atoms)}
    ch = getattr(m, "atomic_charges", None)
    return {
        "n_atoms": int(m.n_atoms), "n_bonds": int(getattr(m, "n_bonds", 0)),
        "elems": [int(a.element.z) for a in m.atoms],
        "dummy": [a.atype.name == "Dummy" for a in m.atoms],
        "labels": [a.label for a in m.atoms],
        "coords": [tuple(float(x) for x in c) for c in m.coords],
        "coords_shape": tuple(m.coords.shape),
        "bonds": [(idx.get(id(b.a1), -1), idx.get(id(b.a2), -1), b.btype.name) for b in getattr(m, "bonds", [])],
        "charges": None if ch is None else [float(x) for x in ch],
    }


def feq(a, b, tol=1e-6):
    if math.isnan(a) or math.isnan(b):
        return math.isnan(a) and math.isnan(b)
    if math.isinf(a) or math.isinf(b):
        return a == b
    return abs(a - b) <= tol * max(1.0, abs(b))


def atom_rec(s, i):
    return (s["elems"][i], s["dummy"][i], s["labels"][i], s["coords"][i], None if s["charges"] is None else s["charges"][i])


def atom_eq(x, y):
    return x[0] == y[0] and x[1] == y[1] and x[2] == y[2] and all(feq(p, q) for p, q in zip(x[3], y[3])) and \
        ((x[4] is None) == (y[4] is None)) and (x[4] is None or feq(x[4], y[4], 1e-3))


def sig_eq(a, b):
    """Same content (coordinates to 1e-6, charges to 1e-3)."""
    if a["n_atoms"] != b["n_atoms"] or a["n_bonds"] != b["n_bonds"] or a["bonds"] != b["bonds"]:
        return False
    if len(a["elems"]) != len(b["elems"]):
        return False
    return all(atom_eq(atom_rec(a, i), atom_rec(b, i)) for i in range(len(a["elems"])))


def sig_consistent(s):
    """Internal completeness: as many atoms / coordinate rows / charges / bonds as declared."""
    n = s["n_atoms"]
    return (len(s["elems"]) == n and s["coords_shape"] == (n, 3) and len(s["bonds"]) == s["n_bonds"]
            and (s["charges"] is None or len(s["charges"]) == n)
            and all(0 <= i < n and 0 <= j < n for i, j, _ in s["bonds"]))


def sig_diff_records(a, b):
    """Number of atom records and bond records in which two same-shaped molecules differ (None: different shape)."""
    if a["n_atoms"] != b["n_atoms"] or a["n_bonds"] != b["n_bonds"] or len(a["elems"]) != len(b["elems"]) \
            or len(a["bonds"]) != len(b["bonds"]):
        return None
    da = sum(1 for i in range(len(a["elems"])) if not atom_eq(atom_rec(a, i), atom_rec(b, i)))
    db = sum(1 for x, y in zip(a["bonds"], b["bonds"]) if x != y)
    return da, db


# ------------------------------------------------------------------ texts, lines, damage
def to_lines(text):
    ls = text.split("\n")
    if ls and ls[-1] == "":
        ls.pop()
    return ls


def damaged_text(lines, d):
    k = d[0]
    if k == "none":
        out, nl = list(lines), True
    elif k == "trunc":
        out, nl = lines[:d[1]], True
    elif k == "cut":
        out, nl = lines[:d[1]], True
        if d[1] < len(lines) and d[2] > 0 and lines[d[1]][:d[2]] != "":
            out = out + [lines[d[1]][:d[2]]]
            nl = False
    elif k == "del":
        out, nl = lines[:d[1]] + lines[d[1] + 1:], True
    elif k == "dup":
        out, nl = (lines[:d[1] + 1] + lines[d[1]:] if d[1] < len(lines) else list(lines)), True
    elif k == "repl":
        out, nl = (lines[:d[1]] + [d[2]] + lines[d[1] + 1:] if d[1] < len(lines) else list(lines)), True
    else:
        raise ValueError(d)
    if not out:
        return ""
    return "\n".join(out) + ("\n" if nl else "")


def damage_term(d):
    k = d[0]
    if k == "none":
        return "DNone"
    if k == "trunc":
        return f"(DTrunc {cq_nat(d[1])})"
    if k == "cut":
        return f"(DCut {cq_nat(d[1])} {cq_nat(d[2])})"
    if k == "del":
        return f"(DDel {cq_nat(d[1])})"
    if k == "dup":
        return f"(DDup {cq_nat(d[1])})"
    if k == "repl":
        return f"(DRepl {cq_nat(d[1])} (s2l {cq_str(d[2])}))"
    raise ValueError(d)


def lines_term(lines):
    items = [cq_str(l) for l in lines]
    if len(items) <= 1500:
        return cq_list(items)
    return "(" + " ++ ".join(cq_list(items[i:i + 1500]) for i in range(0, len(items), 1500)) + ")%list"


def ofloat_term(x):
    if math.isnan(x):
        return "ONan"
    if math.isinf(x):
        return f"(OInf {'true' if x < 0 else 'false'})"
    return f"(OQ {cq_Q(Fraction(x))})"


def omol_term(s):
    coords = cq_list("(" + ", ".join(ofloat_term(x) for x in c) + ")" for c in s["coords"])
    bonds = cq_list(f"({cq_nat(i)}, {cq_nat(j)})" for i, j, _ in s["bonds"])
    return (f"(mk_omol {cq_Z(s['n_atoms'])} {cq_Z(s['n_bonds'])} {cq_list(cq_Z(z) for z in s['elems'])} "
            f"{coords} {bonds})")


class MolTable:
    """Shard-wide table of distinct observed molecules; observations refer to it by index."""
    def __init__(self):
        self.terms, self.index = [], {}

    def add(self, s):
        t = omol_term(s)
        if t not in self.index:
            self.index[t] = len(self.terms)
            self.terms.append(t)
        return self.index[t]

    def term(self):
        if not self.terms:
            return "[]"
        ch = [cq_list(self.terms[i:i + 200]) for i in range(0, len(self.terms), 200)]
        return "(" + " ++ ".join(ch) + ")%list"


def obs_term(outcome, table):
    if outcome[0] != "ok":
        return "OErr"
    return "(OOk " + cq_list(cq_nat(table.add(s)) for s in outcome[1]) + ")"


# ------------------------------------------------------------------ Gen emitters (tie T)
def gen_elements_text(ml):
    from molli.chem import Element
    names = [(n, int(m.z)) for n, m in Element.__members__.items()]
    syms = [(int(e.z), e.symbol) for e in Element]
    t = ["(* regenerated from molli.chem.Element on every run (tie T): Element[name] and Element(z).symbol *)",
         "From Coq Require Import List ZArith String.", "Import ListNotations.", "Local Open Scope string_scope.",
         "Definition element_names : list (string * Z) := ["]
    t.append(";\n".join(f"  ({cq_str(n)}, {cq_Z(z)})" for n, z in names))
    t.append("].")
    t.append("Definition element_symbols : list (Z * string) := [")
    t.append(";\n".join(f"  ({cq_Z(z)}, {cq_str(s)})" for z, s in syms))
    t.append("].")
    return "\n".join(t) + "\n"


def regen_elements(ml):
    with vlib.CoqLock():
        return vlib.write_if_changed(os.path.join(vlib.COQ, "Gen", "XyzElements.v"), gen_elements_text(ml))


def atype_table(tokens):
    """Atom.set_mol2_type evaluated on every distinct token (tie T restricted to the tokens in play)."""
    from molli.chem import Atom
    out = []
    for t in sorted(tokens):
        try:
            a = Atom()
            a.set_mol2_type(t)
            out.append((t, int(a.element.z)))
        except Exception:
            out.append((t, None))
    return out


def floatlike(t):
    try:
        float(t)
        return True
    except ValueError:
        return False


def btype_keys():
    from molli.chem.bond import MOL2_BOND_TYPE_MAP
    return sorted(MOL2_BOND_TYPE_MAP.keys())


# ------------------------------------------------------------------ generated texts
ELEMS = ["H", "C", "N", "O", "F", "Cl", "Br", "Si", "Pd", "Unknown", "Og", "Li"]
NAMES = ["mol", "a1b", "benzene-d6", "x_y", "conf 3", "C 0 0 0", "Name#1", "M", "frame-2 of 7", "1a"]


def rand_coord(rng):
    r = rng.random()
    if r < 0.15:
        return float(rng.randint(-5, 5))
    if r < 0.25:
        return rng.choice([1e-7, -1e-7, 123456.789012, -99999.5, 0.0, -0.0, 1e-3, 0.0000005])
    return round(rng.uniform(-30, 30), rng.randint(0, 8))


def rand_molecule(ml, rng, n=None, name=None, elems=None):
    from molli.chem import Molecule, Atom
    n = rng.randint(0, 5) if n is None else n
    m = Molecule(n_atoms=0, name=name or rng.choice(NAMES))
    for i in range(n):
        a = Atom(rng.choice(elems or ELEMS))
        if rng.random() < 0.5:
            a.label = rng.choice(["C1", "Hx", "N", "Zz9", "a", "O2'", "X"])      # labels are NOT element symbols
        m.add_atom(a, [rand_coord(rng) for _ in range(3)])
    if n >= 2:
        for _ in range(rng.randint(0, n)):
            i, j = rng.sample(range(n), 2)
            try:
                m.connect(m.atoms[i], m.atoms[j])
            except Exception:
                pass
    return m


def gen_xyz_bases(ml, rng, count):
    out = []
    for b in range(count):
        k = rng.randint(1, 3)
        ms = [rand_molecule(ml, rng, n=(0 if rng.random() < 0.12 else None)) for _ in range(k)]
        out.append((f"gen-xyz-{b}", "".join(m.dumps_xyz() for m in ms)))
    return out


def gen_mol2_bases(ml, rng, count):
    out = []
    for b in range(count):
        k = rng.randint(1, 3)
        ms = [rand_molecule(ml, rng, n=(0 if rng.random() < 0.12 else None), elems=["H", "C", "N", "O", "Cl", "S"])
              for _ in range(k)]
        out.append((f"gen-mol2-{b}", "".join(m.dumps_mol2() for m in ms)))
    return out


def with_unity(rng, m):
    """mol2 text of m with UNITY_ATOM_ATTR (between ATOM and BOND) and UNITY_BOND_ATTR sections of 1..3 groups, groups
    with 0..2 attributes; a UNITY section must be followed by another record, so the text ends with an (unsupported,
    skipped) SUBSTRUCTURE section."""
    lines = to_lines(m.dumps_mol2())
    ib = lines.index("@<TRIPOS>BOND")

    def groups(n_items):
        out = []
        for _ in range(rng.randint(1, 3)):
            k = rng.choice([0, 1, 1, 2])
            out.append(f"{rng.randint(1, n_items)} {k}")
            out += [rng.choice(["charge 1", "charge -1", "color red", "tag x9"]) for _ in range(k)]
        return out
    ua = ["@<TRIPOS>UNITY_ATOM_ATTR"] + groups(m.n_atoms) if m.n_atoms else []
    ub = ["@<TRIPOS>UNITY_BOND_ATTR"] + groups(m.n_bonds) if m.n_bonds else []
    out = lines[:ib] + ua + lines[ib:] + ub + ["@<TRIPOS>SUBSTRUCTURE", "1 UNL1 1"]
    return "\n".join(out) + "\n"


def gen_unity_bases(ml, rng, count):
    out = []
    for b in range(count):
        ms = [rand_molecule(ml, rng, n=rng.randint(1, 4), elems=["H", "C", "N", "O"]) for _ in range(rng.randint(1, 2))]
        out.append((f"gen-unity-{b}", "".join(with_unity(rng, m) for m in ms)))
    return out


def equal_count_group(ml, rng, n, k, conformers, hard_last_bond=False):
    """k molecules declaring the SAME atom and bond counts: conformers (same atoms and bond table, other coordinates) or
    different molecules (other elements, other bond table, other bond types).  A reader that hands out the records of
    molecule #i under the header of molecule #i+1 passes every count check on such a text."""
    from molli.chem import Molecule, Atom, BondType
    pairs_all = [(i, j) for i in range(n) for j in range(i + 1, n)]
    nb = rng.randint(1, min(len(pairs_all), n + 1))
    btypes = [BondType.Single, BondType.Double, BondType.Triple, BondType.Aromatic]
    elems = [rng.choice(["C", "N", "O", "H", "S", "Cl"]) for _ in range(n)]
    bonds = [(p, rng.choice(btypes)) for p in rng.sample(pairs_all, nb)]
    if hard_last_bond:       # the last record of the text: a two-digit endpoint and a type that is not the plain single bond
        bonds = [b for b in bonds if b[0] != (0, n - 1)][:nb - 1] + [((0, n - 1), rng.choice(btypes[1:]))]
    ms = []
    for c in range(k):
        if c and not conformers:
            e2 = [rng.choice(["C", "N", "O", "H", "S", "Cl"]) for _ in range(n)]
            if e2 == elems:
                e2[0] = "F"
            elems = e2
            last = bonds[-1]
            bonds = [(p, rng.choice(btypes)) for p in rng.sample(pairs_all, len(bonds))]
            if hard_last_bond:
                bonds = [b for b in bonds if b[0] != last[0]][:len(bonds) - 1] + [last]
        m = Molecule(n_atoms=0, name=f"eq-{c}")
        for i in range(n):
            m.add_atom(Atom(elems[i]), [round(rng.uniform(-9, 9), 4) + 0.0001 * (c + 1) for _ in range(3)])
        for (i, j), bt in bonds:
            m.connect(m.atoms[i], m.atoms[j], btype=bt)
        ms.append(m)
    return ms


def gen_equal_count_bases(ml, rng, fmt, thorough):
    """(name, text) of multi-molecule texts whose molecules all declare equal counts."""
    out = []
    plan = [(rng.randint(2, 4), rng.randint(2, 3), True, False), (rng.randint(2, 4), rng.randint(2, 3), False, False)]
    if fmt == "mol2":
        plan.append((rng.randint(10, 12), 2, rng.random() < 0.5, True))
    if thorough:
        plan += [(rng.randint(2, 6), rng.randint(2, 4), rng.random() < 0.5, False) for _ in range(8)]
    for b, (n, k, conf, hard) in enumerate(plan):
        ms = equal_count_group(ml, rng, n, k, conf, hard)
        text = "".join(m.dumps_xyz() if fmt == "xyz" else m.dumps_mol2() for m in ms)
        out.append((f"gen-eqc-{fmt}-{'conf' if conf else 'diff'}-{b}", text))
    return out


# ------------------------------------------------------------------ section layouts of a mol2 text
# A mol2 text is a sequence of TRIPOS sections.  The reader knows five of them (MOLECULE, ATOM, BOND, UNITY_ATOM_ATTR,
# UNITY_BOND_ATTR) and SKIPS the lines of every other one; "a surplus line after a complete ATOM / BOND section is
# refused" holds only while nothing is being skipped.  What molli writes (and every bundled file) has the single layout
# MOLECULE, ATOM, BOND[, SUBSTRUCTURE]: the skip state is then never entered before the records.  This family varies the
# layout: unsupported blocks (known TRIPOS names, unknown names, empty bodies, bodies that look like records, repeated
# tags), comment and blank lines, UNITY sections -- before ATOM, between ATOM and BOND, after BOND, in every molecule of
# a text -- and BOND before ATOM.  Every damage operator then runs over the whole text.
OTHER_TAGS = ["SUBSTRUCTURE", "COMMENT", "ALT_TYPE", "DICT", "CRYSIN", "SET", "FF_PBC", "CENTER_OF_MASS", "ROTATABLE_BOND",
              "XYZZY", "ATOMS", "BOND_ATTR"]
OTHER_BODY = ["1 UNL1 1", "written by another program", "1 UNL1 1 TEMP 0 **** **** 0 ROOT", "CHARMM", "GAFF_ALT_TYPE_SET",
              "   10.0   10.0   10.0   90.0   90.0   90.0  1  1"]
RECORD_LIKE_BODY = ["     1 C       0.000000     0.000000     0.000000 C          1 UNL1 0.000", "     1      1      2   1",
                    "1 2 3 4 5 6 7 8 9"]


def other_block(rng, feats, body=None, tag=None, record_like=False):
    """One unsupported TRIPOS block: its tag line and 0..3 body lines (none of which is a TRIPOS record)."""
    tag = tag or rng.choice(OTHER_TAGS)
    nb = rng.choice([0, 1, 1, 2, 3]) if body is None else body
    lines = ["@<TRIPOS>" + tag] + [rng.choice(RECORD_LIKE_BODY if record_like else OTHER_BODY) for _ in range(nb)]
    if nb == 0:
        feats.add("empty-body")
    if record_like and nb:
        feats.add("record-like-body")
    return lines


def unity_groups(rng, n_items):
    out = []
    for _ in range(rng.randint(1, 2)):
        k = rng.choice([0, 1, 1, 2])
        out.append(f"{rng.randint(1, n_items)} {k}")
        out += [rng.choice(["charge 1", "charge -1", "color red", "tag x9"]) for _ in range(k)]
    return out


def molecule_spans(lines):
    """For every molecule of a well-formed mol2 text: dict with the line index of its ATOM tag (`a`), the index after its
    last atom record (`a_end`), of its BOND tag (`b`), after its last bond record (`b_end`), and its counts."""
    roles, out, cur = mol2_roles(lines), [], None
    for i, l in enumerate(lines):
        s = l.strip()
        if not s.startswith("@<TRIPOS>"):
            continue
        sec = s[len("@<TRIPOS>"):]
        if sec == "MOLECULE":
            cur = {"m": i}
            out.append(cur)
        elif cur is not None and sec in ("ATOM", "BOND") and sec[0].lower() not in cur:
            j = i + 1
            while roles.get(j) == sec.lower():
                j += 1
            cur[sec[0].lower()], cur[sec[0].lower() + "_end"] = i, j
    return [c for c in out if "a" in c and "b" in c and c["a"] < c["b"]]


def sectioned(rng, text, where, feats, bond_first=False, ign=False, unity=False, repeat=False, record_like=False,
              unity_first=False):
    """`text` (well-formed, layout MOLECULE/ATOM/BOND) with extra sections.  `where`: subset of {"pre", "mid", "post"} =
    before ATOM / between ATOM and BOND / after BOND, applied to every molecule.  Returns the new text."""
    lines = to_lines(text)
    for sp in reversed(molecule_spans(lines)):
        na, nb = sp["a_end"] - sp["a"] - 1, sp["b_end"] - sp["b"] - 1
        ins = {"pre": [], "mid": [], "post": []}
        for pos in ("pre", "mid", "post"):
            if pos not in where:
                continue
            ins[pos] += other_block(rng, feats, record_like=record_like)
            feats.add({"pre": "other-before-atom", "mid": "other-between-atom-and-bond", "post": "other-after-bond"}[pos])
            if repeat:
                tag = ins[pos][0][len("@<TRIPOS>"):]
                ins[pos] += other_block(rng, feats, tag=tag, body=rng.choice([0, 1]))
                feats.add("repeated-tag")
            if ign:
                ins[pos] = [rng.choice(["", "# comment", "   ", "#"])] + ins[pos] + [rng.choice(["# a comment line", ""])]
                feats.add("blank-and-comment-lines")
        if unity and not bond_first:
            # UNITY sections need the records they refer to, and a TRIPOS record after them: after an unsupported block and
            # in front of one (the skip state is entered, left for the UNITY loop, entered again)
            if na and "mid" in where:
                ins["mid"] += ["@<TRIPOS>UNITY_ATOM_ATTR"] + unity_groups(rng, na)
                feats.add("unity-after-unsupported")
            if nb and "post" in where:
                while ins["post"] and not ins["post"][0].startswith("@<TRIPOS>"):
                    ins["post"].pop(0)       # the UNITY loops refuse a blank / comment line: a TRIPOS record comes next
                ins["post"] = ["@<TRIPOS>UNITY_BOND_ATTR"] + unity_groups(rng, nb) + ins["post"]
                feats.add("unity-before-unsupported")
        if unity_first and na:
            # a UNITY_ATOM_ATTR section in front of the records it refers to (after the unsupported block, if any): refused as
            # soon as a group carries an attribute, walked over when every group is empty
            ins["pre"] += ["@<TRIPOS>UNITY_ATOM_ATTR"] + unity_groups(rng, na)
            feats.add("unity-before-atom")
        atoms, bonds = lines[sp["a"]:sp["a_end"]], lines[sp["b"]:sp["b_end"]]
        between = lines[sp["a_end"]:sp["b"]]
        if bond_first and not between:
            first, second = bonds, atoms
            feats.add("bond-before-atom")
        else:
            first, second = atoms, bonds
        lines[sp["a"]:sp["b_end"]] = ins["pre"] + first + between + ins["mid"] + second + ins["post"]
    if len(molecule_spans(to_lines(text))) > 1:
        feats.add("multi-molecule")
    return "\n".join(lines) + "\n"


def gen_section_bases(ml, rng, thorough):
    """(name, text, plain text, features) -- texts with varied section layouts; `plain` is the same text in the layout molli
    writes (the undamaged file the returned molecules are compared with)."""
    def mol(n, nb_min=1):
        for _ in range(50):
            m = rand_molecule(ml, rng, n=n, elems=["H", "C", "N", "O", "Cl", "S"])
            if m.n_bonds >= nb_min:
                return m
        return m

    def plain_of(kind):
        if kind == "one":
            return mol(rng.randint(3, 5), 2).dumps_mol2()
        if kind == "conf":
            return "".join(m.dumps_mol2() for m in equal_count_group(ml, rng, rng.randint(3, 4), 2, True))
        if kind == "diff":
            return "".join(m.dumps_mol2() for m in equal_count_group(ml, rng, rng.randint(2, 4), 2, False))
        if kind == "three":
            return "".join(m.dumps_mol2() for m in (mol(rng.randint(2, 4)), mol(rng.randint(1, 3), 0), mol(rng.randint(2, 3))))
        p = getattr(ml.files, kind)
        return open(str(p)).read()

    plan = [
        ("one", dict(where={"pre"})),                                            # the records come after a skipped block
        ("one", dict(where={"mid"}, record_like=True)),
        ("one", dict(where={"post"}, ign=True)),
        ("conf", dict(where={"pre", "mid", "post"}, repeat=True)),
        ("diff", dict(where={"pre", "mid", "post"}, unity=True)),
        ("one", dict(where={"pre"}, bond_first=True, ign=True)),
        ("dmf_mol2", dict(where={"pre", "mid"})),                                # 9-column records with partial charges
        ("three", dict(where={"pre", "post"}, record_like=True, ign=True)),
        ("one", dict(where={"pre"}, unity_first=True)),
    ]
    if thorough:
        kinds = ["one", "conf", "diff", "three", "benzene_mol2", "dummy_mol2", "hadd_test_mol2", "fxyl_mol2"]
        for _ in range(28):
            where = {p for p in ("pre", "mid", "post") if rng.random() < 0.6} or {"pre"}
            plan.append((rng.choice(kinds), dict(where=where, **{k: rng.random() < 0.35 for k in
                                                                  ("bond_first", "ign", "unity", "repeat", "record_like")},
                                                 unity_first=rng.random() < 0.1)))
    out = []
    for b, (kind, kw) in enumerate(plan):
        plain, feats = plain_of(kind), set()
        if not kind.endswith("_mol2"):
            feats.add("generated")
        else:
            feats.add("bundled")
        text = sectioned(rng, plain, feats=feats, **kw)
        out.append((f"gen-sect-{b}-{kind}-" + "+".join(sorted(kw["where"])), text, plain, sorted(feats)))
    return out


def bundled(ml, fmt, thorough):
    F = ml.files
    if fmt == "xyz":
        names = ["dummy_xyz", "dendrobine_xyz", "pentane_confs_xyz"]
    else:
        # isornitrate is the only bundled file with a UNITY_ATOM_ATTR section: first, so it is never squeezed out
        names = ["isornitrate_mol2", "dummy_mol2", "benzene_mol2", "dmf_mol2", "pentane_confs_mol2", "dendrobine_mol2",
                 "hadd_test_mol2", "fxyl_mol2"]
        if thorough:
            names += ["bpa_backbone_mol2", "box_backbone_mol2", "cinchonidine_query",
                      "cinchonidine_mcs", "nanotube_mol2"]
    out = []
    for n in names:
        p = getattr(F, n, None)
        if p is not None and os.path.exists(str(p)) and os.path.getsize(str(p)) > 0:
            out.append((n, open(str(p)).read()))
    return out


# ------------------------------------------------------------------ block structure of an undamaged text
def xyz_block_of_line(lines):
    """line index -> block index, for a well-formed xyz text."""
    owner, i, b = {}, 0, 0
    while i < len(lines):
        n = max(int(lines[i]), 0)
        for j in range(i, min(i + 2 + n, len(lines))):
            owner[j] = b
        i += 2 + n
        b += 1
    return owner


def mol2_block_of_line(lines):
    owner, b = {}, -1
    for i, l in enumerate(lines):
        if l.strip().startswith("@<TRIPOS>MOLECULE"):
            b += 1
        owner[i] = max(b, 0)
    return owner


# ------------------------------------------------------------------ record lines of an undamaged text
# mandatory columns of a record: xyz `sym x y z`; mol2 ATOM `id name x y z type` (the conversion needs the type column);
# mol2 BOND `id a1 a2 type`.  Trailing columns beyond these are optional in the format.
MANDATORY = {("xyz", "atom"): 4, ("mol2", "atom"): 6, ("mol2", "bond"): 4}


def xyz_roles(lines):
    roles, i = {}, 0
    while i < len(lines):
        try:
            n = max(int(lines[i]), 0)
        except ValueError:
            break
        roles[i] = "count"
        if i + 1 < len(lines):
            roles[i + 1] = "comment"
        for j in range(i + 2, min(i + 2 + n, len(lines))):
            roles[j] = "atom"
        i += 2 + n
    return roles


def mol2_roles(lines):
    """line index -> 'tag' | 'hdr' | 'atom' | 'bond' for a well-formed mol2 text (counts taken from each header)."""
    roles, n, i, na, nb = {}, len(lines), 0, 0, 0
    while i < n:
        s = lines[i].strip()
        if not s.startswith("@<TRIPOS>"):
            i += 1
            continue
        roles[i] = "tag"
        sec = s[len("@<TRIPOS>"):]
        if sec == "MOLECULE":
            j = i + 1
            while j < min(i + 6, n) and not (j == i + 5 and lines[j].strip().startswith("@<TRIPOS>")):
                roles[j] = "hdr"
                j += 1
            try:
                c = lines[i + 2].split()
                na, nb = int(c[0]), (int(c[1]) if len(c) > 1 else 0)
            except (ValueError, IndexError):
                na = nb = 0
            i = j
        elif sec in ("ATOM", "BOND"):
            k = max(na if sec == "ATOM" else nb, 0)
            for j in range(i + 1, min(i + 1 + k, n)):
                roles[j] = "atom" if sec == "ATOM" else "bond"
            i += 1 + k
        else:
            i += 1
    return roles


def roles_of(fmt, lines):
    return xyz_roles(lines) if fmt == "xyz" else mol2_roles(lines)


def short_record(fmt, lines, d):
    """(role, tokens left, mandatory columns) when the damage left, in the place of an atom / bond record, a line with
    fewer tokens than the mandatory columns of that record (a record cut mid-line, or one that lost a token)."""
    if d[0] not in ("cut", "repl") or d[1] >= len(lines):
        return None
    surv = d[2] if d[0] == "repl" else lines[d[1]][:d[2]]
    if surv == "":
        return None                      # nothing of the line is left: a plain truncation at a line boundary
    role = roles_of(fmt, lines).get(d[1])
    need = MANDATORY.get((fmt, role))
    k = len(surv.split())
    return (role, k, need) if need is not None and k < need else None


def atoms_of(s):
    return [atom_rec(s, i) for i in range(len(s["elems"]))]


def written_record(fmt, role, line):
    """What a record line says when ALL of it is read and every column is what Python's float() / int() accept:
    ('coords', (x, y, z)) | ('ends', (i, j)) | None when the line is not a record of that kind."""
    t = line.split()
    try:
        if (fmt, role) == ("xyz", "atom"):
            return ("coords", tuple(float(x) for x in t[1:4])) if len(t) == 4 else None
        if (fmt, role) == ("mol2", "atom"):
            return ("coords", tuple(float(x) for x in t[2:5])) if len(t) >= 6 else None
        if (fmt, role) == ("mol2", "bond"):
            return ("ends", (int(t[1]) - 1, int(t[2]) - 1)) if len(t) >= 4 else None
    except ValueError:
        return None
    return None


def spoiled_record(fmt, lines, d, s):
    """For a replaced atom / bond record line of an accepted text: (role, what is wrong) when the returned molecule s does not
    carry, in the place of that record, what the replacing line says; None when it does (or the line was no record line)."""
    roles = roles_of(fmt, lines)
    role = roles.get(d[1])
    if role not in ("atom", "bond"):
        return None
    r, i = 0, d[1] - 1
    while i >= 0 and roles.get(i) == role:
        r, i = r + 1, i - 1
    w = written_record(fmt, role, d[2])
    if w is None:
        return (role, "the replacing line is not a well-formed record (a column is missing, surplus, or not a number)")
    if w[0] == "coords":
        if r < len(s["coords"]) and not all(feq(p, q) for p, q in zip(s["coords"][r], w[1])):
            return (role, f"atom #{r} has coordinates {s['coords'][r]}, the line says {w[1]}")
    elif r < len(s["bonds"]) and all(0 <= k < s["n_atoms"] for k in w[1]) and tuple(s["bonds"][r][:2]) != w[1]:
        return (role, f"bond #{r} joins atoms {s['bonds'][r][:2]}, the line says {w[1]}")
    return None


def same_atoms(a, b):
    x, y = atoms_of(a), atoms_of(b)
    return len(x) == len(y) and all(atom_eq(p, q) for p, q in zip(x, y))


def records_of_another(s, j, orig):
    """Index of a molecule of the undamaged text, other than #j, whose atom records (or bond records) are exactly what the
    returned molecule #j carries in the part where it differs from the undamaged molecule #j."""
    da, db = not same_atoms(s, orig[j]), s["bonds"] != orig[j]["bonds"]
    for i, o in enumerate(orig):
        if i != j and ((da and s["elems"] and same_atoms(s, o)) or (db and s["bonds"] and s["bonds"] == o["bonds"])):
            return i
    return None


def shifted_records(s, o):
    """('atom'|'bond', i) when the returned molecule s has the shape of the undamaged o but its atom (bond) records are those
    of o with record #i doubled, the following ones moved down by one and the last one lost."""
    if sig_diff_records(s, o) is None:
        return None
    xa, ya = atoms_of(s), atoms_of(o)
    for i in range(len(ya) - 1):
        exp = ya[:i + 1] + ya[i:-1]
        if all(atom_eq(p, q) for p, q in zip(xa, exp)) and not same_atoms(s, o):
            return ("atom", i)
    xb, yb = s["bonds"], o["bonds"]
    for i in range(len(yb) - 1):
        if xb == yb[:i + 1] + yb[i:-1] and xb != yb:
            return ("bond", i)
    return None


# ------------------------------------------------------------------ damage plans
def corrupt_line(rng, line):
    toks = line.split()
    if not toks:
        return rng.choice(["x", "1 2", "@<TRIPOS>ATOM"]), "blank->junk"
    j = rng.randrange(len(toks))
    t = toks[j]
    kind = rng.choice(["drop", "garbage", "digit", "neg", "dupchar", "int+1", "int-1", "swapcase", "exp"])
    if kind == "drop":
        new = None
    elif kind == "garbage":
        new = rng.choice(["Qq", "1.2.3", "--1", "1e", "#", "?", "nanx", "0x10"])
    elif kind == "digit":
        ds = [i for i, c in enumerate(t) if c.isdigit()]
        if not ds:
            new = t + "7"
        else:
            i = rng.choice(ds)
            new = t[:i] + str((int(t[i]) + rng.randint(1, 9)) % 10) + t[i + 1:]
    elif kind == "neg":
        new = t[1:] if t.startswith("-") else "-" + t
    elif kind == "dupchar":
        i = rng.randrange(len(t))
        new = t[:i] + t[i] + t[i:]
    elif kind in ("int+1", "int-1"):
        try:
            new = str(int(t) + (1 if kind == "int+1" else -1))
        except ValueError:
            new = t + "1"
    elif kind == "swapcase":
        new = t.swapcase()
    else:
        new = t + "e1"
    nt = toks[:j] + ([new] if new is not None else []) + toks[j + 1:]
    return " ".join(nt), kind


def structural_boundaries(fmt, lines):
    """Line boundaries at which a text stops being / starts being structurally complete: before and after every record
    tag, after every header line of every molecule (mol2); before / after the count and comment line and after the last
    atom of every frame (xyz).  One such boundary per molecule is all a reader that mixes up molecules needs."""
    n, ks = len(lines), set()
    roles = roles_of(fmt, lines)
    for i, r in roles.items():
        if r in ("tag", "hdr", "count", "comment"):
            ks.update((i, i + 1))
    for i in range(n):                       # last record of a section: the boundary right after it
        if roles.get(i) in ("atom", "bond") and roles.get(i + 1) != roles.get(i):
            ks.update((i, i + 1))
    return {k for k in ks if 0 <= k <= n}


def plan_damages(rng, lines, thorough, budget, fmt=None, tok_budget=None):
    """List of (damage tuple, kind tag)."""
    n = len(lines)
    ds = [(("none",), "none")]
    ks = list(range(n + 1))
    if not thorough and n > 160:
        ks = sorted(set(rng.sample(ks, 120) + [0, 1, n - 1, n]))
        if fmt is not None:                  # whatever the sampling did: every structural boundary of every molecule
            ks = sorted(set(ks) | structural_boundaries(fmt, lines))
    unity = [i for i, l in enumerate(lines) if l.strip().startswith("@<TRIPOS>UNITY_")]
    if unity:     # every boundary inside and right after a UNITY_* section, whatever the sampling above did
        ends = [next((j for j in range(u + 1, n) if lines[j].strip().startswith("@<TRIPOS>")), n) for u in unity]
        ks = sorted(set(ks) | {k for u, e in zip(unity, ends) for k in range(u, e + 2) if k <= n})
    ds += [(("trunc", k), "trunc") for k in ks]
    if n:
        last = lines[-1]
        ds += [(("cut", n - 1, b), "cut-last") for b in range(1, len(last) + 1)]
        for _ in range(4 if not thorough else 12):       # a few cuts inside other lines as well
            i = rng.randrange(n)
            if lines[i]:
                ds.append((("cut", i, rng.randint(1, len(lines[i]))), "cut-inner"))
    idx = list(range(n))
    per = budget if not thorough else budget * 4
    sel = idx if n <= per else sorted(rng.sample(idx, per))
    ds += [(("del", i), "del") for i in sel]
    sel = idx if n <= per else sorted(rng.sample(idx, per))
    ds += [(("dup", i), "dup") for i in sel]
    # every record tag mangled into an unknown / unrecognised tag (a corrupted @<TRIPOS>MOLECULE makes the next
    # molecule's sections arrive while the previous molecule is still open)
    tags = [i for i, l in enumerate(lines) if l.strip().startswith("@<TRIPOS>")]
    if len(tags) > 60 and not thorough:
        tags = sorted(rng.sample(tags, 60))
    for i in tags:
        ds.append((("repl", i, lines[i].rstrip() + "X"), "tok-tag"))
        ds.append((("repl", i, lines[i].replace("@<TRIPOS>", "@<TRIPOS>_", 1)), "tok-tag"))
    for _ in range(min(per if tok_budget is None else tok_budget, 3 * max(n, 1))):
        if not n:
            break
        i = rng.randrange(n)
        new, kind = corrupt_line(rng, lines[i])
        if new != lines[i] and "\n" not in new and all(32 <= ord(c) < 127 for c in new):
            ds.append((("repl", i, new), "tok-" + kind))
    if fmt is not None:
        ds += plan_record_damages(fmt, lines, thorough)
    return ds


def plan_record_damages(fmt, lines, thorough):
    """Deterministic damage of record lines (no randomness): for the LAST atom record and the LAST bond record of the last
    molecule (of every molecule in the thorough tier) each single token of the mandatory columns and of the first optional
    one dropped (`rec-drop`; every token in the thorough tier); when the last record of the text is not its last line (a molecule without bonds, trailing UNITY / SUBSTRUCTURE sections)
    the text is also cut inside that record: first character and end of every token, every byte in the thorough tier
    (`cut-record`; the last line of a text is already cut at every byte by `cut-last`)."""
    roles = roles_of(fmt, lines)
    n = len(lines)
    ends = [i for i in range(n) if roles.get(i) in ("atom", "bond") and roles.get(i + 1) != roles.get(i)]
    if not ends:
        return []
    owner = (xyz_block_of_line if fmt == "xyz" else mol2_block_of_line)(lines)
    blocks = sorted({owner[i] for i in ends})
    keep = set(blocks) if thorough else {blocks[-1]}
    ds = []
    for i in ends:
        if owner[i] not in keep:
            continue
        toks = lines[i].split()
        for j in range(len(toks) if thorough else min(len(toks), MANDATORY[(fmt, roles[i])] + 1)):
            ds.append((("repl", i, " ".join(toks[:j] + toks[j + 1:])), "rec-drop"))
        if i == ends[-1] and i != n - 1:
            offs = set(range(1, len(lines[i])))
            if not thorough:                 # first character and end of every token
                offs, pos = set(), 0
                for t in toks:
                    a = lines[i].index(t, pos)
                    pos = a + len(t)
                    offs.update((a + 1, pos))
                offs.discard(len(lines[i]))
            ds += [(("cut", i, b), "cut-record") for b in sorted(offs) if b >= 1]
    return ds


def plan_junk_damages(fmt, lines, thorough):
    """Deterministic: each mandatory token of the LAST atom record and the LAST bond record of the last molecule (of every
    molecule in the thorough tier) spoiled in place by a character that belongs to no number, symbol or type (`rec-junk`): in
    the middle of the token and right after it -- a record parser that stops reading a column at the first foreign character
    (a regular expression anchored at one end, a lenient number parser) accepts such a line with a shortened value -- and a
    surplus token after the last mandatory column."""
    roles = roles_of(fmt, lines)
    ends = [i for i in range(len(lines)) if roles.get(i) in ("atom", "bond") and roles.get(i + 1) != roles.get(i)]
    if not ends:
        return []
    owner = (xyz_block_of_line if fmt == "xyz" else mol2_block_of_line)(lines)
    keep = {owner[i] for i in ends} if thorough else {max(owner[i] for i in ends)}
    ds = []
    for i in ends:
        if owner[i] not in keep:
            continue
        toks, need = lines[i].split(), MANDATORY[(fmt, roles[i])]
        for j in range(min(len(toks), need)):
            t = toks[j]
            for new in ([t[:len(t) // 2] + "?" + t[len(t) // 2 + 1:]] if len(t) > 1 else []) + [t + "?"]:
                ds.append((("repl", i, " ".join(toks[:j] + [new] + toks[j + 1:])), "rec-junk"))
        ds.append((("repl", i, " ".join(toks[:need] + ["?7"])), "rec-junk"))
    return ds


# ------------------------------------------------------------------ the oracle
def judge(fmt, lines, owner, orig, d, kind, outcome):
    """Property C10 judged on the implementation alone. Returns None or (signature, text)."""
    tag = f"C10:{fmt}:{kind.split('-')[0] if kind.startswith('tok-') else kind}"
    if outcome[0] == "hang":
        return (f"C10:{fmt}:reader-does-not-terminate",
                f"reader did not return within {LIMIT_S}s on the text damaged by {d} (kind {kind}); the replay holds the text")
    if outcome[0] == "err":
        return None
    ret = outcome[1]
    for j, s in enumerate(ret):
        if not sig_consistent(s):
            return (f"{tag}:inconsistent-counts",
                    f"returned molecule #{j} has n_atoms={s['n_atoms']} n_bonds={s['n_bonds']} but {len(s['elems'])} atoms, "
                    f"coords {s['coords_shape']}, {len(s['bonds'])} bonds ({d})")
    if len(ret) > len(orig):
        return (f"{tag}:extra-molecule", f"{len(ret)} molecules returned, the undamaged text has {len(orig)} ({d})")
    hit = owner.get(d[1]) if d[0] in ("repl", "cut") and len(d) > 1 else None
    if d[0] == "repl" and len(ret) < len(orig) and hit is not None:
        # a corrupted record tag / count can make a WHOLE molecule disappear into an unsupported section (no reader can
        # tell it from a legitimate unknown TRIPOS block): the molecules that are returned must still be complete and
        # equal to the originals they come from, in order, skipping at most the molecule that was hit
        rest = [o for j, o in enumerate(orig) if j != hit]
        if len(ret) <= len(rest) and all(sig_eq(s, o) for s, o in zip(ret, rest)):
            return None
    for j, s in enumerate(ret):
        if sig_eq(s, orig[j]):
            continue
        diff = sig_diff_records(s, orig[j])
        sr = short_record(fmt, lines, d)
        if sr and hit == j:
            # not a format limit: the record visibly lacks a mandatory column, and what was made of it is not what the file says
            return (f"C10:{fmt}:short-record-accepted:{sr[0]}",
                    f"{sr[0]} record {lines[d[1]]!r} reduced to {(d[2] if d[0] == 'repl' else lines[d[1]][:d[2]])!r} "
                    f"({sr[1]} of {sr[2]} mandatory columns) is accepted and molecule #{j} differs from the undamaged one "
                    f"(record diff {diff}; damage {d})")
        if d[0] == "cut" and d[1] == len(lines) - 1 and j == len(orig) - 1 and diff in ((1, 0), (0, 1)):
            # the cut fell inside the last token of the last record: no reader can notice (format limit)
            return (f"C10:{fmt}:last-numeric-token-truncated",
                    f"cut at byte {d[2]} of the last line {lines[-1]!r} is accepted; only the last record differs")
        if d[0] == "repl" and hit == j and diff in ((1, 0), (0, 1)):
            # a corrupted token that is still a valid token changes exactly its own record -- to what the line now SAYS; a line
            # that is no record any more (a column float() / int() refuse, a missing or surplus column), or a value other than
            # the written one, must not come back as a record
            bad = spoiled_record(fmt, lines, d, s)
            if bad:
                return (f"{tag}:corrupted-record-accepted:{bad[0]}",
                        f"{bad[0]} record {lines[d[1]]!r} replaced by {d[2]!r} is accepted and molecule #{j} differs from the "
                        f"undamaged one: {bad[1]} (record diff {diff})")
            continue
        if d[0] == "cut" and d[1] != len(lines) - 1 and hit == j and diff in ((1, 0), (0, 1)) and j == len(ret) - 1:
            return (f"C10:{fmt}:last-numeric-token-truncated",
                    f"cut at byte {d[2]} of line {d[1]} is accepted; only that record differs")
        sh = shifted_records(s, orig[j]) if d[0] == "dup" else None
        if sh is not None:
            # the text has one line MORE than the undamaged one and was accepted: the surplus line was taken for a record and the
            # record it displaced was dropped without a word (the declared counts are met, so no count check can see it)
            role = roles_of(fmt, lines).get(d[1])
            return (f"{tag}:surplus-line-accepted:{sh[0]}",
                    f"line {d[1]} ({role or 'other'} line {lines[d[1]]!r}) duplicated: the text is accepted, molecule #{j} has the "
                    f"declared counts but {sh[0]} record #{sh[1]} twice and its last {sh[0]} record is lost (record diff {diff})")
        oth = records_of_another(s, j, orig)
        if oth is not None:
            return (f"{tag}:records-of-another-molecule",
                    f"molecule #{j} returned after damage {d} has the declared counts but carries the atom or bond records of "
                    f"molecule #{oth} of the undamaged text (record diff against its own original {diff})")
        return (f"{tag}:partial-molecule",
                f"molecule #{j} returned after damage {d} differs from the undamaged one "
                f"(n_atoms {s['n_atoms']} vs {orig[j]['n_atoms']}, n_bonds {s['n_bonds']} vs {orig[j]['n_bonds']}, record diff {diff})")
    return None


def loader(ml, fmt):
    from molli.chem import Molecule
    fn = Molecule.loads_all_xyz if fmt == "xyz" else Molecule.loads_all_mol2
    return lambda text: [mol_sig(m) for m in fn(text)]


def observe(ml, fmt, text):
    return run_limited(loader(ml, fmt), text)


# ------------------------------------------------------------------ shard headers
HEAD = ("From Coq Require Import List ZArith NArith QArith String Ascii.\n"
        "From Molli Require Import Common.ParseStr Model.Parse Model.XyzText Gen.XyzElements.\n"
        "Import ListNotations.\nOpen Scope string_scope.\n")


def header_for(fmt, bases, table, atypes=None, btypes=None):
    h = HEAD + "Definition bases : list (list string) := [\n" + ";\n".join(lines_term(b) for b in bases) + "\n].\n"
    h += "Definition tab : list omol := " + table.term() + ".\n"
    if fmt == "xyz":
        h += "Definition chk := chk_xyz_read element_names bases tab.\n"
    else:
        at = cq_list(f"({cq_str(t)}, {'None' if z is None else '(Some ' + cq_Z(z) + ')'})" for t, z in atypes)
        h += f"Definition atypes : list (string * option Z) := {at}.\n"
        h += f"Definition btypes : list string := {cq_list(cq_str(k) for k in btypes)}.\n"
        h += "Definition chk := chk_mol2_read atypes btypes bases tab.\n"
    return h


# ------------------------------------------------------------------ main
def collect(ctx, rep, ml, fmt):
    """Generate the damaged texts of one format, run the implementation, judge, and return the Coq cases."""
    rng = ctx.rng
    thorough = ctx.thorough
    bases = bundled(ml, fmt, thorough)
    ngen = 14 if not thorough else 60
    if fmt == "xyz":
        bases += gen_xyz_bases(ml, rng, ngen)
    else:
        # texts with UNITY_* sections come right after isornitrate: they must always be truncated at EVERY line boundary
        bases = bases[:1] + gen_unity_bases(ml, rng, 6 if not thorough else 25) + bases[1:] + gen_mol2_bases(ml, rng, ngen if thorough else 10)
    # texts whose molecules declare equal counts; own random stream, so that the families above keep theirs
    import random
    bases += gen_equal_count_bases(ml, random.Random(ctx.seed * 7919 + (1010 if fmt == "xyz" else 1011)), fmt, thorough)
    sect = {}
    if fmt == "mol2":        # varied section layouts (last, own random stream: the families above keep their texts and damages)
        for name, text, plain, feats in gen_section_bases(ml, random.Random(ctx.seed * 7919 + 1012), thorough):
            bases.append((name, text))
            sect[name] = (plain, feats)
    hangs = 0
    table = MolTable()
    base_lines, cases, meta, tokens = [], [], [], set()
    for bname, text in bases:
        lines = to_lines(text)
        if not all(all(ord(c) < 128 for c in l) for l in lines):
            rep.count(f"{fmt}:skipped-non-ascii-base")
            continue
        o0 = observe(ml, fmt, text)
        if o0[0] != "ok":
            # the undamaged text itself is rejected: nothing to damage, but the model must agree that it is rejected
            # (a reader that starts refusing what molli writes must not make this check pass with no coverage)
            rep.count(f"{fmt}:base-rejected")
            if bname in sect:
                rep.count("mol2:base:section-layout:rejected-as-a-whole")
            rep.case(key=f"{fmt}:{bname}:rejected", sample={"fmt": fmt, "base": bname, "outcome": o0[1]})
            if o0[0] == "err":
                base_lines.append(lines)
                cases.append(f"({cq_nat(len(base_lines) - 1)}, DNone, OErr)")
                meta.append((bname, ("none",), "none", "err:" + str(o0[1])))
                if fmt == "mol2":
                    for l in lines:
                        tokens.update(t for t in l.split() if not floatlike(t))
            else:
                rep.violate(f"C10:{fmt}:reader-does-not-terminate", f"reader did not return on the undamaged text {bname}",
                            {"fmt": fmt, "lines": lines, "damage": ["none"], "kind": "none"})
            continue
        orig = o0[1]
        owner = xyz_block_of_line(lines) if fmt == "xyz" else mol2_block_of_line(lines)
        bi = len(base_lines)
        base_lines.append(lines)
        budget = 40 if len(lines) > 60 else 200
        if bname in sect:
            rep.count("mol2:base:section-layout")
            for f in sect[bname][1]:
                rep.count(f"mol2:layout:{f}")
            budget = max(budget, len(lines)) if len(lines) <= 120 else budget      # every line deleted / duplicated
            # unsupported blocks, comment lines and the order of the sections carry no molecule content: the text reads as
            # the molecules of the same records in the layout molli writes
            op = observe(ml, fmt, sect[bname][0])
            if op[0] == "ok" and not (len(op[1]) == len(orig) and all(sig_eq(a, b) for a, b in zip(orig, op[1]))):
                rep.violate("C10:mol2:layout:unsupported-sections-change-content",
                            f"{bname}: the text with extra sections ({', '.join(sect[bname][1])}) is accepted but its molecules "
                            "differ from those of the same records without the extra sections",
                            {"fmt": fmt, "lines": lines, "plain": to_lines(sect[bname][0]), "damage": ["none"], "kind": "layout"})
        eqc = bname.startswith("gen-eqc-")
        if eqc:
            rep.count(f"{fmt}:base:equal-counts")
        if len(orig) > 1 and len({(o["n_atoms"], o["n_bonds"]) for o in orig}) < len(orig):
            rep.count(f"{fmt}:base:some-molecules-with-equal-counts")
        plan = plan_damages(rng, lines, thorough, budget, fmt=fmt,
                            tok_budget=24 if (eqc or bname in sect) and not thorough else None)
        # every planned damage goes through the implementation and the oracle; the comparison with the model inside Coq
        # re-parses the whole text per case, so for long texts it gets a sample (always incl. what the oracle flagged)
        cap = max(80, (200_000 if thorough else 40_000) // max(len(lines), 1))
        in_coq = set(range(len(plan))) if len(plan) <= cap else set(rng.sample(range(len(plan)), cap)) | {0}
        if len(lines) <= 120 or thorough:        # added after the sampling: the random streams of the other families are theirs
            junk = plan_junk_damages(fmt, lines, thorough)
            in_coq |= set(range(len(plan), len(plan) + len(junk)))
            plan += junk
        for di, (d, kind) in enumerate(plan):
            if hangs >= MAX_HANGS:
                rep.count(f"{fmt}:not-run-after-{MAX_HANGS}-hangs")
                continue
            dt = damaged_text(lines, d)
            out = observe(ml, fmt, dt)
            hangs += out[0] == "hang"
            rep.count(f"{fmt}:{kind}")
            rep.count(f"{fmt}:outcome:" + (out[1] if out[0] == "err" else out[0]))
            v = judge(fmt, lines, owner, orig, d, kind, out)
            key = None if d[0] == "none" else f"{fmt}:{bname}:{d}"
            rep.case(key=key, sample={"fmt": fmt, "base": bname, "damage": list(d), "outcome": out[0] if out[0] != "err" else out[1]})
            if v:
                rep.violate(v[0], v[1], {"fmt": fmt, "lines": lines, "damage": list(d), "kind": kind})
            if out[0] == "hang" or (di not in in_coq and not v):
                continue
            rep.count(f"{fmt}:compared-in-coq")
            cases.append(f"({cq_nat(bi)}, {damage_term(d)}, {obs_term(out, table)})")
            meta.append((bname, d, kind, out[0]))
            if fmt == "mol2":
                for l in (lines if d[0] != "repl" else [d[2]]):
                    tokens.update(t for t in l.split() if not floatlike(t))
    return base_lines, table, cases, meta, tokens


def run(ctx, rep):
    import warnings
    warnings.simplefilter("ignore")
    import molli as ml
    rep.rule = ("bundled + generated xyz/mol2 texts (incl. multi-molecule texts whose molecules declare EQUAL counts: conformers "
                "and different molecules) x damage operators: every line boundary (long texts: a sample plus every structural "
                "boundary of every molecule), every byte offset of the last line, line deletions, duplications, token corruptions, "
                "each token of the last atom / bond record dropped; mol2 texts in other SECTION LAYOUTS than the one molli writes "
                "(unsupported TRIPOS blocks before ATOM / between ATOM and BOND / after BOND, comment lines, UNITY sections, "
                "repeated tags, BOND before ATOM) with EVERY line deleted / duplicated; every returned molecule is compared in CONTENT (elements, "
                "labels, coordinates, bond endpoints and types, charges) with the molecule at the same position of the undamaged "
                "text; a case is non-trivial when the text was actually damaged; distinct by (format, base text, damage)")
    rep.trusted += ["harness/c10.py: damage operators mirrored in Coq (apply_damage), canonicalisation of returned molecules, "
                    "exact rationals for observed floats",
                    "CPython: io.StringIO line iteration, str.split/strip, int(), float() (modelled in Common/ParseStr.v for ASCII)",
                    "mol2 vocabularies (Atom.set_mol2_type, MOL2_BOND_TYPE_MAP) are parameters of the model, tabulated from the "
                    "running code for every token in play (owned by C07)"]
    rep.assumptions += ["ASCII input", "names of generated molecules are not integer lists and not @<TRIPOS> records "
                        "(hypotheses name_ok / comment_ok of the theorems)",
                        "|decimal exponent| <= 400 in coordinate tokens"]
    regen_elements(ml)
    ok, out, where = vlib.build_props(ctx, rep, "C10")
    found = False
    if not ok:
        vlib.broken_obligation(rep, "C10_props", f"{where}\n{out[-1500:]}", False)
        return
    for fmt in ("xyz", "mol2"):
        t0 = time.time()
        base_lines, table, cases, meta, tokens = collect(ctx, rep, ml, fmt)
        if fmt == "xyz":
            head = header_for(fmt, base_lines, table)
        else:
            head = header_for(fmt, base_lines, table, atype_table(tokens), btype_keys())
        t1 = time.time()
        # the base texts and the table of observed molecules (exact rationals) take 10-20 s to type-check: compiled ONCE into
        # a module next to the shards (coqc has the current directory in its load path), every shard only loads it
        hp = os.path.join(ctx.sub("shards_" + fmt), f"c10hdr_{fmt}.v")
        open(hp, "w").write("(* generated by the correspondence harness; not kept *)\n" + head)
        rc, hout = vlib.coqc(hp, 900)
        rep.oblig(f"corr_{fmt}_header", rc == 0)
        if rc != 0:
            vlib.broken_obligation(rep, f"corr_{fmt}", "table of base texts / observed molecules does not compile:\n" + hout[-1500:], False)
            continue
        t2 = time.time()
        bad = vlib.run_shards(ctx, rep, fmt, HEAD + f"Require Import c10hdr_{fmt}.\n", "chk", cases,
                              shard=250 if fmt == "mol2" else 400, timeout=900)
        if os.environ.get("C10_TIMING"):
            print(f"[C10 timing] {fmt}: implementation+oracle {t1 - t0:.1f}s, table module {t2 - t1:.1f}s, "
                  f"{len(cases)} cases in shards {time.time() - t2:.1f}s", file=sys.stderr)
        if bad is None:
            vlib.broken_obligation(rep, f"corr_{fmt}", json.dumps(rep.extra.get("shard_errors", ""))[-1500:], False)
            continue
        if bad:
            already = {json.dumps(v.replay.get("damage")) for v in rep.violations}
            for i in bad[:20]:
                bname, d, kind, o = meta[i]
                rep.violate(f"C10:{fmt}:model-mismatch:{kind}",
                            f"model and implementation disagree on {bname} damaged by {d}: implementation {o}",
                            {"fmt": fmt, "base": bname, "damage": list(d), "kind": kind, "model_mismatch": True},
                            no_input=json.dumps(list(d)) not in already)
    return confirm_known(ml)


KNOWN_WITNESS = {
    "C10:xyz:last-numeric-token-truncated": ("xyz", ["1", "w", "C     1.000000     2.000000     3.456700"], ("cut", 2, 40)),
}


def confirm_known(ml):
    out = []
    for sig, (fmt, lines, d) in KNOWN_WITNESS.items():
        orig = observe(ml, fmt, damaged_text(lines, ("none",)))
        o = observe(ml, fmt, damaged_text(lines, d))
        owner = xyz_block_of_line(lines) if fmt == "xyz" else mol2_block_of_line(lines)
        if orig[0] == "ok":
            v = judge(fmt, lines, owner, orig[1], d, "cut-last", o)
            if v and v[0] == sig:
                out.append(sig)
    return out


def replay(ctx, data):
    import molli as ml
    fmt, lines, d = data["fmt"], data.get("lines"), tuple(data["damage"])
    if lines is None:
        return []
    o0 = observe(ml, fmt, damaged_text(lines, ("none",)))
    if o0[0] != "ok":
        return []
    if data.get("kind") == "layout":
        op = observe(ml, fmt, damaged_text(data["plain"], ("none",)))
        if op[0] == "ok" and not (len(op[1]) == len(o0[1]) and all(sig_eq(a, b) for a, b in zip(o0[1], op[1]))):
            return [vlib.Violation("C10:mol2:layout:unsupported-sections-change-content",
                                   "the text with extra sections is accepted but its molecules differ from the plain layout")]
        return []
    owner = xyz_block_of_line(lines) if fmt == "xyz" else mol2_block_of_line(lines)
    o = observe(ml, fmt, damaged_text(lines, d))
    v = judge(fmt, lines, owner, o0[1], d, data.get("kind", d[0]), o)
    return [vlib.Violation(v[0], v[1])] if v else []
