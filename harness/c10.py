"""C10 -- damaged or truncated mol2/xyz input is rejected, never returned as a partial molecule.

Model: coq/Model/Parse.v (line-at-a-time state machines for read_xyz / read_mol2 + the block -> molecule
conversions).  Theorems: coq/Props/C10.v (proofs: coq/Proofs/Parse.v, coq/Proofs/ParseRecords.v).  Tie H: bundled
and generated texts x damage operators (every line boundary, every byte offset of the last record, line
deletions / duplications, token corruptions, dropped tokens of the last records); the implementation runs under
a wall-clock limit; what it returned is compared with the model INSIDE Coq (vm_compute over `chk_xyz_read` /
`chk_mol2_read`).  The Python oracle judges the property directly against the undamaged file: counts AND content
of every returned molecule.  Two ways of fooling a count check have oracle clauses of their own:
  * `...:records-of-another-molecule` -- the declared counts are met with the records of a neighbouring molecule
    (family: texts whose molecules declare equal counts, cut at every structural boundary);
  * `...:short-record-accepted:<atom|bond>` -- a record that lost a mandatory column (cut mid-line, token dropped)
    was made into a different atom / bond.  This is NOT the format limit `last-numeric-token-truncated` (all columns
    present, the last one shortened), which is a recorded known finding for xyz and would otherwise hide it.

  * `...:dup:surplus-line-accepted:<atom|bond>` -- a text with one line MORE than the undamaged one is accepted and a record
    is doubled, the last one of its section lost (the counts are met).  The reader refuses a surplus line only while it
    is not skipping an unsupported TRIPOS section, so the family `gen-sect-*` varies the ORDER and KIND of the sections
    (unsupported blocks before ATOM / between ATOM and BOND / after BOND, blank and comment lines, UNITY sections next to
    unsupported ones, repeated tags, BOND before ATOM; generated and bundled records) under every damage operator; the
    skip state is part of the reader model (v_skip) and of the theorems of Proofs/ParseSections.v.

  * `...:unity-damage-accepted` / `...:attributes-differ:<fields>` -- damage INSIDE a section whose length is declared by a count
    of its own (UNITY_ATOM_ATTR / UNITY_BOND_ATTR: `<id> <n_attr>` + exactly n_attr `<name> <value>` lines): the ATOM / BOND
    counts stay met, only formal charges / attributes of atoms and bonds change, so these are part of what is observed of a
    molecule (mol_sig) and EVERY line of every such section is deleted, duplicated, and has its count / id / tokens spoiled
    (`unity-*`).  A damaged text that is still well-formed and says what was returned is the format limit
    `optional-section:damaged-text-still-well-formed` (known finding); theorems: Proofs/ParseAttr.v.
  * `...:none:not-as-written:<field>` / `...:none:record-depends-on-its-predecessors` / `...:entry-point:...` -- the reference for
    "the undamaged file" is no longer the implementation's own reading alone: every undamaged text is compared with what it
    SAYS (reference readers of this module, one record at a time, no state), every record of a multi-record text is read on
    its own and compared with its molecule inside the text, and every text (damaged ones two entry points at a time) goes
    through every entry point (3 classes x string / path / stream / generator / first record, top-level loaders); family
    `gen-lib-*`: consecutive records of EQUAL size and different content.

This module also hosts what harness/c08.py shares (generators, canonicalisation, Gen emitters).
"""
import io, os, sys, math, signal, time, json
from fractions import Fraction
import vlib
from vlib import cq_str, cq_list, cq_Z, cq_nat, cq_Q

LIMIT_S = 4.0           # wall-clock limit for ONE call of the reader under test (normal calls take milliseconds)
MAX_HANGS = 6           # per format: after that many non-terminating calls the remaining damages are not run


# ------------------------------------------------------------------ implementation driver
class Hang(Exception):
    pass


def run_limited(fn, *a, limit=LIMIT_S):
    """Run fn under a wall-clock limit. Returns ('ok', value) | ('err', exception class name) | ('hang', seconds)."""
    fired = []

    def on_alarm(signum, frame):
        fired.append(1)
        raise Hang()

    old = signal.signal(signal.SIGALRM, on_alarm)
    signal.setitimer(signal.ITIMER_REAL, limit)
    t0 = time.time()
    try:
        try:
            r = fn(*a)
            out = ("ok", r)
        except Hang:
            out = ("hang", time.time() - t0)
        except BaseException as e:  # noqa: every exception is an acceptable rejection
            out = ("err", type(e).__name__)
    finally:
        signal.setitimer(signal.ITIMER_REAL, 0)
        signal.signal(signal.SIGALRM, old)
    if fired and out[0] != "hang":      # a bare `except:` in the code under test swallowed the alarm
        out = ("hang", time.time() - t0)
    return out


def mol_sig(m):
    """Full content of a returned molecule (for the oracle)."""
    idx = {id(a): i for i, a in enumerate(m.atoms)}
    ch = getattr(m, "atomic_charges", None)
    return {
        "n_atoms": int(m.n_atoms), "n_bonds": int(getattr(m, "n_bonds", 0)),
        "elems": [int(a.element.z) for a in m.atoms],
        "dummy": [a.atype.name == "Dummy" for a in m.atoms],
        "labels": [a.label for a in m.atoms],
        "coords": [tuple(float(x) for x in c) for c in m.coords],
        "coords_shape": tuple(m.coords.shape),
        "bonds": [(idx.get(id(b.a1), -1), idx.get(id(b.a2), -1), b.btype.name) for b in getattr(m, "bonds", [])],
        "charges": None if ch is None else [float(x) for x in ch],
        # what the optional sections of a file and the per-record conversions leave on the atoms / bonds (UNITY_ATOM_ATTR ->
        # Atom.attrib and Atom.formal_charge, UNITY_BOND_ATTR -> Bond.attrib, the type column -> atype / geom) and the name
        "name": getattr(m, "name", None),
        "atypes": [getattr(getattr(a, "atype", None), "name", None) for a in m.atoms],
        "geoms": [getattr(getattr(a, "geom", None), "name", None) for a in m.atoms],
        "fcharges": [_int_or_repr(getattr(a, "formal_charge", 0)) for a in m.atoms],
        "aattrib": [_attrib_items(getattr(a, "attrib", None)) for a in m.atoms],
        "battrib": [_attrib_items(getattr(b, "attrib", None)) for b in getattr(m, "bonds", [])],
    }


def _int_or_repr(x):
    try:
        return int(x)
    except (TypeError, ValueError):
        return repr(x)


def _attrib_items(d):
    try:
        return sorted((str(k), str(v)) for k, v in dict(d or {}).items())
    except (TypeError, ValueError):
        return [("?", repr(d))]


def feq(a, b, tol=1e-6):
    if math.isnan(a) or math.isnan(b):
        return math.isnan(a) and math.isnan(b)
    if math.isinf(a) or math.isinf(b):
        return a == b
    return abs(a - b) <= tol * max(1.0, abs(b))


def atom_rec(s, i):
    return (s["elems"][i], s["dummy"][i], s["labels"][i], s["coords"][i], None if s["charges"] is None else s["charges"][i])


def atom_eq(x, y):
    return x[0] == y[0] and x[1] == y[1] and x[2] == y[2] and all(feq(p, q) for p, q in zip(x[3], y[3])) and \
        ((x[4] is None) == (y[4] is None)) and (x[4] is None or feq(x[4], y[4], 1e-3))


EXTRA_ATOM = ("atypes", "geoms", "fcharges", "aattrib")


def atom_extra(s, i):
    """What the attribute sections and the per-record conversion left on atom #i besides its record proper."""
    return tuple(s[k][i] if k in s and i < len(s[k]) else None for k in EXTRA_ATOM)


def core_eq(a, b):
    """Same records (coordinates to 1e-6, charges to 1e-3)."""
    if a["n_atoms"] != b["n_atoms"] or a["n_bonds"] != b["n_bonds"] or a["bonds"] != b["bonds"]:
        return False
    if len(a["elems"]) != len(b["elems"]):
        return False
    return all(atom_eq(atom_rec(a, i), atom_rec(b, i)) for i in range(len(a["elems"])))


def extras_diff(a, b):
    """Names of the fields outside the records proper in which two molecules of the same shape differ: atom types / geometries
    (the type column), formal charges and attributes (UNITY sections).  Sigs made without these fields compare equal."""
    out = []
    for k in EXTRA_ATOM + ("battrib",):
        if k in a and k in b and a[k] != b[k]:
            out.append(k)
    return out


def sig_eq(a, b):
    """Same content: records, and what the attribute sections put on atoms and bonds."""
    return core_eq(a, b) and not extras_diff(a, b)


def sig_consistent(s):
    """Internal completeness: as many atoms / coordinate rows / charges / bonds as declared."""
    n = s["n_atoms"]
    return (len(s["elems"]) == n and s["coords_shape"] == (n, 3) and len(s["bonds"]) == s["n_bonds"]
            and (s["charges"] is None or len(s["charges"]) == n)
            and all(0 <= i < n and 0 <= j < n for i, j, _ in s["bonds"]))


def sig_diff_records(a, b):
    """Number of atom records and bond records in which two same-shaped molecules differ (None: different shape)."""
    if a["n_atoms"] != b["n_atoms"] or a["n_bonds"] != b["n_bonds"] or len(a["elems"]) != len(b["elems"]) \
            or len(a["bonds"]) != len(b["bonds"]):
        return None
    da = sum(1 for i in range(len(a["elems"])) if not atom_eq(atom_rec(a, i), atom_rec(b, i)) or atom_extra(a, i) != atom_extra(b, i))
    ba, bb = a.get("battrib"), b.get("battrib")
    db = sum(1 for k, (x, y) in enumerate(zip(a["bonds"], b["bonds"]))
             if x != y or (ba is not None and bb is not None and k < len(ba) and k < len(bb) and ba[k] != bb[k]))
    return da, db


# ------------------------------------------------------------------ texts, lines, damage
def to_lines(text):
    ls = text.split("\n")
    if ls and ls[-1] == "":
        ls.pop()
    return ls


def damaged_text(lines, d):
    k = d[0]
    if k == "none":
        out, nl = list(lines), True
    elif k == "trunc":
        out, nl = lines[:d[1]], True
    elif k == "cut":
        out, nl = lines[:d[1]], True
        if d[1] < len(lines) and d[2] > 0 and lines[d[1]][:d[2]] != "":
            out = out + [lines[d[1]][:d[2]]]
            nl = False
    elif k == "del":
        out, nl = lines[:d[1]] + lines[d[1] + 1:], True
    elif k == "dup":
        out, nl = (lines[:d[1] + 1] + lines[d[1]:] if d[1] < len(lines) else list(lines)), True
    elif k == "repl":
        out, nl = (lines[:d[1]] + [d[2]] + lines[d[1] + 1:] if d[1] < len(lines) else list(lines)), True
    else:
        raise ValueError(d)
    if not out:
        return ""
    return "\n".join(out) + ("\n" if nl else "")


def damage_term(d):
    k = d[0]
    if k == "none":
        return "DNone"
    if k == "trunc":
        return f"(DTrunc {cq_nat(d[1])})"
    if k == "cut":
        return f"(DCut {cq_nat(d[1])} {cq_nat(d[2])})"
    if k == "del":
        return f"(DDel {cq_nat(d[1])})"
    if k == "dup":
        return f"(DDup {cq_nat(d[1])})"
    if k == "repl":
        return f"(DRepl {cq_nat(d[1])} (s2l {cq_str(d[2])}))"
    raise ValueError(d)


def lines_term(lines):
    items = [cq_str(l) for l in lines]
    if len(items) <= 1500:
        return cq_list(items)
    return "(" + " ++ ".join(cq_list(items[i:i + 1500]) for i in range(0, len(items), 1500)) + ")%list"


def ofloat_term(x):
    if math.isnan(x):
        return "ONan"
    if math.isinf(x):
        return f"(OInf {'true' if x < 0 else 'false'})"
    return f"(OQ {cq_Q(Fraction(x))})"


def omol_term(s):
    coords = cq_list("(" + ", ".join(ofloat_term(x) for x in c) + ")" for c in s["coords"])
    bonds = cq_list(f"({cq_nat(i)}, {cq_nat(j)})" for i, j, _ in s["bonds"])
    return (f"(mk_omol {cq_Z(s['n_atoms'])} {cq_Z(s['n_bonds'])} {cq_list(cq_Z(z) for z in s['elems'])} "
            f"{coords} {bonds})")


class MolTable:
    """Shard-wide table of distinct observed molecules; observations refer to it by index."""
    def __init__(self):
        self.terms, self.index = [], {}

    def add(self, s):
        t = omol_term(s)
        if t not in self.index:
            self.index[t] = len(self.terms)
            self.terms.append(t)
        return self.index[t]

    def term(self):
        if not self.terms:
            return "[]"
        ch = [cq_list(self.terms[i:i + 200]) for i in range(0, len(self.terms), 200)]
        return "(" + " ++ ".join(ch) + ")%list"


def obs_term(outcome, table):
    if outcome[0] != "ok":
        return "OErr"
    return "(OOk " + cq_list(cq_nat(table.add(s)) for s in outcome[1]) + ")"


# ------------------------------------------------------------------ Gen emitters (tie T)
def gen_elements_text(ml):
    from molli.chem import Element
    names = [(n, int(m.z)) for n, m in Element.__members__.items()]
    syms = [(int(e.z), e.symbol) for e in Element]
    t = ["(* regenerated from molli.chem.Element on every run (tie T): Element[name] and Element(z).symbol *)",
         "From Coq Require Import List ZArith String.", "Import ListNotations.", "Local Open Scope string_scope.",
         "Definition element_names : list (string * Z) := ["]
    t.append(";\n".join(f"  ({cq_str(n)}, {cq_Z(z)})" for n, z in names))
    t.append("].")
    t.append("Definition element_symbols : list (Z * string) := [")
    t.append(";\n".join(f"  ({cq_Z(z)}, {cq_str(s)})" for z, s in syms))
    t.append("].")
    return "\n".join(t) + "\n"


def regen_elements(ml):
    with vlib.CoqLock():
        return vlib.write_if_changed(os.path.join(vlib.COQ, "Gen", "XyzElements.v"), gen_elements_text(ml))


def atype_table(tokens):
    """Atom.set_mol2_type evaluated on every distinct token (tie T restricted to the tokens in play)."""
    from molli.chem import Atom
    out = []
    for t in sorted(tokens):
        try:
            a = Atom()
            a.set_mol2_type(t)
            out.append((t, int(a.element.z)))
        except Exception:
            out.append((t, None))
    return out


def floatlike(t):
    try:
        float(t)
        return True
    except ValueError:
        return False


def btype_keys():
    from molli.chem.bond import MOL2_BOND_TYPE_MAP
    return sorted(MOL2_BOND_TYPE_MAP.keys())


# ------------------------------------------------------------------ generated texts
ELEMS = ["H", "C", "N", "O", "F", "Cl", "Br", "Si", "Pd", "Unknown", "Og", "Li"]
NAMES = ["mol", "a1b", "benzene-d6", "x_y", "conf 3", "C 0 0 0", "Name#1", "M", "frame-2 of 7", "1a"]


def rand_coord(rng):
    r = rng.random()
    if r < 0.15:
        return float(rng.randint(-5, 5))
    if r < 0.25:
        return rng.choice([1e-7, -1e-7, 123456.789012, -99999.5, 0.0, -0.0, 1e-3, 0.0000005])
    return round(rng.uniform(-30, 30), rng.randint(0, 8))


def rand_molecule(ml, rng, n=None, name=None, elems=None):
    from molli.chem import Molecule, Atom
    n = rng.randint(0, 5) if n is None else n
    m = Molecule(n_atoms=0, name=name or rng.choice(NAMES))
    for i in range(n):
        a = Atom(rng.choice(elems or ELEMS))
        if rng.random() < 0.5:
            a.label = rng.choice(["C1", "Hx", "N", "Zz9", "a", "O2'", "X"])      # labels are NOT element symbols
        m.add_atom(a, [rand_coord(rng) for _ in range(3)])
    if n >= 2:
        for _ in range(rng.randint(0, n)):
            i, j = rng.sample(range(n), 2)
            try:
                m.connect(m.atoms[i], m.atoms[j])
            except Exception:
                pass
    return m


def gen_xyz_bases(ml, rng, count):
    out = []
    for b in range(count):
        k = rng.randint(1, 3)
        ms = [rand_molecule(ml, rng, n=(0 if rng.random() < 0.12 else None)) for _ in range(k)]
        out.append((f"gen-xyz-{b}", "".join(m.dumps_xyz() for m in ms)))
    return out


def gen_mol2_bases(ml, rng, count):
    out = []
    for b in range(count):
        k = rng.randint(1, 3)
        ms = [rand_molecule(ml, rng, n=(0 if rng.random() < 0.12 else None), elems=["H", "C", "N", "O", "Cl", "S"])
              for _ in range(k)]
        out.append((f"gen-mol2-{b}", "".join(m.dumps_mol2() for m in ms)))
    return out


def with_unity(rng, m):
    """mol2 text of m with UNITY_ATOM_ATTR (between ATOM and BOND) and UNITY_BOND_ATTR sections of 1..3 groups, groups
    with 0..2 attributes; a UNITY section must be followed by another record, so the text ends with an (unsupported,
    skipped) SUBSTRUCTURE section."""
    lines = to_lines(m.dumps_mol2())
    ib = lines.index("@<TRIPOS>BOND")

    def groups(n_items):
        out = []
        for _ in range(rng.randint(1, 3)):
            k = rng.choice([0, 1, 1, 2])
            out.append(f"{rng.randint(1, n_items)} {k}")
            out += [rng.choice(["charge 1", "charge -1", "color red", "tag x9"]) for _ in range(k)]
        return out
    ua = ["@<TRIPOS>UNITY_ATOM_ATTR"] + groups(m.n_atoms) if m.n_atoms else []
    ub = ["@<TRIPOS>UNITY_BOND_ATTR"] + groups(m.n_bonds) if m.n_bonds else []
    out = lines[:ib] + ua + lines[ib:] + ub + ["@<TRIPOS>SUBSTRUCTURE", "1 UNL1 1"]
    return "\n".join(out) + "\n"


def gen_unity_bases(ml, rng, count):
    out = []
    for b in range(count):
        ms = [rand_molecule(ml, rng, n=rng.randint(1, 4), elems=["H", "C", "N", "O"]) for _ in range(rng.randint(1, 2))]
        out.append((f"gen-unity-{b}", "".join(with_unity(rng, m) for m in ms)))
    return out


def equal_count_group(ml, rng, n, k, conformers, hard_last_bond=False):
    """k molecules declaring the SAME atom and bond counts: conformers (same atoms and bond table, other coordinates) or
    different molecules (other elements, other bond table, other bond types).  A reader that hands out the records of
    molecule #i under the header of molecule #i+1 passes every count check on such a text."""
    from molli.chem import Molecule, Atom, BondType
    pairs_all = [(i, j) for i in range(n) for j in range(i + 1, n)]
    nb = rng.randint(1, min(len(pairs_all), n + 1))
    btypes = [BondType.Single, BondType.Double, BondType.Triple, BondType.Aromatic]
    elems = [rng.choice(["C", "N", "O", "H", "S", "Cl"]) for _ in range(n)]
    bonds = [(p, rng.choice(btypes)) for p in rng.sample(pairs_all, nb)]
    if hard_last_bond:       # the last record of the text: a two-digit endpoint and a type that is not the plain single bond
        bonds = [b for b in bonds if b[0] != (0, n - 1)][:nb - 1] + [((0, n - 1), rng.choice(btypes[1:]))]
    ms = []
    for c in range(k):
        if c and not conformers:
            e2 = [rng.choice(["C", "N", "O", "H", "S", "Cl"]) for _ in range(n)]
            if e2 == elems:
                e2[0] = "F"
            elems = e2
            last = bonds[-1]
            bonds = [(p, rng.choice(btypes)) for p in rng.sample(pairs_all, len(bonds))]
            if hard_last_bond:
                bonds = [b for b in bonds if b[0] != last[0]][:len(bonds) - 1] + [last]
        m = Molecule(n_atoms=0, name=f"eq-{c}")
        for i in range(n):
            m.add_atom(Atom(elems[i]), [round(rng.uniform(-9, 9), 4) + 0.0001 * (c + 1) for _ in range(3)])
        for (i, j), bt in bonds:
            m.connect(m.atoms[i], m.atoms[j], btype=bt)
        ms.append(m)
    return ms


def gen_equal_count_bases(ml, rng, fmt, thorough):
    """(name, text) of multi-molecule texts whose molecules all declare equal counts."""
    out = []
    plan = [(rng.randint(2, 4), rng.randint(2, 3), True, False), (rng.randint(2, 4), rng.randint(2, 3), False, False)]
    if fmt == "mol2":
        plan.append((rng.randint(10, 12), 2, rng.random() < 0.5, True))
    if thorough:
        plan += [(rng.randint(2, 6), rng.randint(2, 4), rng.random() < 0.5, False) for _ in range(8)]
    for b, (n, k, conf, hard) in enumerate(plan):
        ms = equal_count_group(ml, rng, n, k, conf, hard)
        text = "".join(m.dumps_xyz() if fmt == "xyz" else m.dumps_mol2() for m in ms)
        out.append((f"gen-eqc-{fmt}-{'conf' if conf else 'diff'}-{b}", text))
    return out


# ------------------------------------------------------------------ section layouts of a mol2 text
# A mol2 text is a sequence of TRIPOS sections.  The reader knows five of them (MOLECULE, ATOM, BOND, UNITY_ATOM_ATTR,
# UNITY_BOND_ATTR) and SKIPS the lines of every other one; "a surplus line after a complete ATOM / BOND section is
# refused" holds only while nothing is being skipped.  What molli writes (and every bundled file) has the single layout
# MOLECULE, ATOM, BOND[, SUBSTRUCTURE]: the skip state is then never entered before the records.  This family varies the
# layout: unsupported blocks (known TRIPOS names, unknown names, empty bodies, bodies that look like records, repeated
# tags), comment and blank lines, UNITY sections -- before ATOM, between ATOM and BOND, after BOND, in every molecule of
# a text -- and BOND before ATOM.  Every damage operator then runs over the whole text.
OTHER_TAGS = ["SUBSTRUCTURE", "COMMENT", "ALT_TYPE", "DICT", "CRYSIN", "SET", "FF_PBC", "CENTER_OF_MASS", "ROTATABLE_BOND",
              "XYZZY", "ATOMS", "BOND_ATTR"]
OTHER_BODY = ["1 UNL1 1", "written by another program", "1 UNL1 1 TEMP 0 **** **** 0 ROOT", "CHARMM", "GAFF_ALT_TYPE_SET",
              "   10.0   10.0   10.0   90.0   90.0   90.0  1  1"]
RECORD_LIKE_BODY = ["     1 C       0.000000     0.000000     0.000000 C          1 UNL1 0.000", "     1      1      2   1",
                    "1 2 3 4 5 6 7 8 9"]


def other_block(rng, feats, body=None, tag=None, record_like=False):
    """One unsupported TRIPOS block: its tag line and 0..3 body lines (none of which is a TRIPOS record)."""
    tag = tag or rng.choice(OTHER_TAGS)
    nb = rng.choice([0, 1, 1, 2, 3]) if body is None else body
    lines = ["@<TRIPOS>" + tag] + [rng.choice(RECORD_LIKE_BODY if record_like else OTHER_BODY) for _ in range(nb)]
    if nb == 0:
        feats.add("empty-body")
    if record_like and nb:
        feats.add("record-like-body")
    return lines


def unity_groups(rng, n_items):
    out = []
    for _ in range(rng.randint(1, 2)):
        k = rng.choice([0, 1, 1, 2])
        out.append(f"{rng.randint(1, n_items)} {k}")
        out += [rng.choice(["charge 1", "charge -1", "color red", "tag x9"]) for _ in range(k)]
    return out


def molecule_spans(lines):
    """For every molecule of a well-formed mol2 text: dict with the line index of its ATOM tag (`a`), the index after its
    last atom record (`a_end`), of its BOND tag (`b`), after its last bond record (`b_end`), and its counts."""
    roles, out, cur = mol2_roles(lines), [], None
    for i, l in enumerate(lines):
        s = l.strip()
        if not s.startswith("@<TRIPOS>"):
            continue
        sec = s[len("@<TRIPOS>"):]
        if sec == "MOLECULE":
            cur = {"m": i}
            out.append(cur)
        elif cur is not None and sec in ("ATOM", "BOND") and sec[0].lower() not in cur:
            j = i + 1
            while roles.get(j) == sec.lower():
                j += 1
            cur[sec[0].lower()], cur[sec[0].lower() + "_end"] = i, j
    return [c for c in out if "a" in c and "b" in c and c["a"] < c["b"]]


def sectioned(rng, text, where, feats, bond_first=False, ign=False, unity=False, repeat=False, record_like=False,
              unity_first=False):
    """`text` (well-formed, layout MOLECULE/ATOM/BOND) with extra sections.  `where`: subset of {"pre", "mid", "post"} =
    before ATOM / between ATOM and BOND / after BOND, applied to every molecule.  Returns the new text."""
    lines = to_lines(text)
    for sp in reversed(molecule_spans(lines)):
        na, nb = sp["a_end"] - sp["a"] - 1, sp["b_end"] - sp["b"] - 1
        ins = {"pre": [], "mid": [], "post": []}
        for pos in ("pre", "mid", "post"):
            if pos not in where:
                continue
            ins[pos] += other_block(rng, feats, record_like=record_like)
            feats.add({"pre": "other-before-atom", "mid": "other-between-atom-and-bond", "post": "other-after-bond"}[pos])
            if repeat:
                tag = ins[pos][0][len("@<TRIPOS>"):]
                ins[pos] += other_block(rng, feats, tag=tag, body=rng.choice([0, 1]))
                feats.add("repeated-tag")
            if ign:
                ins[pos] = [rng.choice(["", "# comment", "   ", "#"])] + ins[pos] + [rng.choice(["# a comment line", ""])]
                feats.add("blank-and-comment-lines")
        if unity and not bond_first:
            # UNITY sections need the records they refer to, and a TRIPOS record after them: after an unsupported block and
            # in front of one (the skip state is entered, left for the UNITY loop, entered again)
            if na and "mid" in where:
                ins["mid"] += ["@<TRIPOS>UNITY_ATOM_ATTR"] + unity_groups(rng, na)
                feats.add("unity-after-unsupported")
            if nb and "post" in where:
                while ins["post"] and not ins["post"][0].startswith("@<TRIPOS>"):
                    ins["post"].pop(0)       # the UNITY loops refuse a blank / comment line: a TRIPOS record comes next
                ins["post"] = ["@<TRIPOS>UNITY_BOND_ATTR"] + unity_groups(rng, nb) + ins["post"]
                feats.add("unity-before-unsupported")
        if unity_first and na:
            # a UNITY_ATOM_ATTR section in front of the records it refers to (after the unsupported block, if any): refused as
            # soon as a group carries an attribute, walked over when every group is empty
            ins["pre"] += ["@<TRIPOS>UNITY_ATOM_ATTR"] + unity_groups(rng, na)
            feats.add("unity-before-atom")
        atoms, bonds = lines[sp["a"]:sp["a_end"]], lines[sp["b"]:sp["b_end"]]
        between = lines[sp["a_end"]:sp["b"]]
        if bond_first and not between:
            first, second = bonds, atoms
            feats.add("bond-before-atom")
        else:
            first, second = atoms, bonds
        lines[sp["a"]:sp["b_end"]] = ins["pre"] + first + between + ins["mid"] + second + ins["post"]
    if len(molecule_spans(to_lines(text))) > 1:
        feats.add("multi-molecule")
    return "\n".join(lines) + "\n"


def gen_section_bases(ml, rng, thorough):
    """(name, text, plain text, features) -- texts with varied section layouts; `plain` is the same text in the layout molli
    writes (the undamaged file the returned molecules are compared with)."""
    def mol(n, nb_min=1):
        for _ in range(50):
            m = rand_molecule(ml, rng, n=n, elems=["H", "C", "N", "O", "Cl", "S"])
            if m.n_bonds >= nb_min:
                return m
        return m

    def plain_of(kind):
        if kind == "one":
            return mol(rng.randint(3, 5), 2).dumps_mol2()
        if kind == "conf":
            return "".join(m.dumps_mol2() for m in equal_count_group(ml, rng, rng.randint(3, 4), 2, True))
        if kind == "diff":
            return "".join(m.dumps_mol2() for m in equal_count_group(ml, rng, rng.randint(2, 4), 2, False))
        if kind == "three":
            return "".join(m.dumps_mol2() for m in (mol(rng.randint(2, 4)), mol(rng.randint(1, 3), 0), mol(rng.randint(2, 3))))
        p = getattr(ml.files, kind)
        return open(str(p)).read()

    plan = [
        ("one", dict(where={"pre"})),                                            # the records come after a skipped block
        ("one", dict(where={"mid"}, record_like=True)),
        ("one", dict(where={"post"}, ign=True)),
        ("conf", dict(where={"pre", "mid", "post"}, repeat=True)),
        ("diff", dict(where={"pre", "mid", "post"}, unity=True)),
        ("one", dict(where={"pre"}, bond_first=True, ign=True)),
        ("dmf_mol2", dict(where={"pre", "mid"})),                                # 9-column records with partial charges
        ("three", dict(where={"pre", "post"}, record_like=True, ign=True)),
        ("one", dict(where={"pre"}, unity_first=True)),
    ]
    if thorough:
        kinds = ["one", "conf", "diff", "three", "benzene_mol2", "dummy_mol2", "hadd_test_mol2", "fxyl_mol2"]
        for _ in range(28):
            where = {p for p in ("pre", "mid", "post") if rng.random() < 0.6} or {"pre"}
            plan.append((rng.choice(kinds), dict(where=where, **{k: rng.random() < 0.35 for k in
                                                                  ("bond_first", "ign", "unity", "repeat", "record_like")},
                                                 unity_first=rng.random() < 0.1)))
    out = []
    for b, (kind, kw) in enumerate(plan):
        plain, feats = plain_of(kind), set()
        if not kind.endswith("_mol2"):
            feats.add("generated")
        else:
            feats.add("bundled")
        text = sectioned(rng, plain, feats=feats, **kw)
        out.append((f"gen-sect-{b}-{kind}-" + "+".join(sorted(kw["where"])), text, plain, sorted(feats)))
    return out


def bundled(ml, fmt, thorough):
    F = ml.files
    if fmt == "xyz":
        names = ["dummy_xyz", "dendrobine_xyz", "pentane_confs_xyz"]
    else:
        # isornitrate is the only bundled file with a UNITY_ATOM_ATTR section: first, so it is never squeezed out
        names = ["isornitrate_mol2", "dummy_mol2", "benzene_mol2", "dmf_mol2", "pentane_confs_mol2", "dendrobine_mol2",
                 "hadd_test_mol2", "fxyl_mol2"]
        if thorough:
            names += ["bpa_backbone_mol2", "box_backbone_mol2", "cinchonidine_query",
                      "cinchonidine_mcs", "nanotube_mol2"]
    out = []
    for n in names:
        p = getattr(F, n, None)
        if p is not None and os.path.exists(str(p)) and os.path.getsize(str(p)) > 0:
            out.append((n, open(str(p)).read()))
    return out


# ------------------------------------------------------------------ block structure of an undamaged text
def xyz_block_of_line(lines):
    """line index -> block index, for a well-formed xyz text."""
    owner, i, b = {}, 0, 0
    while i < len(lines):
        n = max(int(lines[i]), 0)
        for j in range(i, min(i + 2 + n, len(lines))):
            owner[j] = b
        i += 2 + n
        b += 1
    return owner


def mol2_block_of_line(lines):
    owner, b = {}, -1
    for i, l in enumerate(lines):
        if l.strip().startswith("@<TRIPOS>MOLECULE"):
            b += 1
        owner[i] = max(b, 0)
    return owner


# ------------------------------------------------------------------ record lines of an undamaged text
# mandatory columns of a record: xyz `sym x y z`; mol2 ATOM `id name x y z type` (the conversion needs the type column);
# mol2 BOND `id a1 a2 type`.  Trailing columns beyond these are optional in the format.
MANDATORY = {("xyz", "atom"): 4, ("mol2", "atom"): 6, ("mol2", "bond"): 4}


def xyz_roles(lines):
    roles, i = {}, 0
    while i < len(lines):
        try:
            n = max(int(lines[i]), 0)
        except ValueError:
            break
        roles[i] = "count"
        if i + 1 < len(lines):
            roles[i + 1] = "comment"
        for j in range(i + 2, min(i + 2 + n, len(lines))):
            roles[j] = "atom"
        i += 2 + n
    return roles


def mol2_roles(lines):
    """line index -> 'tag' | 'hdr' | 'atom' | 'bond' for a well-formed mol2 text (counts taken from each header)."""
    roles, n, i, na, nb = {}, len(lines), 0, 0, 0
    while i < n:
        s = lines[i].strip()
        if not s.startswith("@<TRIPOS>"):
            i += 1
            continue
        roles[i] = "tag"
        sec = s[len("@<TRIPOS>"):]
        if sec == "MOLECULE":
            j = i + 1
            while j < min(i + 6, n) and not (j == i + 5 and lines[j].strip().startswith("@<TRIPOS>")):
                roles[j] = "hdr"
                j += 1
            try:
                c = lines[i + 2].split()
                na, nb = int(c[0]), (int(c[1]) if len(c) > 1 else 0)
            except (ValueError, IndexError):
                na = nb = 0
            i = j
        elif sec in ("ATOM", "BOND"):
            k = max(na if sec == "ATOM" else nb, 0)
            for j in range(i + 1, min(i + 1 + k, n)):
                roles[j] = "atom" if sec == "ATOM" else "bond"
            i += 1 + k
        elif sec in ("UNITY_ATOM_ATTR", "UNITY_BOND_ATTR"):
            j = i + 1
            while j < n and not lines[j].strip().startswith("@<TRIPOS>"):
                roles[j] = "uattr"           # group headers `<id> <n_attr>` and attribute lines `<name> <value>`
                j += 1
            i = j
        else:
            i += 1
    return roles


def roles_of(fmt, lines):
    return xyz_roles(lines) if fmt == "xyz" else mol2_roles(lines)


def short_record(fmt, lines, d):
    """(role, tokens left, mandatory columns) when the damage left, in the place of an atom / bond record, a line with
    fewer tokens than the mandatory columns of that record (a record cut mid-line, or one that lost a token)."""
    if d[0] not in ("cut", "repl") or d[1] >= len(lines):
        return None
    surv = d[2] if d[0] == "repl" else lines[d[1]][:d[2]]
    if surv == "":
        return None                      # nothing of the line is left: a plain truncation at a line boundary
    role = roles_of(fmt, lines).get(d[1])
    need = MANDATORY.get((fmt, role))
    k = len(surv.split())
    return (role, k, need) if need is not None and k < need else None


def atoms_of(s):
    return [atom_rec(s, i) for i in range(len(s["elems"]))]


def written_record(fmt, role, line):
    """What a record line says when ALL of it is read and every column is what Python's float() / int() accept:
    ('coords', (x, y, z)) | ('ends', (i, j)) | None when the line is not a record of that kind."""
    t = line.split()
    try:
        if (fmt, role) == ("xyz", "atom"):
            return ("coords", tuple(float(x) for x in t[1:4])) if len(t) == 4 else None
        if (fmt, role) == ("mol2", "atom"):
            return ("coords", tuple(float(x) for x in t[2:5])) if len(t) >= 6 else None
        if (fmt, role) == ("mol2", "bond"):
            return ("ends", (int(t[1]) - 1, int(t[2]) - 1)) if len(t) >= 4 else None
    except ValueError:
        return None
    return None


def spoiled_record(fmt, lines, d, s):
    """For a replaced atom / bond record line of an accepted text: (role, what is wrong) when the returned molecule s does not
    carry, in the place of that record, what the replacing line says; None when it does (or the line was no record line)."""
    roles = roles_of(fmt, lines)
    role = roles.get(d[1])
    if role not in ("atom", "bond"):
        return None
    r, i = 0, d[1] - 1
    while i >= 0 and roles.get(i) == role:
        r, i = r + 1, i - 1
    w = written_record(fmt, role, d[2])
    if w is None:
        return (role, "the replacing line is not a well-formed record (a column is missing, surplus, or not a number)")
    if w[0] == "coords":
        if r < len(s["coords"]) and not all(feq(p, q) for p, q in zip(s["coords"][r], w[1])):
            return (role, f"atom #{r} has coordinates {s['coords'][r]}, the line says {w[1]}")
    elif r < len(s["bonds"]) and all(0 <= k < s["n_atoms"] for k in w[1]) and tuple(s["bonds"][r][:2]) != w[1]:
        return (role, f"bond #{r} joins atoms {s['bonds'][r][:2]}, the line says {w[1]}")
    return None


def same_atoms(a, b):
    x, y = atoms_of(a), atoms_of(b)
    return len(x) == len(y) and all(atom_eq(p, q) for p, q in zip(x, y))


def records_of_another(s, j, orig):
    """Index of a molecule of the undamaged text, other than #j, whose atom records (or bond records) are exactly what the
    returned molecule #j carries in the part where it differs from the undamaged molecule #j."""
    da, db = not same_atoms(s, orig[j]), s["bonds"] != orig[j]["bonds"]
    for i, o in enumerate(orig):
        if i != j and ((da and s["elems"] and same_atoms(s, o)) or (db and s["bonds"] and s["bonds"] == o["bonds"])):
            return i
    return None


def shifted_records(s, o):
    """('atom'|'bond', i) when the returned molecule s has the shape of the undamaged o but its atom (bond) records are those
    of o with record #i doubled, the following ones moved down by one and the last one lost."""
    if sig_diff_records(s, o) is None:
        return None
    xa, ya = atoms_of(s), atoms_of(o)
    for i in range(len(ya) - 1):
        exp = ya[:i + 1] + ya[i:-1]
        if all(atom_eq(p, q) for p, q in zip(xa, exp)) and not same_atoms(s, o):
            return ("atom", i)
    xb, yb = s["bonds"], o["bonds"]
    for i in range(len(yb) - 1):
        if xb == yb[:i + 1] + yb[i:-1] and xb != yb:
            return ("bond", i)
    return None


# ------------------------------------------------------------------ what a text SAYS (independent reference)
# The oracle used to take the implementation's own reading of the undamaged text as "the undamaged file".  A conversion that
# carries state from one record to the next (a cache keyed by the record SIZE, a dictionary shared between records) then reads
# the undamaged text wrongly in exactly the same way as every damaged variant, and nothing differs.  The references below read a
# text by the documented grammar only (count-driven sections, `<id> <n_attr>` + exactly n_attr `<name> <value>` lines in UNITY
# sections), one record at a time and with no state shared between records; the vocabularies (Element.get, Atom.set_mol2_type,
# MOL2_BOND_TYPE_MAP) are evaluated on a FRESH object per token.  None = the grammar refuses the text.
def _atype_of(tok):
    from molli.chem import Atom
    a = Atom()
    a.set_mol2_type(tok)
    return int(a.element.z), a.atype.name, a.geom.name


def xyz_reference(lines):
    from molli.chem import Element
    out, i = [], 0
    try:
        while i < len(lines):
            n = int(lines[i])
            if i + 1 >= len(lines):
                return None
            n = max(n, 0)
            recs = lines[i + 2:i + 2 + n]
            if len(recs) != n:
                return None
            m = {"n_atoms": n, "n_bonds": 0, "elems": [], "dummy": [], "coords": [], "bonds": [], "atypes": [],
                 "fcharges": [0] * n, "aattrib": [[] for _ in range(n)], "battrib": []}
            for l in recs:
                sym, x, y, z = l.split()
                m["coords"].append((float(x), float(y), float(z)))
                if sym == "*":
                    m["elems"].append(0); m["dummy"].append(True); m["atypes"].append("Dummy")
                else:
                    m["elems"].append(int(Element.get(sym).z)); m["dummy"].append(False); m["atypes"].append("Regular")
            out.append(m)
            i += 2 + n
    except Exception:
        return None
    return out


def _unity_groups(body, n_items):
    """[(index, {name: value})] of the lines of one UNITY section, or None when they are not `<id> <n>` + n `<name> <value>`."""
    out, i = [], 0
    while i < len(body):
        t = body[i].split()
        if len(t) != 2:
            return None
        idx, k = int(t[0]), int(t[1])
        k = max(k, 0)
        if k and not (-n_items <= idx - 1 < n_items):
            return None                      # records[idx - 1] (a group without attributes never touches its record)
        idx = (idx - 1) % n_items + 1 if n_items else idx
        attrs = []
        for l in body[i + 1:i + 1 + k]:
            u = l.split()
            if len(u) != 2 or l.strip().startswith("@<TRIPOS>"):
                return None
            attrs.append((u[0], u[1]))
        if len(attrs) != k:
            return None
        out.append((idx, attrs))
        i += 1 + k
    return out


def mol2_reference(lines):
    """Per molecule of a mol2 text in which every molecule has its MOLECULE header, then (in any order, among unsupported
    blocks) one ATOM and one BOND section with the declared numbers of records, and UNITY sections after the records they
    speak about."""
    from molli.chem.bond import MOL2_BOND_TYPE_MAP
    roles, owner = mol2_roles(lines), mol2_block_of_line(lines)
    tags = [i for i, l in enumerate(lines) if l.strip().startswith("@<TRIPOS>")]
    if not tags or lines[tags[0]].strip() != "@<TRIPOS>MOLECULE":
        return None
    mols = []
    try:
        for ti, i in enumerate(tags):
            sec = lines[i].strip()[len("@<TRIPOS>"):]
            end = tags[ti + 1] if ti + 1 < len(tags) else len(lines)
            body = [l for l in lines[i + 1:end]]
            if sec == "MOLECULE":
                hdr = lines[i + 1:i + 5]
                if len(hdr) < 4 or i + 5 > len(lines):
                    return None
                c = [int(x) for x in hdr[1].split()]
                cur = {"name": hdr[0].strip(), "na": c[0], "nb": c[1] if len(c) > 1 else None, "chrg": hdr[3].strip(),
                       "atoms": None, "bonds": None, "aattr": [], "battr": []}
                mols.append(cur)
            elif sec in ("ATOM", "BOND"):
                key = "atoms" if sec == "ATOM" else "bonds"
                if cur[key] is not None:
                    return None
                k = max(cur["na"] if sec == "ATOM" else (cur["nb"] or 0), 0)
                recs = [l.split() for l in lines[i + 1:i + 1 + k]]
                if len(recs) != k or i + 1 + k > end:
                    return None
                rest = [l for l in lines[i + 1 + k:end] if l.strip() and not l.strip().startswith("#")]
                if rest:
                    return None              # a surplus line after a complete section
                cur[key] = recs
            elif sec in ("UNITY_ATOM_ATTR", "UNITY_BOND_ATTR"):
                key, akey = ("atoms", "aattr") if sec == "UNITY_ATOM_ATTR" else ("bonds", "battr")
                if ti + 1 >= len(tags):
                    return None              # the section must be closed by another TRIPOS record
                g = _unity_groups([l.strip() for l in body], len(cur[key] or []))
                if g is None or (cur[key] is None and any(a for _, a in g)):
                    return None
                cur[akey] += g
        out = []
        for c in mols:
            if c["nb"] is None or c["na"] < 0:
                return None
            for key, cnt in (("atoms", c["na"]), ("bonds", c["nb"])):
                if c[key] is None:               # a section that declares no records may be absent
                    if cnt > 0:
                        return None
                    c[key] = []
            n = c["na"]
            m = {"name": c["name"], "n_atoms": n, "n_bonds": c["nb"], "elems": [], "dummy": [], "labels": [], "coords": [],
                 "atypes": [], "geoms": [], "bonds": [], "fcharges": [0] * n, "aattrib": [{} for _ in range(n)],
                 "battrib": [{} for _ in range(len(c["bonds"]))],
                 "charges": None if c["chrg"] == "NO_CHARGES" else []}
            for t in c["atoms"]:
                if len(t) < 6:
                    return None
                z, at, ge = _atype_of(t[5])
                m["elems"].append(z); m["atypes"].append(at); m["geoms"].append(ge); m["dummy"].append(at == "Dummy")
                m["labels"].append(t[1]); m["coords"].append(tuple(float(x) for x in t[2:5]))
                if m["charges"] is not None:     # (a record without the charge column: nothing to say about partial charges)
                    m["charges"] = m["charges"] + [float(t[8])] if len(t) > 8 else None
            for t in c["bonds"]:
                if len(t) < 4:
                    return None
                i1, i2 = int(t[1]) - 1, int(t[2]) - 1
                if not (0 <= i1 < n and 0 <= i2 < n):
                    return None
                m["bonds"].append((i1, i2, MOL2_BOND_TYPE_MAP[t[3]].name))
            for idx, attrs in c["aattr"]:
                for k, v in attrs:
                    m["aattrib"][idx - 1][k] = v
            for idx, attrs in c["battr"]:
                for k, v in attrs:
                    m["battrib"][idx - 1][k] = v
            for i, d in enumerate(m["aattrib"]):
                ch = d.pop("charge", None)
                if ch:
                    m["fcharges"][i] = int(ch)
            m["aattrib"] = [sorted(d.items()) for d in m["aattrib"]]
            m["battrib"] = [sorted(d.items()) for d in m["battrib"]]
            out.append(m)
    except Exception:
        return None
    return out


def reference(fmt, lines):
    return xyz_reference(lines) if fmt == "xyz" else mol2_reference(lines)


def ref_mismatch(s, r):
    """First field in which a returned molecule differs from what its record says (None: it is what the text says).  Fields
    the reference does not speak about (labels of xyz atoms, partial charges of a class that has none) are not compared."""
    if s["n_atoms"] != r["n_atoms"] or len(s["elems"]) != r["n_atoms"]:
        return "n_atoms"
    if s["n_bonds"] != r["n_bonds"] or len(s["bonds"]) != len(r["bonds"]):
        return "n_bonds"
    for k in ("elems", "dummy", "atypes", "geoms", "labels", "bonds", "fcharges", "aattrib", "battrib"):
        if k in r and k in s and [_plain(x) for x in s[k]] != [_plain(x) for x in r[k]]:
            return k
    if "name" in r and "name" in s and s["name"] != r["name"]:
        return "name"
    if not all(feq(p, q) for a, b in zip(s["coords"], r["coords"]) for p, q in zip(a, b)):
        return "coords"
    if r.get("charges") is not None and s.get("charges") is not None and \
            not (len(s["charges"]) == len(r["charges"]) and all(feq(p, q, 1e-3) for p, q in zip(s["charges"], r["charges"]))):
        return "charges"
    return None


def _plain(x):
    return [_plain(y) for y in x] if isinstance(x, (list, tuple)) else x


def says(fmt, lines, ret):
    """True when the molecules `ret` are exactly what the text `lines` says under the reference grammar."""
    ref = reference(fmt, lines)
    return ref is not None and len(ret) <= len(ref) and all(ref_mismatch(s, r) is None for s, r in zip(ret, ref))


def record_texts(fmt, lines):
    """The text of every record of a well-formed multi-record text, on its own."""
    owner = (xyz_block_of_line if fmt == "xyz" else mol2_block_of_line)(lines)
    nb = max(owner.values()) + 1 if owner else 0
    return [[l for i, l in enumerate(lines) if owner.get(i) == b] for b in range(nb)]


# ------------------------------------------------------------------ every way of reading a text
def entry_points(ml, fmt, scratch):
    """[(name, 'all' | 'first', fn(text) -> list of sigs)]: the class-level readers of the three classes (string, path, open
    stream, generator; all records / the first one) and the top-level ones.  #0 is the one the property names."""
    from molli.chem import Molecule, Structure, CartesianGeometry
    path = os.path.join(scratch, "t." + fmt)

    def put(text):
        with open(path, "w") as f:
            f.write(text)
        return path

    sig = lambda ms: [mol_sig(m) for m in ms]
    eps = []
    for cls in ([Molecule, Structure, CartesianGeometry] if fmt == "xyz" else [Molecule, Structure]):
        n = cls.__name__
        la, ls_, l1, ls1 = (getattr(cls, f"{k}_{fmt}") for k in ("load_all", "loads_all", "load", "loads"))
        yf = getattr(cls, "yield_from_" + fmt)
        eps += [
            (f"{n}.loads_all_{fmt}", "all", lambda t, f=ls_: sig(f(t))),
            (f"{n}.load_all_{fmt}(path)", "all", lambda t, f=la: sig(f(put(t)))),
            (f"{n}.load_all_{fmt}(stream)", "all", lambda t, f=la: sig(f(io.StringIO(t)))),
            (f"{n}.yield_from_{fmt}(stream)", "all", lambda t, f=yf: sig(list(f(io.StringIO(t))))),
            (f"{n}.loads_{fmt}", "first", lambda t, f=ls1: sig([f(t)])),
            (f"{n}.load_{fmt}(path)", "first", lambda t, f=l1: sig([f(put(t))])),
        ]
        if fmt == "mol2":
            eps.append((f"{n}.yield_from_mol2(str)", "all", lambda t, f=yf: sig(list(f(t)))))
    eps += [
        (f"ml.loads_all({fmt})", "all", lambda t: sig(ml.loads_all(t, fmt))),
        (f"ml.load_all({fmt})", "all", lambda t: sig(ml.load_all(put(t), fmt))),
        (f"ml.loads({fmt})", "first", lambda t: sig([ml.loads(t, fmt)])),
        (f"ml.load({fmt})", "first", lambda t: sig([ml.load(put(t), fmt)])),
    ]
    return eps


def proj_eq(s, o):
    """Same content, for readers of different classes (a class without partial charges / bonds has none to compare)."""
    if s.get("charges") is None or o.get("charges") is None:
        s, o = dict(s, charges=None), dict(o, charges=None)
    return sig_eq(s, o)


# ------------------------------------------------------------------ libraries: records of one size, different content
def gen_library_bases(ml, rng, fmt, thorough):
    """(name, text): multi-record texts in which CONSECUTIVE records have the same atom (and bond) count but are different
    molecules: other elements in the same places, the same atoms in another order, an attachment point `*` after a record
    without one, other atom types of the same element / other bond types, attributes on one record and none on the next --
    followed by records of another size and then of the first size again.  A conversion that reuses what it worked out for
    the previous record whenever the sizes agree reads every one of them wrongly; all counts are met."""
    from molli.chem import Molecule, Atom, BondType
    out = []
    for b in range(2 if not thorough else 10):
        n = rng.randint(3, 5)
        k = rng.randint(4, 6)
        first = [rng.choice(["C", "N", "O", "S", "Cl", "B", "F", "H"]) for _ in range(n)]
        recs, prev = [], first
        for c in range(k):
            how = ["same", "elements", "order", "star", "one"][c % 5] if c else "first"
            e = list(prev)
            if how == "elements":
                e = [rng.choice([x for x in ["C", "N", "O", "S", "Cl", "B", "F", "H"] if x != y]) for y in e]
            elif how == "order":
                e = e[1:] + e[:1]
                if e == prev:
                    e[0] = "P" if e[0] != "P" else "Si"
            elif how == "one":
                j = rng.randrange(n)
                e[j] = "Br" if e[j] != "Br" else "I"
            recs.append((how, e))
            prev = e
        small = [rng.choice(["O", "S", "N"]), "H", "H"][:max(2, n - 2)]
        recs = recs[:k - 1] + [("smaller", small), ("smaller-elements", ["Se"] + small[1:])] + recs[k - 1:]
        texts = []
        for c, (how, e) in enumerate(recs):
            m = Molecule(n_atoms=0, name=f"lib{c}-{how}")
            for i, sym in enumerate(e):
                m.add_atom(Atom(sym), [round(rng.uniform(-9, 9), 4) for _ in range(3)])
            if fmt == "mol2":
                for i in range(len(e) - 1):          # the same bond COUNT in every record of a size; types and ends vary
                    a1, a2 = (m.atoms[i], m.atoms[i + 1]) if (i + c) % 3 else (m.atoms[i + 1], m.atoms[i])
                    m.connect(a1, a2, btype=[BondType.Single, BondType.Double, BondType.Aromatic, BondType.Triple][(i + c) % 4])
            t = m.dumps_xyz() if fmt == "xyz" else m.dumps_mol2()
            if fmt == "xyz" and how == "star":
                ls = to_lines(t)
                j = 2 + rng.randrange(len(e))
                ls[j] = ls[j].replace(ls[j].split()[0], "*", 1)
                t = "\n".join(ls) + "\n"
            if fmt == "mol2":
                ls = to_lines(t)
                ia = ls.index("@<TRIPOS>ATOM")
                if how in ("same", "one", "smaller-elements"):   # another atom type of the same element / a dummy type
                    for j in range(ia + 1, ia + 1 + len(e)):
                        tk = ls[j].split()
                        alt = {"C": "C.2", "N": "N.pl3", "O": "O.2", "S": "S.o2"}.get(tk[5].split(".")[0])
                        if alt and alt != tk[5] and (j + c) % 2 == 0:
                            ls[j] = " ".join(tk[:5] + [alt] + tk[6:])
                if how in ("star", "elements", "smaller"):       # attributes on this record, none on the next one
                    ib = ls.index("@<TRIPOS>BOND")
                    grp = [f"{1 + (c % len(e))} 1", f"charge {1 if c % 2 else -1}", f"{len(e)} 2", "tag x9", f"color c{c}"]
                    ls = ls[:ib] + ["@<TRIPOS>UNITY_ATOM_ATTR"] + grp + ls[ib:]
                    ls += ["@<TRIPOS>UNITY_BOND_ATTR", "1 1", f"order {c}", "@<TRIPOS>SUBSTRUCTURE", "1 UNL1 1"]
                t = "\n".join(ls) + "\n"
            texts.append(t)
        out.append((f"gen-lib-{fmt}-{b}", "".join(texts)))
    return out


# ------------------------------------------------------------------ damage inside sections whose length a count declares
def plan_unity_damages(lines):
    """Deterministic, for EVERY line of every UNITY_ATOM_ATTR / UNITY_BOND_ATTR section (group headers `<id> <n_attr>` and
    attribute lines `<name> <value>`): the line deleted, duplicated; a header with its declared count one more / one less / the
    count dropped / another record id; an attribute line without its value, with a surplus token, with another value.  The
    strict alternation "header, then exactly n_attr attribute lines" is the only thing that notices a lost line here: the
    ATOM / BOND counts of the molecule stay met."""
    roles = mol2_roles(lines)
    ds = []
    for i in sorted(i for i, r in roles.items() if r == "uattr"):
        ds += [(("del", i), "unity-del"), (("dup", i), "unity-dup")]
        t = lines[i].split()
        if len(t) == 2 and all(x.lstrip("+-").isdigit() for x in t):
            idx, k = int(t[0]), int(t[1])
            ds += [(("repl", i, f"{idx} {k + 1}"), "unity-count"), (("repl", i, f"{idx} {max(k - 1, 0)}"), "unity-count"),
                   (("repl", i, f"{idx}"), "unity-count"), (("repl", i, f"{idx + 1} {k}"), "unity-id"),
                   (("repl", i, f"{max(idx - 1, 1)} {k}"), "unity-id")]
        elif len(t) == 2:
            ds += [(("repl", i, t[0]), "unity-tok"), (("repl", i, f"{t[0]} {t[1]} x"), "unity-tok"),
                   (("repl", i, f"{t[0]} {t[1]}7"), "unity-tok")]
    seen, out = set(), []
    for d, k in ds:
        if d not in seen and not (d[0] == "repl" and d[2] == lines[d[1]].strip()):
            seen.add(d)
            out.append((d, k))
    return out


# ------------------------------------------------------------------ damage plans
def corrupt_line(rng, line):
    toks = line.split()
    if not toks:
        return rng.choice(["x", "1 2", "@<TRIPOS>ATOM"]), "blank->junk"
    j = rng.randrange(len(toks))
    t = toks[j]
    kind = rng.choice(["drop", "garbage", "digit", "neg", "dupchar", "int+1", "int-1", "swapcase", "exp"])
    if kind == "drop":
        new = None
    elif kind == "garbage":
        new = rng.choice(["Qq", "1.2.3", "--1", "1e", "#", "?", "nanx", "0x10"])
    elif kind == "digit":
        ds = [i for i, c in enumerate(t) if c.isdigit()]
        if not ds:
            new = t + "7"
        else:
            i = rng.choice(ds)
            new = t[:i] + str((int(t[i]) + rng.randint(1, 9)) % 10) + t[i + 1:]
    elif kind == "neg":
        new = t[1:] if t.startswith("-") else "-" + t
    elif kind == "dupchar":
        i = rng.randrange(len(t))
        new = t[:i] + t[i] + t[i:]
    elif kind in ("int+1", "int-1"):
        try:
            new = str(int(t) + (1 if kind == "int+1" else -1))
        except ValueError:
            new = t + "1"
    elif kind == "swapcase":
        new = t.swapcase()
    else:
        new = t + "e1"
    nt = toks[:j] + ([new] if new is not None else []) + toks[j + 1:]
    return " ".join(nt), kind


def structural_boundaries(fmt, lines):
    """Line boundaries at which a text stops being / starts being structurally complete: before and after every record
    tag, after every header line of every molecule (mol2); before / after the count and comment line and after the last
    atom of every frame (xyz).  One such boundary per molecule is all a reader that mixes up molecules needs."""
    n, ks = len(lines), set()
    roles = roles_of(fmt, lines)
    for i, r in roles.items():
        if r in ("tag", "hdr", "count", "comment"):
            ks.update((i, i + 1))
    for i in range(n):                       # last record of a section: the boundary right after it
        if roles.get(i) in ("atom", "bond") and roles.get(i + 1) != roles.get(i):
            ks.update((i, i + 1))
    return {k for k in ks if 0 <= k <= n}


def plan_damages(rng, lines, thorough, budget, fmt=None, tok_budget=None):
    """List of (damage tuple, kind tag)."""
    n = len(lines)
    ds = [(("none",), "none")]
    ks = list(range(n + 1))
    if not thorough and n > 160:
        ks = sorted(set(rng.sample(ks, 120) + [0, 1, n - 1, n]))
        if fmt is not None:                  # whatever the sampling did: every structural boundary of every molecule
            ks = sorted(set(ks) | structural_boundaries(fmt, lines))
    unity = [i for i, l in enumerate(lines) if l.strip().startswith("@<TRIPOS>UNITY_")]
    if unity:     # every boundary inside and right after a UNITY_* section, whatever the sampling above did
        ends = [next((j for j in range(u + 1, n) if lines[j].strip().startswith("@<TRIPOS>")), n) for u in unity]
        ks = sorted(set(ks) | {k for u, e in zip(unity, ends) for k in range(u, e + 2) if k <= n})
    ds += [(("trunc", k), "trunc") for k in ks]
    if n:
        last = lines[-1]
        ds += [(("cut", n - 1, b), "cut-last") for b in range(1, len(last) + 1)]
        for _ in range(4 if not thorough else 12):       # a few cuts inside other lines as well
            i = rng.randrange(n)
            if lines[i]:
                ds.append((("cut", i, rng.randint(1, len(lines[i]))), "cut-inner"))
    idx = list(range(n))
    per = budget if not thorough else budget * 4
    sel = idx if n <= per else sorted(rng.sample(idx, per))
    ds += [(("del", i), "del") for i in sel]
    sel = idx if n <= per else sorted(rng.sample(idx, per))
    ds += [(("dup", i), "dup") for i in sel]
    # every record tag mangled into an unknown / unrecognised tag (a corrupted @<TRIPOS>MOLECULE makes the next
    # molecule's sections arrive while the previous molecule is still open)
    tags = [i for i, l in enumerate(lines) if l.strip().startswith("@<TRIPOS>")]
    if len(tags) > 60 and not thorough:
        tags = sorted(rng.sample(tags, 60))
    for i in tags:
        ds.append((("repl", i, lines[i].rstrip() + "X"), "tok-tag"))
        ds.append((("repl", i, lines[i].replace("@<TRIPOS>", "@<TRIPOS>_", 1)), "tok-tag"))
    for _ in range(min(per if tok_budget is None else tok_budget, 3 * max(n, 1))):
        if not n:
            break
        i = rng.randrange(n)
        new, kind = corrupt_line(rng, lines[i])
        if new != lines[i] and "\n" not in new and all(32 <= ord(c) < 127 for c in new):
            ds.append((("repl", i, new), "tok-" + kind))
    if fmt is not None:
        ds += plan_record_damages(fmt, lines, thorough)
    return ds


def plan_record_damages(fmt, lines, thorough):
    """Deterministic damage of record lines (no randomness): for the LAST atom record and the LAST bond record of the last
    molecule (of every molecule in the thorough tier) each single token of the mandatory columns and of the first optional
    one dropped (`rec-drop`; every token in the thorough tier); when the last record of the text is not its last line (a molecule without bonds, trailing UNITY / SUBSTRUCTURE sections)
    the text is also cut inside that record: first character and end of every token, every byte in the thorough tier
    (`cut-record`; the last line of a text is already cut at every byte by `cut-last`)."""
    roles = roles_of(fmt, lines)
    n = len(lines)
    ends = [i for i in range(n) if roles.get(i) in ("atom", "bond") and roles.get(i + 1) != roles.get(i)]
    if not ends:
        return []
    owner = (xyz_block_of_line if fmt == "xyz" else mol2_block_of_line)(lines)
    blocks = sorted({owner[i] for i in ends})
    keep = set(blocks) if thorough else {blocks[-1]}
    ds = []
    for i in ends:
        if owner[i] not in keep:
            continue
        toks = lines[i].split()
        for j in range(len(toks) if thorough else min(len(toks), MANDATORY[(fmt, roles[i])] + 1)):
            ds.append((("repl", i, " ".join(toks[:j] + toks[j + 1:])), "rec-drop"))
        if i == ends[-1] and i != n - 1:
            offs = set(range(1, len(lines[i])))
            if not thorough:                 # first character and end of every token
                offs, pos = set(), 0
                for t in toks:
                    a = lines[i].index(t, pos)
                    pos = a + len(t)
                    offs.update((a + 1, pos))
                offs.discard(len(lines[i]))
            ds += [(("cut", i, b), "cut-record") for b in sorted(offs) if b >= 1]
    return ds


def plan_junk_damages(fmt, lines, thorough):
    """Deterministic: each mandatory token of the LAST atom record and the LAST bond record of the last molecule (of every
    molecule in the thorough tier) spoiled in place by a character that belongs to no number, symbol or type (`rec-junk`): in
    the middle of the token and right after it -- a record parser that stops reading a column at the first foreign character
    (a regular expression anchored at one end, a lenient number parser) accepts such a line with a shortened value -- and a
    surplus token after the last mandatory column."""
    roles = roles_of(fmt, lines)
    ends = [i for i in range(len(lines)) if roles.get(i) in ("atom", "bond") and roles.get(i + 1) != roles.get(i)]
    if not ends:
        return []
    owner = (xyz_block_of_line if fmt == "xyz" else mol2_block_of_line)(lines)
    keep = {owner[i] for i in ends} if thorough else {max(owner[i] for i in ends)}
    ds = []
    for i in ends:
        if owner[i] not in keep:
            continue
        toks, need = lines[i].split(), MANDATORY[(fmt, roles[i])]
        for j in range(min(len(toks), need)):
            t = toks[j]
            for new in ([t[:len(t) // 2] + "?" + t[len(t) // 2 + 1:]] if len(t) > 1 else []) + [t + "?"]:
                ds.append((("repl", i, " ".join(toks[:j] + [new] + toks[j + 1:])), "rec-junk"))
        ds.append((("repl", i, " ".join(toks[:need] + ["?7"])), "rec-junk"))
    return ds


# ------------------------------------------------------------------ the oracle
def cut_limit(fmt, lines, d, ret, tag, text):
    """A text cut inside its last record and accepted with only that record changed: the format limit when the shortened line
    is a complete record by itself and the molecules are what the shortened text SAYS (`3.456700` -> `3.4`, `Cl` -> `C`);
    otherwise a shortened column was made into something it does not say (`du` -> `d` read as some bond type)."""
    if says(fmt, to_lines(damaged_text(lines, d)), ret):
        return (f"C10:{fmt}:last-numeric-token-truncated", text)
    return (f"{tag}:cut-record-accepted-not-as-written",
            text + f"; the shortened line {lines[d[1]][:d[2]]!r} is not a record that says what was returned")


def judge(fmt, lines, owner, orig, d, kind, outcome):
    """Property C10 judged on the implementation alone. Returns None or (signature, text)."""
    tag = f"C10:{fmt}:{kind.split('-')[0] if kind.startswith('tok-') else kind}"
    if outcome[0] == "hang":
        return (f"C10:{fmt}:reader-does-not-terminate",
                f"reader did not return within {LIMIT_S}s on the text damaged by {d} (kind {kind}); the replay holds the text")
    if outcome[0] == "err":
        return None
    ret = outcome[1]
    for j, s in enumerate(ret):
        if not sig_consistent(s):
            return (f"{tag}:inconsistent-counts",
                    f"returned molecule #{j} has n_atoms={s['n_atoms']} n_bonds={s['n_bonds']} but {len(s['elems'])} atoms, "
                    f"coords {s['coords_shape']}, {len(s['bonds'])} bonds ({d})")
    if len(ret) > len(orig):
        return (f"{tag}:extra-molecule", f"{len(ret)} molecules returned, the undamaged text has {len(orig)} ({d})")
    hit = owner.get(d[1]) if d[0] in ("repl", "cut") and len(d) > 1 else None
    if fmt == "mol2" and len(d) > 1 and len(ret) <= len(orig) and all(core_eq(s, o) for s, o in zip(ret, orig)) \
            and not all(sig_eq(s, o) for s, o in zip(ret, orig)):
        # the text is accepted with all the RECORDS of the undamaged molecules, but what its optional sections put on the atoms
        # and bonds (UNITY_*_ATTR: formal charges, attributes) is not what the undamaged file says
        j = next(k for k, (x, o) in enumerate(zip(ret, orig)) if not sig_eq(x, o))
        ex = "+".join(extras_diff(ret[j], orig[j]))
        in_unity = roles_of(fmt, lines).get(d[1]) == "uattr"
        what = (f"line {d[1]} ({lines[d[1]] if d[1] < len(lines) else ''!r}) damaged by {d}: the text is accepted, every ATOM / BOND count is met, "
                f"but molecule #{j} differs from the undamaged one in {ex}: formal charges "
                f"{[(i, c) for i, c in enumerate(ret[j]['fcharges']) if c]} vs {[(i, c) for i, c in enumerate(orig[j]['fcharges']) if c]}, "
                f"atom attributes {[(i, a) for i, a in enumerate(ret[j]['aattrib']) if a]} vs "
                f"{[(i, a) for i, a in enumerate(orig[j]['aattrib']) if a]}")
        if says(fmt, to_lines(damaged_text(lines, d)), ret):
            # the damaged text is itself well-formed (every UNITY section it still has is `<id> <n>` followed by exactly n
            # `<name> <value>` lines and closed by a TRIPOS record; a section cut off as a whole, or turned into an unknown block
            # by a damaged tag, is simply not there) and the molecules are what IT says: no reader can tell
            if d[0] == "repl":
                return None              # a corrupted token that is still a valid token
            return ("C10:mol2:optional-section:damaged-text-still-well-formed", what + " -- the damaged text is still well-formed "
                    "and says exactly this (format limit)")
        if in_unity:
            return (f"{tag}:unity-damage-accepted", what + " -- and the damaged section is NOT `<id> <n_attr>` followed by "
                    "exactly n_attr `<name> <value>` lines")
    if d[0] == "repl" and len(ret) < len(orig) and hit is not None:
        # a corrupted record tag / count can make a WHOLE molecule disappear into an unsupported section (no reader can
        # tell it from a legitimate unknown TRIPOS block): the molecules that are returned must still be complete and
        # equal to the originals they come from, in order, skipping at most the molecule that was hit
        rest = [o for j, o in enumerate(orig) if j != hit]
        if len(ret) <= len(rest) and all(sig_eq(s, o) for s, o in zip(ret, rest)):
            return None
    for j, s in enumerate(ret):
        if sig_eq(s, orig[j]):
            continue
        diff = sig_diff_records(s, orig[j])
        sr = short_record(fmt, lines, d)
        if sr and hit == j:
            # not a format limit: the record visibly lacks a mandatory column, and what was made of it is not what the file says
            return (f"C10:{fmt}:short-record-accepted:{sr[0]}",
                    f"{sr[0]} record {lines[d[1]]!r} reduced to {(d[2] if d[0] == 'repl' else lines[d[1]][:d[2]])!r} "
                    f"({sr[1]} of {sr[2]} mandatory columns) is accepted and molecule #{j} differs from the undamaged one "
                    f"(record diff {diff}; damage {d})")
        if d[0] == "cut" and d[1] == len(lines) - 1 and j == len(orig) - 1 and diff in ((1, 0), (0, 1)):
            # the cut fell inside the last token of the last record: no reader can notice (format limit) -- as long as what is
            # left IS a complete record and the molecule is what that record says
            return cut_limit(fmt, lines, d, ret, tag,
                             f"cut at byte {d[2]} of the last line {lines[-1]!r} is accepted; only the last record differs")
        if d[0] == "repl" and hit == j and diff in ((1, 0), (0, 1)):
            # a corrupted token that is still a valid token changes exactly its own record -- to what the line now SAYS; a line
            # that is no record any more (a column float() / int() refuse, a missing or surplus column), or a value other than
            # the written one, must not come back as a record
            bad = spoiled_record(fmt, lines, d, s)
            if bad:
                return (f"{tag}:corrupted-record-accepted:{bad[0]}",
                        f"{bad[0]} record {lines[d[1]]!r} replaced by {d[2]!r} is accepted and molecule #{j} differs from the "
                        f"undamaged one: {bad[1]} (record diff {diff})")
            continue
        if d[0] == "cut" and d[1] != len(lines) - 1 and hit == j and diff in ((1, 0), (0, 1)) and j == len(ret) - 1:
            return cut_limit(fmt, lines, d, ret, tag, f"cut at byte {d[2]} of line {d[1]} is accepted; only that record differs")
        sh = shifted_records(s, orig[j]) if d[0] == "dup" else None
        if sh is not None:
            # the text has one line MORE than the undamaged one and was accepted: the surplus line was taken for a record and the
            # record it displaced was dropped without a word (the declared counts are met, so no count check can see it)
            role = roles_of(fmt, lines).get(d[1])
            return (f"{tag}:surplus-line-accepted:{sh[0]}",
                    f"line {d[1]} ({role or 'other'} line {lines[d[1]]!r}) duplicated: the text is accepted, molecule #{j} has the "
                    f"declared counts but {sh[0]} record #{sh[1]} twice and its last {sh[0]} record is lost (record diff {diff})")
        if core_eq(s, orig[j]):
            return (f"{tag}:attributes-differ:" + "+".join(extras_diff(s, orig[j])),
                    f"molecule #{j} returned after damage {d} has the records of the undamaged one but differs in "
                    f"{extras_diff(s, orig[j])} (atom types / formal charges / attributes of atoms or bonds)")
        oth = records_of_another(s, j, orig)
        if oth is not None:
            return (f"{tag}:records-of-another-molecule",
                    f"molecule #{j} returned after damage {d} has the declared counts but carries the atom or bond records of "
                    f"molecule #{oth} of the undamaged text (record diff against its own original {diff})")
        return (f"{tag}:partial-molecule",
                f"molecule #{j} returned after damage {d} differs from the undamaged one "
                f"(n_atoms {s['n_atoms']} vs {orig[j]['n_atoms']}, n_bonds {s['n_bonds']} vs {orig[j]['n_bonds']}, record diff {diff})")
    return None


def loader(ml, fmt):
    from molli.chem import Molecule
    fn = Molecule.loads_all_xyz if fmt == "xyz" else Molecule.loads_all_mol2
    return lambda text: [mol_sig(m) for m in fn(text)]


def observe(ml, fmt, text):
    return run_limited(loader(ml, fmt), text)


# ------------------------------------------------------------------ shard headers
HEAD = ("From Coq Require Import List ZArith NArith QArith String Ascii.\n"
        "From Molli Require Import Common.ParseStr Model.Parse Model.XyzText Gen.XyzElements.\n"
        "Import ListNotations.\nOpen Scope string_scope.\n")


def header_for(fmt, bases, table, atypes=None, btypes=None):
    h = HEAD + "Definition bases : list (list string) := [\n" + ";\n".join(lines_term(b) for b in bases) + "\n].\n"
    h += "Definition tab : list omol := " + table.term() + ".\n"
    if fmt == "xyz":
        h += "Definition chk := chk_xyz_read element_names bases tab.\n"
    else:
        at = cq_list(f"({cq_str(t)}, {'None' if z is None else '(Some ' + cq_Z(z) + ')'})" for t, z in atypes)
        h += f"Definition atypes : list (string * option Z) := {at}.\n"
        h += f"Definition btypes : list string := {cq_list(cq_str(k) for k in btypes)}.\n"
        h += "Definition chk := chk_mol2_read atypes btypes bases tab.\n"
    return h


# limits of the FORMAT (the damaged text is itself a well-formed text that says something else): about the text, not the reader
FORMAT_LIMITS = {"C10:xyz:last-numeric-token-truncated", "C10:mol2:last-numeric-token-truncated",
                 "C10:mol2:optional-section:damaged-text-still-well-formed"}


def entry_sig(fmt, sig):
    return sig if sig in FORMAT_LIMITS else f"C10:{fmt}:entry-point:" + sig.split(":", 2)[2]


def alone_text(rl):
    return "\n".join(rl) + "\n"


def judge_base(fmt, lines, orig):
    """The undamaged text against what it SAYS: (signature, text) or None; and whether there was a reference."""
    ref = reference(fmt, lines)
    if ref is None:
        return None, False
    if len(ref) != len(orig):
        return (f"C10:{fmt}:none:not-as-written:n_molecules", f"{len(orig)} molecules returned, the text holds {len(ref)} records"), True
    for j, (s, r) in enumerate(zip(orig, ref)):
        f = ref_mismatch(s, r)
        if f:
            return (f"C10:{fmt}:none:not-as-written:{f}",
                    f"molecule #{j} of the UNDAMAGED text is not what its own record says: {f} = {s.get(f)!r}, the record says "
                    f"{r.get(f)!r} (all declared counts are met)"), True
    return None, True


def judge_alone(fmt, j, alone, whole):
    """Record #j read on its own (`alone`: outcome) against molecule #j of the whole text."""
    if alone[0] != "ok" or len(alone[1]) != 1:
        return None
    a = alone[1][0]
    if sig_eq(a, whole) and a.get("name") == whole.get("name"):
        return None
    ex = extras_diff(a, whole) if core_eq(a, whole) else ["records"]
    if a.get("name") != whole.get("name"):
        ex = ex + ["name"]
    return (f"C10:{fmt}:none:record-depends-on-its-predecessors",
            f"record #{j} read as a file of its own and read as part of the multi-record text give different molecules "
            f"({', '.join(ex)}): elements {a['elems']} vs {whole['elems']}, atom types {a['atypes']} vs {whole['atypes']}, "
            f"formal charges {a['fcharges']} vs {whole['fcharges']}")


def judge_entry(kind, got, orig):
    """An undamaged text through another entry point (`got`: outcome) against the molecules of the primary one."""
    if got[0] != "ok":
        return None
    exp = orig if kind == "all" else orig[:1]
    if len(got[1]) == len(exp) and all(proj_eq(s, o) and s.get("name") == o.get("name") for s, o in zip(got[1], exp)):
        return None
    return ("undamaged-text-read-differently",
            f"{len(got[1])} molecule(s), elements {[s['elems'] for s in got[1]][:4]}, names {[s.get('name') for s in got[1]][:4]}; "
            f"Molecule.loads_all gives {len(exp)}: {[o['elems'] for o in exp][:4]}, {[o.get('name') for o in exp][:4]}")


def check_base(ml, rep, fmt, bname, lines, orig, eps):
    """Checks on the UNDAMAGED text: it reads as what it says; each record reads the same alone and inside the text; every
    entry point reads it the same.  Returns {entry point index: its reading of the undamaged text}."""
    text = damaged_text(lines, ("none",))
    v, had = judge_base(fmt, lines, orig)
    rep.count(f"{fmt}:base:" + ("compared-with-what-the-text-says" if had else "no-reference-reading"))
    if v:
        rep.violate(v[0], f"{bname}: {v[1]}", {"fmt": fmt, "lines": lines, "damage": ["none"], "kind": "as-written"})
    recs = record_texts(fmt, lines)
    if len(recs) > 1 and len(recs) == len(orig):
        sizes = [(o["n_atoms"], o["n_bonds"]) for o in orig]
        if any(sizes[j] == sizes[j - 1] and not sig_eq(orig[j], orig[j - 1]) for j in range(1, len(orig))):
            rep.count(f"{fmt}:base:consecutive-records-equal-size-different-content")
        for j, rl in enumerate(recs):
            o = observe(ml, fmt, alone_text(rl))
            rep.count(f"{fmt}:record-read-alone" + ("" if o[0] == "ok" else ":rejected"))
            v = judge_alone(fmt, j, o, orig[j])
            if v:
                rep.violate(v[0], f"{bname}: {v[1]}", {"fmt": fmt, "lines": lines, "damage": ["none"], "kind": "alone", "record": j})
    ep_orig = {}
    for k, (name, kind, fn) in enumerate(eps):
        if k == 0:
            continue
        o = run_limited(fn, text)
        rep.count(f"{fmt}:entry:{name}" + ("" if o[0] == "ok" else ":undamaged-rejected"))
        if o[0] != "ok":
            continue
        ep_orig[k] = o[1]
        v = judge_entry(kind, o, orig)
        if v:
            rep.violate(f"C10:{fmt}:entry-point:{v[0]}", f"{bname} read through {name}: {v[1]}",
                        {"fmt": fmt, "lines": lines, "damage": ["none"], "kind": "entry-base", "entry": name})
    return ep_orig


# ------------------------------------------------------------------ main
def collect(ctx, rep, ml, fmt):
    """Generate the damaged texts of one format, run the implementation, judge, and return the Coq cases."""
    rng = ctx.rng
    thorough = ctx.thorough
    bases = bundled(ml, fmt, thorough)
    ngen = 14 if not thorough else 60
    if fmt == "xyz":
        bases += gen_xyz_bases(ml, rng, ngen)
    else:
        # texts with UNITY_* sections come right after isornitrate: they must always be truncated at EVERY line boundary
        bases = bases[:1] + gen_unity_bases(ml, rng, 6 if not thorough else 25) + bases[1:] + gen_mol2_bases(ml, rng, ngen if thorough else 10)
    # texts whose molecules declare equal counts; own random stream, so that the families above keep theirs
    import random
    bases += gen_equal_count_bases(ml, random.Random(ctx.seed * 7919 + (1010 if fmt == "xyz" else 1011)), fmt, thorough)
    bases += gen_library_bases(ml, random.Random(ctx.seed * 7919 + (1020 if fmt == "xyz" else 1021)), fmt, thorough)
    eps = entry_points(ml, fmt, ctx.sub("c10_entry_" + fmt))
    sect = {}
    if fmt == "mol2":        # varied section layouts (last, own random stream: the families above keep their texts and damages)
        for name, text, plain, feats in gen_section_bases(ml, random.Random(ctx.seed * 7919 + 1012), thorough):
            bases.append((name, text))
            sect[name] = (plain, feats)
    hangs = 0
    table = MolTable()
    base_lines, cases, meta, tokens = [], [], [], set()
    for bname, text in bases:
        lines = to_lines(text)
        if not all(all(ord(c) < 128 for c in l) for l in lines):
            rep.count(f"{fmt}:skipped-non-ascii-base")
            continue
        o0 = observe(ml, fmt, text)
        if o0[0] != "ok":
            # the undamaged text itself is rejected: nothing to damage, but the model must agree that it is rejected
            # (a reader that starts refusing what molli writes must not make this check pass with no coverage)
            rep.count(f"{fmt}:base-rejected")
            if bname in sect:
                rep.count("mol2:base:section-layout:rejected-as-a-whole")
            rep.case(key=f"{fmt}:{bname}:rejected", sample={"fmt": fmt, "base": bname, "outcome": o0[1]})
            if o0[0] == "err":
                base_lines.append(lines)
                cases.append(f"({cq_nat(len(base_lines) - 1)}, DNone, OErr)")
                meta.append((bname, ("none",), "none", "err:" + str(o0[1])))
                if fmt == "mol2":
                    for l in lines:
                        tokens.update(t for t in l.split() if not floatlike(t))
            else:
                rep.violate(f"C10:{fmt}:reader-does-not-terminate", f"reader did not return on the undamaged text {bname}",
                            {"fmt": fmt, "lines": lines, "damage": ["none"], "kind": "none"})
            continue
        orig = o0[1]
        owner = xyz_block_of_line(lines) if fmt == "xyz" else mol2_block_of_line(lines)
        bi = len(base_lines)
        base_lines.append(lines)
        budget = 40 if len(lines) > 60 else 200
        if bname in sect:
            rep.count("mol2:base:section-layout")
            for f in sect[bname][1]:
                rep.count(f"mol2:layout:{f}")
            budget = max(budget, len(lines)) if len(lines) <= 120 else budget      # every line deleted / duplicated
            # unsupported blocks, comment lines and the order of the sections carry no molecule content: the text reads as
            # the molecules of the same records in the layout molli writes
            op = observe(ml, fmt, sect[bname][0])
            same = core_eq if any(f.startswith("unity-") for f in sect[bname][1]) else sig_eq     # UNITY sections do carry content
            if op[0] == "ok" and not (len(op[1]) == len(orig) and all(same(a, b) for a, b in zip(orig, op[1]))):
                rep.violate("C10:mol2:layout:unsupported-sections-change-content",
                            f"{bname}: the text with extra sections ({', '.join(sect[bname][1])}) is accepted but its molecules "
                            "differ from those of the same records without the extra sections",
                            {"fmt": fmt, "lines": lines, "plain": to_lines(sect[bname][0]), "damage": ["none"], "kind": "layout"})
        ep_orig = check_base(ml, rep, fmt, bname, lines, orig, eps)
        eqc = bname.startswith("gen-eqc-") or bname.startswith("gen-lib-")
        if eqc:
            rep.count(f"{fmt}:base:equal-counts")
        if bname.startswith("gen-lib-"):
            rep.count(f"{fmt}:base:library-equal-size-different-content")
        if len(orig) > 1 and len({(o["n_atoms"], o["n_bonds"]) for o in orig}) < len(orig):
            rep.count(f"{fmt}:base:some-molecules-with-equal-counts")
        plan = plan_damages(rng, lines, thorough, budget, fmt=fmt,
                            tok_budget=24 if (eqc or bname in sect) and not thorough else None)
        # every planned damage goes through the implementation and the oracle; the comparison with the model inside Coq
        # re-parses the whole text per case, so for long texts it gets a sample (always incl. what the oracle flagged)
        cap = max(80, (200_000 if thorough else 40_000) // max(len(lines), 1))
        in_coq = set(range(len(plan))) if len(plan) <= cap else set(rng.sample(range(len(plan)), cap)) | {0}
        if len(lines) <= 120 or thorough:        # added after the sampling: the random streams of the other families are theirs
            junk = plan_junk_damages(fmt, lines, thorough)
            in_coq |= set(range(len(plan), len(plan) + len(junk)))
            plan += junk
        if fmt == "mol2":                        # every line of every UNITY section, whatever the budgets above were
            ud = plan_unity_damages(lines)
            in_coq |= set(range(len(plan), len(plan) + len(ud)))
            plan += ud
        for di, (d, kind) in enumerate(plan):
            if hangs >= MAX_HANGS:
                rep.count(f"{fmt}:not-run-after-{MAX_HANGS}-hangs")
                continue
            dt = damaged_text(lines, d)
            out = observe(ml, fmt, dt)
            hangs += out[0] == "hang"
            rep.count(f"{fmt}:{kind}")
            rep.count(f"{fmt}:outcome:" + (out[1] if out[0] == "err" else out[0]))
            v = judge(fmt, lines, owner, orig, d, kind, out)
            key = None if d[0] == "none" else f"{fmt}:{bname}:{d}"
            rep.case(key=key, sample={"fmt": fmt, "base": bname, "damage": list(d), "outcome": out[0] if out[0] != "err" else out[1]})
            if v:
                rep.violate(v[0], v[1], {"fmt": fmt, "lines": lines, "damage": list(d), "kind": kind})
            elif out[0] != "hang" and d[0] != "none":
                # the same damaged text through two more of the entry points (all of them in turn over the plan)
                for r in range(2):
                    k = 1 + (2 * di + r) % (len(eps) - 1)
                    if ep_orig.get(k) is None or (eps[k][1] == "first" and d[0] != "trunc"):
                        # (a reader of the FIRST record stops reading after it: what follows the record is not its input)
                        continue
                    eo = run_limited(eps[k][2], dt)
                    hangs += eo[0] == "hang"
                    rep.count(f"{fmt}:entry:{eps[k][0]}")
                    v2 = judge(fmt, lines, owner, ep_orig[k], d, kind, eo)
                    if v2:
                        rep.violate(entry_sig(fmt, v2[0]), f"read through {eps[k][0]}: {v2[1]}",
                                    {"fmt": fmt, "lines": lines, "damage": list(d), "kind": kind, "entry": eps[k][0]})
            if out[0] == "hang" or (di not in in_coq and not v):
                continue
            rep.count(f"{fmt}:compared-in-coq")
            cases.append(f"({cq_nat(bi)}, {damage_term(d)}, {obs_term(out, table)})")
            meta.append((bname, d, kind, out[0]))
            if fmt == "mol2":
                # the vocabulary tables of the shard hold every token in play: those of the text, of a replacing line, and the
                # shortened tokens a cut leaves behind (`Du.Cl` cut to `Du` is a type of its own)
                part = [lines[d[1]][:d[2]]] if d[0] == "cut" and d[1] < len(lines) else []
                for l in (lines + part if d[0] != "repl" else [d[2]]):
                    tokens.update(t for t in l.split() if not floatlike(t))
    return base_lines, table, cases, meta, tokens


def run(ctx, rep):
    import warnings
    warnings.simplefilter("ignore")
    import molli as ml
    rep.rule = ("bundled + generated xyz/mol2 texts (incl. multi-molecule texts whose molecules declare EQUAL counts: conformers "
                "and different molecules) x damage operators: every line boundary (long texts: a sample plus every structural "
                "boundary of every molecule), every byte offset of the last line, line deletions, duplications, token corruptions, "
                "each token of the last atom / bond record dropped; mol2 texts in other SECTION LAYOUTS than the one molli writes "
                "(unsupported TRIPOS blocks before ATOM / between ATOM and BOND / after BOND, comment lines, UNITY sections, "
                "repeated tags, BOND before ATOM) with EVERY line deleted / duplicated; every returned molecule is compared in CONTENT (elements, "
                "labels, coordinates, bond endpoints and types, charges, atom types, FORMAL CHARGES and ATTRIBUTES of atoms and bonds) with the "
                "molecule at the same position of the undamaged text; every line of every UNITY_*_ATTR section deleted / duplicated / "
                "count, id and tokens spoiled; every undamaged text also compared with what it SAYS (independent reference reading, "
                "record by record), each record of a multi-record text read ALONE and compared with its molecule inside the text "
                "(libraries of equal-size records with different content), every text through EVERY entry point (3 classes x string / "
                "path / stream / generator / first record, top-level loaders; damaged texts two entry points each, in turn); "
                "a case is non-trivial when the text was actually damaged; distinct by (format, base text, damage)")
    rep.trusted += ["harness/c10.py: damage operators mirrored in Coq (apply_damage), canonicalisation of returned molecules, "
                    "exact rationals for observed floats",
                    "CPython: io.StringIO line iteration, str.split/strip, int(), float() (modelled in Common/ParseStr.v for ASCII)",
                    "mol2 vocabularies (Atom.set_mol2_type, MOL2_BOND_TYPE_MAP) are parameters of the model, tabulated from the "
                    "running code for every token in play (owned by C07)"]
    rep.assumptions += ["ASCII input", "names of generated molecules are not integer lists and not @<TRIPOS> records "
                        "(hypotheses name_ok / comment_ok of the theorems)",
                        "|decimal exponent| <= 400 in coordinate tokens"]
    regen_elements(ml)
    ok, out, where = vlib.build_props(ctx, rep, "C10")
    found = False
    if not ok:
        vlib.broken_obligation(rep, "C10_props", f"{where}\n{out[-1500:]}", False)
        return
    for fmt in ("xyz", "mol2"):
        t0 = time.time()
        base_lines, table, cases, meta, tokens = collect(ctx, rep, ml, fmt)
        if fmt == "xyz":
            head = header_for(fmt, base_lines, table)
        else:
            head = header_for(fmt, base_lines, table, atype_table(tokens), btype_keys())
        t1 = time.time()
        # the base texts and the table of observed molecules (exact rationals) take 10-20 s to type-check: compiled ONCE into
        # a module next to the shards (coqc has the current directory in its load path), every shard only loads it
        hp = os.path.join(ctx.sub("shards_" + fmt), f"c10hdr_{fmt}.v")
        open(hp, "w").write("(* generated by the correspondence harness; not kept *)\n" + head)
        rc, hout = vlib.coqc(hp, 900)
        rep.oblig(f"corr_{fmt}_header", rc == 0)
        if rc != 0:
            vlib.broken_obligation(rep, f"corr_{fmt}", "table of base texts / observed molecules does not compile:\n" + hout[-1500:], False)
            continue
        t2 = time.time()
        bad = vlib.run_shards(ctx, rep, fmt, HEAD + f"Require Import c10hdr_{fmt}.\n", "chk", cases,
                              shard=250 if fmt == "mol2" else 400, timeout=900)
        if os.environ.get("C10_TIMING"):
            print(f"[C10 timing] {fmt}: implementation+oracle {t1 - t0:.1f}s, table module {t2 - t1:.1f}s, "
                  f"{len(cases)} cases in shards {time.time() - t2:.1f}s", file=sys.stderr)
        if bad is None:
            vlib.broken_obligation(rep, f"corr_{fmt}", json.dumps(rep.extra.get("shard_errors", ""))[-1500:], False)
            continue
        if bad:
            already = {json.dumps(v.replay.get("damage")) for v in rep.violations}
            for i in bad[:20]:
                bname, d, kind, o = meta[i]
                rep.violate(f"C10:{fmt}:model-mismatch:{kind}",
                            f"model and implementation disagree on {bname} damaged by {d}: implementation {o}",
                            {"fmt": fmt, "base": bname, "damage": list(d), "kind": kind, "model_mismatch": True},
                            no_input=json.dumps(list(d)) not in already)
    return confirm_known(ml)


UNITY_LIMIT_LINES = ["@<TRIPOS>MOLECULE", "w", " 2 1 0 0 0", "SMALL", "NO_CHARGES", "", "@<TRIPOS>ATOM",
                     "      1 N          -1.4800    0.0200    0.0000 N.4     1  GLY        0.0000",
                     "      2 C           0.0000    0.0000    0.0000 C.3     1  GLY        0.0000",
                     "@<TRIPOS>UNITY_ATOM_ATTR", "1 1", "charge 1", "2 0", "@<TRIPOS>BOND", "     1     1     2    1"]
KNOWN_WITNESS = {
    "C10:xyz:last-numeric-token-truncated": ("xyz", ["1", "w", "C     1.000000     2.000000     3.456700"], ("cut", 2, 40), "cut-last"),
    # the type column is the last mandatory one; the columns after it are optional when the header says NO_CHARGES (or the class
    # has no partial charges): `Cl` cut to `C` is a complete record of another element
    "C10:mol2:last-numeric-token-truncated": ("mol2", ["@<TRIPOS>MOLECULE", "w", " 1 0 0 0 0", "SMALL", "NO_CHARGES", "", "@<TRIPOS>ATOM",
                                                       "      1 Cl1         1.0000    2.0000    3.0000 Cl"], ("cut", 7, 48), "cut-last"),
    # deleting the attribute line leaves `1 1` / `2 0`: a well-formed group whose one attribute is named "2"
    "C10:mol2:optional-section:damaged-text-still-well-formed": ("mol2", UNITY_LIMIT_LINES, ("del", 11), "unity-del"),
}


def confirm_known(ml):
    out = []
    for sig, (fmt, lines, d, kind) in KNOWN_WITNESS.items():
        orig = observe(ml, fmt, damaged_text(lines, ("none",)))
        o = observe(ml, fmt, damaged_text(lines, d))
        owner = xyz_block_of_line(lines) if fmt == "xyz" else mol2_block_of_line(lines)
        if orig[0] == "ok":
            v = judge(fmt, lines, owner, orig[1], d, kind, o)
            if v and v[0] == sig:
                out.append(sig)
    return out


def replay(ctx, data):
    import molli as ml
    fmt, lines, d = data["fmt"], data.get("lines"), tuple(data["damage"])
    if lines is None:
        return []
    o0 = observe(ml, fmt, damaged_text(lines, ("none",)))
    if o0[0] != "ok":
        return []
    if data.get("kind") == "layout":
        op = observe(ml, fmt, damaged_text(data["plain"], ("none",)))
        if op[0] == "ok" and not (len(op[1]) == len(o0[1]) and all(sig_eq(a, b) for a, b in zip(o0[1], op[1]))):
            return [vlib.Violation("C10:mol2:layout:unsupported-sections-change-content",
                                   "the text with extra sections is accepted but its molecules differ from the plain layout")]
        return []
    owner = xyz_block_of_line(lines) if fmt == "xyz" else mol2_block_of_line(lines)
    kind = data.get("kind", d[0])
    if kind == "as-written":
        v, _ = judge_base(fmt, lines, o0[1])
        return [vlib.Violation(v[0], v[1])] if v else []
    if kind == "alone":
        j = data["record"]
        recs = record_texts(fmt, lines)
        v = judge_alone(fmt, j, observe(ml, fmt, alone_text(recs[j])), o0[1][j]) if j < len(recs) and j < len(o0[1]) else None
        return [vlib.Violation(v[0], v[1])] if v else []
    if data.get("entry"):
        eps = entry_points(ml, fmt, ctx.sub("c10_entry_" + fmt))
        ep = next((e for e in eps if e[0] == data["entry"]), None)
        if ep is None:
            return []
        eo0 = run_limited(ep[2], damaged_text(lines, ("none",)))
        if kind == "entry-base":
            v = judge_entry(ep[1], eo0, o0[1])
            return [vlib.Violation(f"C10:{fmt}:entry-point:{v[0]}", v[1])] if v else []
        if eo0[0] != "ok":
            return []
        v = judge(fmt, lines, owner, eo0[1], d, kind, run_limited(ep[2], damaged_text(lines, d)))
        return [vlib.Violation(entry_sig(fmt, v[0]), v[1])] if v else []
    o = observe(ml, fmt, damaged_text(lines, d))
    v = judge(fmt, lines, owner, o0[1], d, kind, o)
    return [vlib.Violation(v[0], v[1])] if v else []
